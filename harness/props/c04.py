"""C04 — Analysis period enumerates exactly the time steps it describes.

Model: lean/Ladybug/Model/AP.lean (on Model/Cal.lean); theorems: lean/Ladybug/Props/C04.lean;
driver: drv_c04.  Tie: translator (Gen/ApTables from analysisperiod.py) + correspondence on the
ops below.  The oracle is an independent brute-force enumeration (plain integer minutes of the
year + stdlib datetime) written from the property statement.

Round 3 (histories, failure paths, process order).  `AnalysisPeriod` has no public setter: its
state is the constructor's result plus two lazily filled private slots (`_timestamps_data`,
`_datetimes`); there is no class-level or module-level mutable state.  The model has the explicit
object state machine `AP.Obj / AP.Op / Obj.step / World.step` (Model/APObj.lean, driver op `hist`):
* correspondence `hist`: generated operation histories on one object and on several objects of one
  process (reads in random order and repeated, every attribute assignment, refused calls
  `is_time_included(None)` / `is_possible_hour('x')`, refused constructor calls, in-place edits of
  returned lists/dicts, further periods of the other year kind / other timestep created and read in
  between, copies through duplicate / text / dict / from_start_end_datetime, equality), compared
  step by step with `World.outs`;
* oracle `history`: the same histories against the brute-force enumeration of the public state the
  user established (a refused operation establishes nothing; an accepted assignment establishes
  what the object then reports); failures are shrunk to the ops that matter;
* oracle `order`: a slice of all oracle ops is evaluated in 3 (thorough: 4) fresh interpreters in
  different orders (rare classes first: failing calls, leap, wrapping, sub-hourly, overnight,
  histories; the reverse; shuffled); an order-dependent failure is replayed as {"order": [...]}.

Round 4 (input shapes, aliasing, conventions, numeric edges, rare branches).  `AnalysisPeriod` has no
subclass, twin or sibling class in /repo (kind e: nothing to compare across classes; `copy.copy`,
`copy.deepcopy`, `duplicate` and the three class methods are the "sibling" routes to an equal period
and are compared with each other).  Added:
* output shapes (kind f): every listing a read returns must be a real sequence (`_seq`: `len()` and
  two equal passes -- a generator / map object is refused), containers returned earlier are KEPT by
  the harness and re-checked after every later step of the history (`_keep`: an aliased template /
  shared list that a later call rewrites shows as a changed earlier answer);
* the caller's dictionary (kind f/i): `from_dict` read twice through the SAME dict object, which must
  still hold the user's entries (`twice`); a full dictionary of another period read first, then the
  sparse form (`decoy`: a callee that keeps what it read); sparse form (defaults left out), other
  insertion orders / OrderedDict / dict subclass (`ordered`), text values (`text`); model side
  `AP.fromDictV` / `AP.fillNone` / `AP.sparseDict` (driver ops `from_dictv`, `sparse`);
* text for numbers (kind i): the constructor itself with text arguments (all six, and mixed with
  integers; model `AP.mkText?`, driver op `mk_text`), `from_string` of the text form written in upper
  case / with doubled, dropped, leading and trailing blanks / zero-padded two-digit fields / after the
  same text of the other year kind was parsed (`decoy`); month or day "0" in text must be refused;
  `from_start_end_datetime` with the timestep as text / float;
* conventions (kind g): membership probes are built alternately by `DateTime.from_moy` and by the plain
  constructor from stdlib arithmetic; small periods probe every step and every grid point of the
  first / last day and of the year's last day; counted strata where two conventions differ (leap year
  spanning 29 Feb on the fast `len`, steps that are not a binary fraction of the hour at the year end);
* numeric edges (kind h): `is_possible_hour` is asked float hours just inside / outside every edge of
  the window (1e-12, x +- 1e-9, 22.999999999, 23.000000001, 23.999999999) and integer hours;
  `hoys` must be floats equal to moy / 60.0 exactly, `hoys_int` integers;
* rare branches (kind j), counted as `branch:*` from the constructor arguments by `_branches`:
  __init__: each `or` default, `end_hour is None`, leap / plain table, end day clipped, overnight,
    reversed, refused by DateTime, IndexError of the month table, invalid timestep alone;
  _calculate_timestamps: one segment / two segments (reversed);
  _calc_timestamps: loop step inside / outside the window; the block after the loop -- skipped because
    hourly / loop stopped before hour 23 / window without hour 0 / window without hour 23 (the repaired
    conjunct: wrapping period, window 0..end_hour < 23) / taken;
  is_possible_hour: hour > 23 truncated (hour 0 possible) / used as it is; overnight / daytime test;
  __len__: fast, fast reversed, slow with empty slots, slow with filled slots (histories);
  moys/hoys/hoys_int/datetimes/is_time_included: first use (fills the slots) / already filled;
  doys_int / months_int: plain / reversed (and reversed with the same month at both ends);
  __repr__: with / without the leap star; from_string: leap star or not, failing parse (re-raised as
    ValueError); from_dict: each key present / missing / None; __eq__: other is not a period
    (`eq_other`); from_start_end_datetime: start and end of different year kinds (`start_end_bad`).
  Not reachable through the public API: `_calc_timestamps` with start after end (the constructor's
  reversed flag routes those to two calls), `except AttributeError` in DateTime.from_date_time_string
  (old interpreters only, not used by this class).

Producers and their consumers (each consumer is exercised by `hist`/`history`, by the fresh-object
ops, or by both):
* `_calc_timestamps` + `_calculate_timestamps` (enumeration, trailing 23:xx steps, year-wrap split)
  -> datetimes, moys, hoys, hoys_int, is_time_included, slow `__len__`
* `is_possible_hour` -> enumeration loop, trailing block, months_per_hour, public call (`possible`)
* `_st_time/_end_time` (constructor, end-day clipping) -> st_*/end_* fields, is_annual, is_reversed,
  is_overnight, `__repr__`/`__str__`/`ToString`, to_dict, `__eq__`/`__ne__`/`__hash__`, duplicate,
  doys_int, months_int, fast `__len__`, from_start_end_datetime
* `_is_reversed` -> moys split, doys_int, months_int, fast `__len__`
* `_num_of_days_each_month` -> end-day clipping, `_calc_daystamps` (doys_int)
* `VALIDTIMESTEPS`/`minute_intervals` -> constructor rejection, loop step, `fields`
* constructor -> from_dict, from_string, from_start_end_datetime, duplicate/`__copy__` (accept AND
  reject side of each: ops `forms`, `reject`, history ops `via_*`, `new`)
"""
import calendar
import contextlib
import io
import json
import os
import re
import subprocess
import sys
from datetime import datetime, timedelta

from harness import core
from harness.core import compare_batch, err_name, run_oracle_cases

PROP = 'C04'
PROOF_MODULES = ['Ladybug.Props.C04']
GREP_MODULES = ['Ladybug.Py', 'Ladybug.Model.Cal', 'Ladybug.Gen.DtTables', 'Ladybug.Proofs.CalLemmas',
                'Ladybug.Model.AP', 'Ladybug.Gen.ApTables', 'Ladybug.Proofs.C04Lemmas',
                'Ladybug.Proofs.C04Listings', 'Ladybug.Proofs.C04Order', 'Ladybug.Model.APObj', 'Ladybug.Proofs.C04Obj',
                'Ladybug.Model.APForms', 'Ladybug.Proofs.C04Forms',
                'Ladybug.Drv.C04', 'Ladybug.DrvCore', 'Ladybug.Props.C08']
RULE = ('periods are drawn from the product of boundary sets: dates {1 Jan, 28/29 Feb, 1 Mar, 30/31 of a month, '
        '30/31 Dec, random}, hours {0,1,11,12,22,23,random}^2 (overnight included), all 12 timesteps, both leap '
        'flags, shapes {one day, few days, months, annual, reversed short (Dec->Jan), reversed long, same-day '
        'reversed}; about 10 % malformed (bad month/day/hour/timestep, None/0 arguments, clipped end days). '
        'The total number of enumerated steps per run is capped (correspondence: quick 1.2e6, thorough 1e7; oracle: 9e5 / 6e6; the thorough oracle adds a 1-in-6 lattice of all (st_hour, end_hour, timestep) triples on 5 short date pairs x 2 leap flags). A case is '
        'non-trivial when the constructor accepts it; distinct = distinct (op, 8 constructor arguments). '
        'Hour windows have their own strata: whole day, overnight covering every hour (st_hour = end_hour + 1), '
        'one-hour window, overnight holding 23 and 0.  Histories: a small period (<= 2500 steps; wrapping, leap, '
        'sub-hourly and overnight shapes as above, 8 % through None/0 defaults), 40 % with a rare first operation '
        '(membership test, len, refused call, in-place edit, listing), then 5-12 random world ops (52 % reads, 14 % '
        'refused, 10 % edits of returned values, 12 % further periods valid/invalid - 70 % of the valid ones differ '
        'from an existing object only in leap flag / timestep / swapped hours or dates -, 8 % copies, 4 % equality) '
        'and a final sweep over every observable of every object in random order; distinct = distinct op list. '
        'Round 4: copies are made through every route and shape (duplicate / copy / deepcopy; text form as printed, upper case, '
        'blanks doubled / dropped / around, zero-padded, after the other year kind; dictionary form json / sparse / read twice '
        'through one object / other mapping classes and orders / text values / after another full dictionary; '
        'from_start_end_datetime with int / text / float timestep), 60 % of them are read at once; refused ops include '
        'from_start_end_datetime with mixed year kinds and == with non-periods; the branches of the anchored functions are '
        'counted per case (`branch:*`).')
TRUSTED_BASE = [
    'translator tools/extract/ap_tables.py: copies VALIDTIMESTEPS, NUMOFDAYSEACHMONTH(LEAP), MONTHNAMES',
    'modelled, not verified: CPython datetime += timedelta arithmetic inside one year is minute-of-year '
    'addition; timedelta(1/(24.0*ts)) is 60/ts minutes (checked for the 12 timesteps on every run); float hour '
    'comparisons in is_possible_hour are exact on the minute grid',
    'character-level __repr__/from_string (replace chain, split) is tied by correspondence only; theorem '
    'C04_repr_roundtrip_partial is at token level',
    'histories: the model object has exactly the two private slots of the class and no class/module state; a '
    'change that adds hidden state shows as a `hist` disagreement or `history`/`order` failure on generated '
    'histories only (sampled, not proved of the code); the fresh-interpreter runs cover a slice of the oracle '
    'stream, not the correspondence',
    'round 4: the harness-side shapes (which blanks / paddings / mapping classes count as "the same text / dictionary") are '
    'chosen from what from_string / from_dict are coded to accept (lower-casing, blank removal, int()); AP.fromDictV / '
    'AP.fillNone / AP.mkText? are tied to from_dict / the constructor by the ops from_dictv, sparse, mk_text',
    'the model describes the code with fixes/C04_trailing_steps_window.patch and '
    'fixes/C04_months_per_hour_window.patch applied',
]
ASSUMPTIONS = [
    'reading of the statement: the daily hour window is the closed interval st_hour:00 .. end_hour:00 (through '
    'midnight when st_hour > end_hour), the window 0..23 is the whole day; the end moment is the end of the end '
    'hour; an end day beyond the month length is clipped to the last day (documented behaviour), not rejected',
    'CPython datetime is the reference calendar for the oracle',
]
LEVEL_TEXT = ('Machine-checked Lean 4 theorems over an executable model of analysisperiod.py: a minute of the year '
              'is enumerated iff it satisfies the independent predicate (in year, on the 60/timestep grid, time of '
              'day in the hour window, between start moment and end of the end hour, cyclically for wrapped '
              'periods) for every well-formed period, all 12 timesteps, both leap flags; the enumeration is '
              'strictly chronological from the start moment without repeats; len() (fast and slow path) equals '
              'its length (never 0); is_time_included agrees with it; doys_int and months_int are its days/months in list order (adjacent-dedup, wrapping periods included); months_per_hour is complete and sound, and its exact image when every listed month contains a whole day; constructor '
              'rejection and the dict / token-level text round trips. An explicit object state machine (the two lazily '
              'filled slots, every public operation, refused assignments and calls, several objects in one process) '
              'is proved to refine the pure specification: after ANY history every answer is the fresh object\'s, a '
              'refused operation changes no observation, reads commute, objects do not influence each other. '
              'Round 4: reading the same dictionary object twice (from_dict writes None under missing keys) gives the same period, the sparse dictionary form reads back, the result depends on the mapping only, text arguments build the same period as integers (text "0" month/day refused), and the block after the enumeration loop is taken exactly under its four conditions. '
              'The class constants are regenerated from '
              'the source on every run and the model is compared with the real class on boundary-biased inputs.')
LEVEL_NOTE = ('Trusted: Lean kernel; axioms propext/Classical.choice/Quot.sound only; the constants extractor; the '
              'correspondence run (agreement on generated inputs only); CPython datetime/timedelta arithmetic; '
              'character-level text form tied by correspondence only. The model and theorems describe the code '
              'with the two C04 fix patches applied; on an unpatched tree the check reports the violation.')
TECHNIQUE = ('Lean 4 proof (induction on the enumeration loop, case split over the 12 timesteps, omega, reuse of '
             'the C08 calendar bijection) about a model tied to analysisperiod.py by regenerated constants and '
             'differential correspondence')

VALID_TS = (1, 2, 3, 4, 5, 6, 10, 12, 15, 20, 30, 60)


def extract(ctx):
    from tools.extract import ap_tables, dt_tables
    dt_tables.extract()
    ctx.tables = ap_tables.extract()


# ---------------------------------------------------------------------------------------------
# helpers


def _b(x):
    return '1' if x else '0'


def _tok(x):
    return 'N' if x is None else str(int(x))


def _line(op, c):
    return '%s %s %s' % (op, ' '.join(_tok(x) for x in c[:7]), _b(c[7]))


@contextlib.contextmanager
def _quiet():
    with contextlib.redirect_stdout(io.StringIO()):
        yield


def _mk(c):
    from ladybug.analysisperiod import AnalysisPeriod
    with _quiet():
        return AnalysisPeriod(*c)


def _days_in_year(leap):
    return 366 if leap else 365


def _mlen(leap, m):
    return calendar.monthrange(2016 if leap else 2017, m)[1]


def _doy(leap, m, d):
    y = 2016 if leap else 2017
    return (datetime(y, m, d) - datetime(y, 1, 1)).days + 1


def _steps_estimate(c):
    """Upper estimate of the number of enumerated steps (for the cost cap); 0 if not a plain valid case."""
    try:
        sm, sd, sh, em, ed, eh, ts, leap = c
        sm, sd, sh = sm or 1, sd or 1, sh or 0
        em, ed = em or 12, ed or 31
        eh = 23 if eh is None else eh
        ts = ts or 1
        ed = min(ed, _mlen(leap, em))
        a, b = _doy(leap, sm, sd), _doy(leap, em, ed)
        days = b - a + 1 if (a, sh) <= (b, eh) else _days_in_year(leap) - (a - b) + 1
        return max(days, 1) * 24 * ts
    except Exception:
        return 0


BOUNDARY_DATES = [(1, 1), (1, 2), (1, 31), (2, 1), (2, 28), (3, 1), (4, 30), (6, 30), (7, 1), (7, 31),
                  (11, 30), (12, 1), (12, 30), (12, 31)]
BOUNDARY_HOURS = [0, 1, 11, 12, 22, 23]


def _rand_date(rng, leap):
    r = rng.random()
    if leap and r < 0.12:
        return (2, 29)
    if r < 0.5:
        return rng.choice(BOUNDARY_DATES)
    m = rng.randrange(1, 13)
    return (m, rng.randrange(1, _mlen(leap, m) + 1))


def _date_from_doy(leap, k):
    y = 2016 if leap else 2017
    n = _days_in_year(leap)
    k = (k - 1) % n
    d = datetime(y, 1, 1) + timedelta(days=k)
    return (d.month, d.day)


def _rand_hours(rng):
    r = rng.random()
    if r < 0.2:
        return 0, 23
    if r < 0.28:                       # overnight window that covers every hour (st_hour == end_hour + 1)
        eh = rng.choice([0, 0, 5, 11, 22, rng.randrange(23)])
        return eh + 1, eh
    if r < 0.33:                       # one-hour window
        h = rng.choice([0, 12, 23, rng.randrange(24)])
        return h, h
    if r < 0.38:                       # overnight window holding both 23 and 0
        return rng.choice([20, 22, 23, 13]), rng.choice([0, 1, 5, 12])
    if r < 0.7:
        return rng.choice(BOUNDARY_HOURS), rng.choice(BOUNDARY_HOURS)
    return rng.randrange(24), rng.randrange(24)


def _rand_ts(rng, big_ok=True):
    r = rng.random()
    if r < 0.35 or not big_ok:
        return rng.choice([1, 1, 2, 3, 4])
    return rng.choice(VALID_TS)


def _gen_valid(ctx, rng):
    """One valid period (8 constructor arguments) + its shape label."""
    leap = rng.random() < 0.5
    sh, eh = _rand_hours(rng)
    shape = rng.choice(['one-day', 'few-days', 'few-days', 'months', 'annual', 'rev-short', 'rev-short',
                        'rev-long', 'same-day', 'month-edge'])
    n = _days_in_year(leap)
    if shape == 'one-day':
        sm, sd = _rand_date(rng, leap)
        em, ed = sm, sd
        if sh > eh and rng.random() < 0.5:
            sh, eh = eh, sh
        ts = _rand_ts(rng)
    elif shape == 'same-day':          # start hour after end hour on the same day: wraps the whole year
        sm, sd = _rand_date(rng, leap)
        em, ed = sm, sd
        if sh == eh:
            sh, eh = 10, 8
        if sh < eh:
            sh, eh = eh, sh
        ts = rng.choice([1, 1, 1, 2, 3])
    elif shape == 'few-days':
        sm, sd = _rand_date(rng, leap)
        a = _doy(leap, sm, sd)
        b = min(n, a + rng.randrange(1, 5))
        em, ed = _date_from_doy(leap, b)
        ts = _rand_ts(rng)
    elif shape == 'month-edge':        # around a month boundary, incl. 28/29 Feb -> 1 Mar
        m = rng.randrange(1, 12)
        a = _doy(leap, m, _mlen(leap, m)) - rng.randrange(0, 2)
        sm, sd = _date_from_doy(leap, a)
        em, ed = _date_from_doy(leap, a + rng.randrange(1, 4))
        ts = _rand_ts(rng)
    elif shape == 'months':
        sm, sd = _rand_date(rng, leap)
        em, ed = _rand_date(rng, leap)
        if (sm, sd) > (em, ed):
            sm, sd, em, ed = em, ed, sm, sd
        ts = _rand_ts(rng, big_ok=False)
    elif shape == 'annual':
        sm, sd, em, ed = 1, 1, 12, 31
        if rng.random() < 0.5:
            sh, eh = 0, 23
        ts = _rand_ts(rng, big_ok=rng.random() < 0.15)
    elif shape == 'rev-short':         # late December -> early January
        a = n - rng.randrange(0, 4)
        b = rng.randrange(1, 4)
        sm, sd = _date_from_doy(leap, a)
        em, ed = _date_from_doy(leap, b)
        ts = _rand_ts(rng)
    else:                               # rev-long
        sm, sd = _rand_date(rng, leap)
        em, ed = _rand_date(rng, leap)
        if (sm, sd) < (em, ed):
            sm, sd, em, ed = em, ed, sm, sd
        ts = _rand_ts(rng, big_ok=False)
    return (sm, sd, sh, em, ed, eh, ts, leap), shape


def _gen_malformed(rng):
    leap = rng.random() < 0.5
    base = [rng.randrange(1, 13), rng.randrange(1, 29), rng.randrange(24),
            rng.randrange(1, 13), rng.randrange(1, 29), rng.randrange(24), rng.choice(VALID_TS)]
    kind = rng.choice(['ts', 'st_month', 'st_day', 'st_hour', 'end_month', 'end_day', 'end_hour', 'none',
                       'zero', 'clip', 'feb29'])
    if kind == 'ts':
        base[6] = rng.choice([7, 8, 9, 11, 13, 14, 24, 25, 40, 59, 61, 120, -1, -2, 100])
    elif kind == 'st_month':
        base[0] = rng.choice([13, 14, -1, -12, 100])
    elif kind == 'st_day':
        base[0] = rng.choice([2, 4, 6, 9, 11])
        base[1] = rng.choice([30, 31, 32, -1, 40]) if base[0] == 2 else rng.choice([31, 32, -1])
    elif kind == 'st_hour':
        base[2] = rng.choice([24, 25, -1, 100])
    elif kind == 'end_month':
        base[3] = rng.choice([13, 14, -1, -2, -11, -12, -13, 100])
    elif kind == 'end_day':
        base[4] = rng.choice([-1, -5, 32, 40, 31, 30, 29])
    elif kind == 'end_hour':
        base[5] = rng.choice([24, 25, -1, 100])
    elif kind == 'none':
        for i in range(7):
            if rng.random() < 0.4:
                base[i] = None
        base[6] = base[6] if base[6] in (None, 1, 2) else 1
        base[0], base[1] = (base[0] and 1), (base[1] and 1)
    elif kind == 'zero':
        for i in range(7):
            if rng.random() < 0.4:
                base[i] = 0
        base[6] = base[6] if base[6] in (0, 1, 2) else 1
        base[0], base[1] = (base[0] and 1), (base[1] and 1)
    elif kind == 'clip':
        base[0], base[1] = 1, 1
        base[3] = rng.choice([2, 4, 6, 9, 11])
        base[4] = rng.choice([29, 30, 31])
        base[6] = 1
    elif kind == 'feb29':
        base[0], base[1] = 2, 29
        base[3], base[4] = rng.choice([(2, 29), (3, 1), (12, 31)])
        base[6] = 1
    return tuple(base) + (leap,), 'malformed:' + kind


FIXED = [
    # the hand-picked periods of tests/analysisperiod_test.py and the witnesses of the two repaired defects
    (1, 1, 0, 12, 31, 23, 1, False), (1, 1, 0, 12, 31, 23, 1, True),
    (2, 21, 9, 2, 22, 17, 1, False), (1, 1, 0, 1, 1, 23, 4, False), (6, 21, 22, 6, 22, 5, 1, False),
    (12, 1, 0, 2, 28, 23, 1, False), (6, 1, 0, 2, 28, 23, 2, True),
    (12, 31, 0, 1, 1, 10, 2, False),          # trailing steps outside the window (repaired)
    (12, 30, 0, 1, 2, 22, 6, True),
    (1, 1, 9, 1, 1, 10, 2, False),            # months_per_hour sub-hourly (repaired)
    (1, 1, 22, 1, 2, 2, 1, False),            # months_per_hour overnight (repaired)
    (1, 31, 22, 2, 1, 2, 3, False),
    (1, 5, 10, 1, 5, 8, 1, False),            # same-day reversed
    (1, 1, 5, 1, 1, 23, 2, False), (1, 1, 0, 1, 1, 23, 60, True),
    (2, 28, 0, 3, 1, 23, 1, True), (2, 29, 12, 2, 29, 12, 5, True), (1, 1, 0, 2, 29, 23, 1, False),
    (12, 31, 23, 12, 31, 23, 60, False), (1, 1, 0, 1, 1, 0, 1, False), (12, 31, 23, 1, 1, 0, 4, True),
    (1, 1, 23, 12, 31, 0, 2, False),
    (None, None, None, None, None, None, None, False), (0, 0, 0, 0, 0, 0, 0, True),
    (1, 1, 0, 12, 31, None, 1, False),
    (1, 1, 0, 13, 1, 23, 1, False), (1, 1, 0, -1, 5, 23, 1, False), (1, 1, 0, -12, 5, 23, 1, False),
    (2, 30, 0, 12, 31, 23, 1, True), (1, 1, 24, 12, 31, 23, 1, False), (1, 1, 0, 12, 31, 23, 7, False),
    (1, 1, 0, 12, 31, 23, -1, False), (1, 1, 0, 12, 31, 24, 1, False), (1, 1, 0, 4, -1, 23, 1, False),
    # round 3: rare classes as fixed members
    (12, 30, 20, 1, 2, 5, 6, False), (11, 1, 0, 2, 29, 23, 12, True),       # wrapping + sub-hourly + 23 and 0
    (3, 1, 12, 3, 10, 11, 4, False), (1, 1, 1, 1, 2, 0, 2, False), (12, 20, 6, 1, 10, 5, 12, True),  # every hour, overnight
    (3, 1, 7, 3, 3, 7, 15, False), (12, 31, 23, 1, 1, 23, 30, False),       # one-hour windows
    (2, 29, 0, 3, 5, 23, 1, False), (4, 31, 8, 5, 2, 18, 4, False), (6, -3, 0, 6, 30, 23, 1, False),  # start dates not in the calendar
    (6, 31, None, 7, 2, None, None, False), (2, 29, 0, 2, 29, 23, 1, False), (2, 28, 0, 2, 29, 23, 1, False),
    (2, 28, 0, 2, 30, 23, 2, True), (2, 28, 0, 2, 30, 23, 2, False),        # end day clipped to 29 / 28
] + [tuple(v if i == k else d for i, d in enumerate((3, 5, 6, 3, 7, 18, 2))) + (leap,)     # one falsy argument at a time
     for k in range(7) for v in (0, None) for leap in (False, True)]


def _periods(ctx, n, cap, rng=None, malformed=0.1):
    """Fixed corpus + n generated periods; the estimated number of enumerated steps is capped:
    periods with more than 15000 steps may use 60 % of the cap, the rest is left to small ones."""
    rng = rng or ctx.rng
    out = []
    seen = set()
    used_big = used_small = 0
    for c in FIXED:
        out.append((c, 'fixed'))
        seen.add(c)
        used_big += _steps_estimate(c)
    tries = 0
    while len(out) < n + len(FIXED) and tries < 30 * n:
        tries += 1
        if rng.random() < malformed:
            c, shape = _gen_malformed(rng)
        else:
            c, shape = _gen_valid(ctx, rng)
        if c in seen:
            continue
        est = _steps_estimate(c)
        if est > 15000:
            if used_big + est > 0.6 * cap:
                continue
            used_big += est
        else:
            if used_small + est > 0.4 * cap:
                if est > 400:
                    continue
            used_small += est
        seen.add(c)
        out.append((c, shape))
    return out


def _chunks(cases, max_steps):
    """Split a case list so that each part enumerates at most max_steps steps (object cache size)."""
    part, used = [], 0
    for c in cases:
        est = _steps_estimate(c)
        if part and used + est > max_steps:
            yield part
            part, used = [], 0
        part.append(c)
        used += est
    if part:
        yield part


def _branches(c):
    """The branches of the anchored functions that the period `c` (constructor arguments) takes --
    computed from the arguments with plain arithmetic, for the counted strata of kind (j)."""
    out = []
    n = _normalise(c)
    if n is None:
        return out
    sm, sd, sh, em, ed, eh, ts, leap = n
    rev = (sm, sd, sh) > (em, ed, eh)
    ovn = sh > eh
    has0 = ovn or sh == 0
    has23 = ovn or eh == 23
    out.append('init:leap-table' if leap else 'init:plain-table')
    out.append('init:overnight' if ovn else 'init:not-overnight')
    out.append('init:reversed' if rev else 'init:not-reversed')
    if c[4] not in (None, 0) and c[4] != ed:
        out.append('init:end-day-clipped')
    for i, nm in enumerate(('st_month', 'st_day', 'st_hour', 'end_month', 'end_day', 'end_hour', 'timestep')):
        if c[i] is None or (c[i] == 0 and nm != 'end_hour'):
            out.append('init:default:' + nm)
    out.append('enumerate:two-segments' if rev else 'enumerate:one-segment')
    out.append('loop:some-steps-outside-window' if (sh, eh) != (0, 23) and not (ovn and sh == eh + 1 and ts == 1)
               else 'loop:every-step-inside')
    # the block after the loop, per segment: (end hour of the segment)
    for seg_end in ([23, eh] if rev else [eh]):
        if ts == 1:
            out.append('trailing:skipped:hourly')
        elif seg_end != 23:
            out.append('trailing:skipped:stops-before-23')
        elif not has0:
            out.append('trailing:skipped:no-hour-0')
        elif not has23:
            out.append('trailing:skipped:no-hour-23')       # the repaired conjunct (wrapping, window 0..eh<23)
        else:
            out.append('trailing:taken')
    out.append('possible:overnight' if ovn else 'possible:daytime')
    out.append('possible:after-23:' + ('truncated' if has0 else 'as-is'))
    if (sh, eh) == (0, 23):
        out.append('len:fast:reversed' if rev else 'len:fast')
        d0, d1 = _doy(leap, sm, sd), _doy(leap, em, ed)
        if leap and ((d0 <= 60 <= d1) if not rev else (d0 <= 60 or 60 <= d1)):
            out.append('len:fast:leap-spans-29-feb')
    else:
        out.append('len:slow')
    out.append('listings:reversed' if rev else 'listings:plain')
    if rev and sm == em:
        out.append('listings:reversed-same-month-twice')
    out.append('repr:leap-star' if leap else 'repr:plain')
    if ts in (3, 5, 6, 10, 12, 15, 20, 30, 60):
        out.append('step:not-a-binary-fraction-of-the-hour')
        if (rev or (em, ed) == (12, 31)) and has23:
            out.append('step:not-binary-at-the-year-end')
    return out


def _count_dist(ctx, cases):
    for c, shape in cases:
        ctx.count('shape:' + shape)
        for b in _branches(c):
            ctx.count('branch:' + b)
        if shape.startswith('malformed'):
            try:
                ts = c[6] or 1
                ok_dates = _normalise(tuple(c[:6]) + (1, c[7])) is not None
                ctx.count('branch:init:' + ('bad-timestep-only' if ok_dates and ts not in VALID_TS else
                                            'end-month-index-error' if isinstance(c[3], int) and not -12 <= (c[3] or 12) - 1 < 12
                                            else 'datetime-refused'))
            except Exception:
                pass
            continue
        ctx.count('timestep:%s' % (c[6],))
        ctx.count('leap:%s' % _b(c[7]))
        try:
            sh, eh = c[2] or 0, (23 if c[5] is None else c[5])
            ctx.count('window:' + ('whole-day' if (sh, eh) == (0, 23) else 'overnight' if sh > eh else 'partial'))
            if sh == eh + 1:
                ctx.count('window:overnight-every-hour')
            if sh == eh:
                ctx.count('window:one-hour')
            if sh > eh and eh >= 0:
                ctx.count('window:overnight-with-23-and-0')
            n = _normalise(c)
            if n is not None:
                if (n[0], n[1], n[2]) > (n[3], n[4], n[5]):
                    ctx.count('class:wrapping')
                    if n[6] > 1:
                        ctx.count('class:wrapping-sub-hourly')
                if any(x is None for x in c[:7]):
                    ctx.count('class:none-argument')
                if any(x == 0 and x is not None for x in (c[0], c[1], c[3], c[4], c[6])):
                    ctx.count('class:zero-for-defaulted-argument')
                if c[5] == 0:
                    ctx.count('class:end-hour-0')
                if (n[0], n[1]) == (2, 29) or (n[3], n[4]) == (2, 29):
                    ctx.count('class:29-feb')
                if c[4] is not None and c[4] != n[4] and c[4] != 0:
                    ctx.count('class:end-day-clipped')
        except TypeError:
            pass


# ---------------------------------------------------------------------------------------------
# correspondence


def _show_ap(ap):
    return 'ok %d %d %d %d %d %d %d %s %s %s %s %d %d %d' % (
        ap.st_month, ap.st_day, ap.st_hour, ap.end_month, ap.end_day, ap.end_hour, ap.timestep,
        _b(ap.is_leap_year), _b(ap.is_reversed), _b(ap.is_overnight), _b(ap.is_annual),
        ap.st_time.moy, ap.end_time.moy, _minutes(ap.minute_intervals))


def _minutes(td):
    s = td.total_seconds()
    if s != int(s) or int(s) % 60:
        return -1
    return int(s) // 60


def _show_list(xs):
    xs = list(xs)
    return ('ok %d ' % len(xs) + ' '.join(str(int(x)) for x in xs)).rstrip() if xs else 'ok 0 '


def _canon(s):
    return s.rstrip()


def correspondence(ctx):
    from ladybug.analysisperiod import AnalysisPeriod
    from ladybug.dt import DateTime
    rng = ctx.rng
    big = ctx.searching
    cases = _periods(ctx, ctx.n(1300, 10000) * (3 if big and ctx.quick else 1),
                     ctx.n(1.2e6, 1e7) * (3 if big and ctx.quick else 1))
    _count_dist(ctx, cases)
    cs = [c for c, _ in cases]
    key = lambda c: tuple(c)  # noqa: E731

    # minute_intervals of every valid timestep is 60 // ts minutes (modelling convention, DESIGN section 4)
    for ts in VALID_TS:
        ctx.compared += 1
        if _mk((1, 1, 0, 1, 1, 23, ts, False)).minute_intervals != timedelta(minutes=60 // ts):
            ctx.disagree('minute_intervals', {'timestep': ts}, '%d min' % (60 // ts),
                         str(_mk((1, 1, 0, 1, 1, 23, ts, False)).minute_intervals))

    for part in _chunks(cs, 1.5e6):
        _correspond_part(ctx, part, key)
    _correspond_histories(ctx)
    _correspond_entry_points(ctx, cs)


def _correspond_histories(ctx):
    """Operation histories on one object / several objects of one process, step by step against the
    object state machine of the model (`AP.World.outs`)."""
    rng = ctx.rng
    n = ctx.n(400, 2500) * (3 if ctx.searching and ctx.quick else 1)
    hs = [(h, 'fixed') for h in FIXED_HISTORIES] + [_gen_history(ctx, rng) for _ in range(n)]
    for h, shape in hs:
        ctx.count('history_shape:' + shape)
        ctx.count('history_ops', len(h['ops']))
        ctx.count('history_leap:%s' % _b(h['args'][7]))
        filled = set()
        for op in h['ops']:
            ctx.count('history_op:' + (op[2] if op[0] == 'on' else op[0]))
            if op[0] != 'on' and len(op) > 2 and op[0] != 'new' and op[0] != 'eq':
                ctx.count('history_variant:%s:%s' % (op[0], op[2]))
            if op[0] == 'on':
                if op[2] == 'len':
                    ctx.count('branch:len:history:' + ('slots-filled' if op[1] in filled else 'slots-empty'))
                if op[2] in ('moys', 'hoys', 'hoys_int', 'datetimes', 'included', 'included_bad') or \
                        (op[2] == 'mutate_result' and op[3] in ('moys', 'hoys', 'hoys_int', 'datetimes')):
                    ctx.count('branch:fill:' + ('already-filled' if op[1] in filled else 'first-use'))
                    filled.add(op[1])
        first = h['ops'][0]
        ctx.count('history_first:' + (first[2] if first[0] == 'on' else first[0]))
    compare_batch(ctx, 'hist', [h for h, _ in hs], _hist_line, _run_history_impl, canon=_canon,
                  key=lambda h: json.dumps(h, sort_keys=True, default=str))


def _correspond_entry_points(ctx, cs):
    """`from_start_end_datetime` (the remaining public entry point) against the model's constructor."""
    from ladybug.analysisperiod import AnalysisPeriod
    from ladybug.dt import DateTime
    def dates_ok(c):        # both DateTimes exist (stdlib calendar): the entry point takes DateTime arguments
        try:
            return all(isinstance(x, int) and not isinstance(x, bool) for x in c[:7]) and c[6] > 0 and \
                1 <= c[0] <= 12 and 1 <= c[3] <= 12 and 1 <= c[1] <= _mlen(bool(c[7]), c[0]) and 1 <= c[4] and \
                0 <= c[2] <= 23 and 0 <= c[5] <= 23
        except Exception:
            return False
    plain = [c for c in cs if dates_ok(c)]

    def impl(c):
        leap = bool(c[7])
        try:
            st = DateTime(c[0], c[1], c[2], 0, leap)
            en = DateTime(c[3], min(c[4], _mlen(leap, c[3]) if 1 <= c[3] <= 12 else c[4]), c[5], 0, leap)
        except Exception as e:
            return 'err:' + err_name(e)
        return _show_ap(_quiet_call(AnalysisPeriod.from_start_end_datetime, st, en, c[6]))

    compare_batch(ctx, 'from_start_end', plain[:ctx.n(500, 3000)], lambda c: _line('mk', c), impl, canon=_canon,
                  key=lambda c: tuple(c))


def _correspond_part(ctx, cs, key):
    from ladybug.analysisperiod import AnalysisPeriod
    from ladybug.dt import DateTime
    rng = ctx.rng
    cache = {}

    def obj(c):
        if c not in cache:
            cache[c] = _mk(c)
        return cache[c]

    compare_batch(ctx, 'mk', cs, lambda c: _line('mk', c), lambda c: _show_ap(_mk(c)), canon=_canon, key=key)
    # len() on a fresh object (fast path where it applies) -- before anything touched moys
    compare_batch(ctx, 'len', cs, lambda c: _line('len', c), lambda c: 'ok %d' % len(_mk(c)), key=key)
    compare_batch(ctx, 'moys', cs, lambda c: _line('moys', c), lambda c: _show_list(obj(c).moys),
                  canon=_canon, key=key)
    compare_batch(ctx, 'hoys_int', cs, lambda c: _line('hoys_int', c), lambda c: _show_list(obj(c).hoys_int),
                  canon=_canon, key=key)
    small = [c for c in cs if 0 < _steps_estimate(c) <= 6000 or _steps_estimate(c) == 0]
    compare_batch(ctx, 'datetimes', small, lambda c: _line('datetimes', c),
                  lambda c: ('ok ' + ' '.join('%d-%d-%d-%d-%s' % (d.month, d.day, d.hour, d.minute, _b(d.leap_year))
                                              for d in obj(c).datetimes)), canon=_canon, key=key)
    compare_batch(ctx, 'doys', cs, lambda c: _line('doys', c), lambda c: _show_list(obj(c).doys_int),
                  canon=_canon, key=key)
    compare_batch(ctx, 'months', cs, lambda c: _line('months', c), lambda c: _show_list(obj(c).months_int),
                  canon=_canon, key=key)
    compare_batch(ctx, 'mph', cs, lambda c: _line('mph', c),
                  lambda c: 'ok ' + ' '.join('%d-%d-%d' % t for t in obj(c).months_per_hour),
                  canon=_canon, key=key)
    # hoys are the moys / 60.0 (floats compared exactly against the real moys)
    for c in cs[:60]:
        try:
            a = obj(c)
        except Exception:
            continue
        ctx.compared += 1
        if list(a.hoys) != [m / 60.0 for m in a.moys]:
            ctx.disagree('hoys', {'case': list(c)}, 'moys / 60.0', 'different')

    # membership probes: members, neighbours, off-grid, far away, past the year end
    pcases = []
    for c in cs:
        n = 1440 * _days_in_year(bool(c[7]))
        probes = set()
        try:
            sm, sd, sh = c[0] or 1, c[1] or 1, c[2] or 0
            base = (_doy(bool(c[7]), sm, sd) - 1) * 1440 + sh * 60
        except Exception:
            base = rng.randrange(n)
        for k in (-61, -60, -1, 0, 1, 5, 30, 59, 60, 61, 1380, 1410, 1439, 1440):
            probes.add((base + k) % n)
        for _ in range(10):
            probes.add(rng.randrange(n))
        for k in (0, 1, 59, 60, n - 60, n - 30, n - 1, 23 * 60 + 30):
            probes.add(k)
        pcases.append(tuple(c) + tuple(sorted(probes)))

    def impl_included(pc):
        a = obj(pc[:8])
        leap = bool(pc[7])
        return 'ok ' + ''.join(_b(a.is_time_included(DateTime.from_moy(m, leap))) for m in pc[8:])

    compare_batch(ctx, 'included', pcases,
                  lambda pc: _line('included', pc[:8]) + ' ' + ' '.join(str(m) for m in pc[8:]),
                  impl_included, key=lambda pc: tuple(pc))
    mods = list(range(0, 1440, 15)) + [1, 59, 61, 1381, 1399, 1439, 23 * 60 + 1] + [rng.randrange(1440) for _ in range(8)]
    pc2 = [tuple(c) + tuple(mods) for c in cs[:ctx.n(300, 600)]]
    compare_batch(ctx, 'possible', pc2,
                  lambda pc: _line('possible', pc[:8]) + ' ' + ' '.join(str(m) for m in pc[8:]),
                  lambda pc: 'ok ' + ''.join(_b(obj(pc[:8]).is_possible_hour(m / 60.0)) for m in pc[8:]),
                  key=lambda pc: tuple(pc[:8]))

    # serial forms
    compare_batch(ctx, 'repr', cs, lambda c: _line('repr', c), lambda c: 'ok ' + repr(obj(c)), key=key)
    compare_batch(ctx, 'to_dict', cs, lambda c: _line('to_dict', c), lambda c: _show_dict(obj(c).to_dict()), key=key)
    compare_batch(ctx, 'duplicate', cs, lambda c: _line('duplicate', c),
                  lambda c: _show_ap(_quiet_call(obj(c).duplicate)), canon=_canon, key=key)
    strs = []
    for c in cs:
        sm, sd, sh, em, ed, eh, ts, leap = [1 if x is None else x for x in c]
        s = '%s/%s to %s/%s between %s and %s @%s%s' % (sm, sd, em, ed, sh, eh, ts, '*' if leap else '')
        r = rng.random()
        if r < 0.15:
            s = s.upper().replace(' ', '  ')
        elif r < 0.25:
            s = s.replace(' ', '')
        elif r < 0.5:
            s = _text_variant(s, rng.choice(TEXT_VARIANTS))
        strs.append(s)
    strs += ['1/1 to 12/31 between 0 and 23 @1', '1/1 to 12/31 between 0 and 23', '', '*', 'x',
             '1/1 to 2/30 between 0 and 23 @1', '/1 to 12/31 between 0 and 23 @1', '1/1 to /31 between 0 and 23 @1*',
             '1/1 to 12/31 between 0 and 23 @0', '1/1 to 12/31 between 0 and 23 @7', '0/1 to 12/31 between 0 and 23 @1',
             '1/1 to 12/31 between 0 and  @1', '1/1 to 12/31 between 0 and 23 @', '1/1 to 13/31 between 0 and 23 @1',
             '1/1 to 12/31 between 0 and 23 @1 *', '1/1 to 12/31 between 0 and 23 @1* ',
             '6/21 to 3/20 between 22 and 5 @4*', '1/1 to 12/31 between -1 and 23 @1']
    compare_batch(ctx, 'from_string', strs, lambda s: 'from_string ' + s,
                  lambda s: _show_ap(_quiet_call(AnalysisPeriod.from_string, s)), canon=_canon)
    dcases = []
    for c in cs:
        keys = ['st_month', 'st_day', 'st_hour', 'end_month', 'end_day', 'end_hour', 'timestep', 'is_leap_year']
        vals = list(c[:7]) + [1 if c[7] else 0]
        kv = list(zip(keys, vals))
        rng.shuffle(kv)
        if rng.random() < 0.35:
            kv = [p for p in kv if rng.random() < 0.7]
        dcases.append(tuple(kv))

    def impl_from_dict(kv):
        d = {k: (None if v is None else (bool(v) if k == 'is_leap_year' else v)) for k, v in kv}
        return _show_ap(_quiet_call(AnalysisPeriod.from_dict, d))

    compare_batch(ctx, 'from_dict', dcases,
                  lambda kv: ('from_dict ' + ' '.join('%s=%s' % (k, _tok(v)) for k, v in kv)).rstrip(),
                  impl_from_dict, canon=_canon, key=lambda kv: tuple(kv))

    # round 4: the caller's dictionary (None values kept, insertion order kept) and what from_dict
    # leaves in it (model: AP.fromDictV / AP.fillNone); read twice through the SAME object
    def impl_from_dictv(kv):
        d = {}
        for k, v in kv:
            d[k] = None if v is None else (bool(v) if k == 'is_leap_year' else v)
        try:
            first = _show_ap(_quiet_call(AnalysisPeriod.from_dict, d))
        except Exception as e:
            first = 'err:' + err_name(e)
        try:
            second = _show_ap(_quiet_call(AnalysisPeriod.from_dict, d))
        except Exception as e:
            second = 'err:' + err_name(e)
        if second != first:
            first = '%s <> second read %s' % (first, second)
        return first + ' ; ' + ' '.join('%s=%s' % (k, _tok(v)) for k, v in d.items())

    compare_batch(ctx, 'from_dictv', dcases,
                  lambda kv: ('from_dictv ' + ' '.join('%s=%s' % (k, _tok(v)) for k, v in kv)).rstrip(),
                  impl_from_dictv, canon=_canon, key=lambda kv: tuple(kv))

    # round 4: text for the six date/hour numbers (model: AP.mkText?); every refusal is one class here
    ints = [c for c in cs if all(isinstance(x, int) and not isinstance(x, bool) for x in c[:7])]
    noerr = lambda t: re.sub(r'err:[\w:-]+', 'err', t.rstrip())  # noqa: E731

    def impl_text(c):
        try:
            return _show_ap(_quiet_call(AnalysisPeriod, *([str(x) for x in c[:6]] + [c[6], bool(c[7])])))
        except Exception as e:
            return 'err:' + err_name(e)

    compare_batch(ctx, 'mk_text', ints, lambda c: _line('mk_text', c), impl_text, canon=noerr, key=key)
    for c in ints:
        if 0 in c[:2] or 0 in c[3:5]:
            ctx.count('class:text-zero-month-or-day')

    def impl_sparse(c):
        a = obj(c)
        d = _dict_variant(a.to_dict(), 'sparse')
        order = [k for k in DICT_KEYS if k in d]
        return _show_ap(_quiet_call(AnalysisPeriod.from_dict, dict(d))) + ' ; ' + \
            ' '.join('%s=%d' % (k, int(d[k])) for k in order)

    compare_batch(ctx, 'sparse', cs, lambda c: _line('sparse', c), impl_sparse, canon=_canon, key=key)


def _quiet_call(f, *a):
    with _quiet():
        return f(*a)


def _show_dict(d):
    order = ['st_month', 'st_day', 'st_hour', 'end_month', 'end_day', 'end_hour', 'timestep', 'is_leap_year']
    if d.get('type') != 'AnalysisPeriod':
        return 'ok type=%r' % (d.get('type'),)
    return 'ok ' + ' '.join('%s=%d' % (k, int(d[k])) for k in order if k in d)


# ---------------------------------------------------------------------------------------------
# property oracle: the statement of C04 evaluated on the real class, independent of the model


def _expected(sm, sd, sh, em, ed, eh, ts, leap):
    """Brute-force enumeration from the statement: grid steps from the start moment to the end of the
    end hour (cyclically when the start is after the end) whose time of day is in the hour window."""
    n = 1440 * _days_in_year(leap)
    step = 60 // ts
    s = (_doy(leap, sm, sd) - 1) * 1440 + sh * 60
    e = (_doy(leap, em, ed) - 1) * 1440 + eh * 60

    def in_window(mod):
        if sh <= eh:
            return sh * 60 <= mod <= eh * 60 or (sh == 0 and eh == 23)
        return mod >= sh * 60 or mod <= eh * 60

    if s <= e:
        spans = [(s, e + 59)]
    else:
        spans = [(s, n - 1), (0, e + 59)]
    out = []
    for a, b in spans:
        first = -(-a // step) * step
        out.extend(m for m in range(first, b + 1, step) if in_window(m % 1440))
    return out


def _dedup_adjacent(xs):
    out = []
    for x in xs:
        if not out or out[-1] != x:
            out.append(x)
    return out


def _normalise(args):
    """The period the constructor is documented to build: defaults for missing (None/0) arguments,
    end day clipped to the month length.  None when the arguments are invalid (must be rejected)."""
    sm, sd, sh, em, ed, eh, ts, leap = args
    leap = bool(leap)
    sm, sd, sh = sm or 1, sd or 1, sh or 0
    em, ed = em or 12, ed or 31
    eh = 23 if eh is None else eh
    ts = ts or 1
    if ts not in VALID_TS or not (1 <= sm <= 12 and 1 <= em <= 12 and 0 <= sh <= 23 and 0 <= eh <= 23):
        return None
    if not (1 <= sd <= _mlen(leap, sm)) or ed < 1:
        return None
    ed = min(ed, _mlen(leap, em))
    return sm, sd, sh, em, ed, eh, ts, leap


def _check_basic(op, inp):
    from ladybug.analysisperiod import AnalysisPeriod
    from ladybug.dt import DateTime
    args = tuple(inp['args'])
    norm = _normalise(args)
    base = {}
    if op == 'reject':
        if norm is not None:
            return None
        try:
            a = _mk(args)
        except (ValueError, IndexError):
            return None
        except Exception as e:
            return {'required': 'ValueError', 'observed': repr(e), 'sig': {'what': 'reject-class'}}
        return {'required': 'invalid arguments rejected', 'observed': repr(a), 'sig': {'what': 'reject'}}
    if norm is None:
        return None
    sm, sd, sh, em, ed, eh, ts, leap = norm
    base = {'reversed': (sm, sd, sh) > (em, ed, eh), 'overnight': sh > eh, 'sub_hourly': ts > 1, 'leap': leap,
            'whole_day': (sh, eh) == (0, 23)}

    def bad(what, required, observed):
        return {'required': required, 'observed': observed, 'sig': dict(base, what=what)}

    def brief(xs, ys):
        xs, ys = list(xs), list(ys)
        i = next((i for i, (x, y) in enumerate(zip(xs, ys)) if x != y), min(len(xs), len(ys)))
        return 'len %d, from index %d: %s' % (len(xs), i, xs[max(0, i - 2):i + 4])

    if op == 'period':
        exp = _expected(*norm)
        fresh_len = len(_mk(args))
        if fresh_len != len(exp):
            return bad('len_fresh', len(exp), fresh_len)
        a = _mk(args)
        got = (a.st_month, a.st_day, a.st_hour, a.end_month, a.end_day, a.end_hour, a.timestep, a.is_leap_year)
        if got != norm:
            return bad('fields', norm, got)
        if a.is_reversed != base['reversed'] or a.is_overnight != base['overnight']:
            return bad('flags', (base['reversed'], base['overnight']), (a.is_reversed, a.is_overnight))
        try:
            seqs = dict((nm, _seq(getattr(a, nm))) for nm in ('moys', 'hoys', 'hoys_int', 'datetimes', 'doys_int',
                                                             'months_int', 'months_per_hour'))
        except _Observed as e:
            return bad('not_a_sequence', 'every listing is a sequence (len(), repeatable iteration)', str(e))
        moys = seqs['moys']
        if moys != exp:
            return bad('moys', brief(exp, moys), brief(moys, exp))
        if len(a) != len(exp):
            return bad('len', len(exp), len(a))
        y = 2016 if leap else 2017
        jan1 = datetime(y, 1, 1)
        dts = a.datetimes
        if len(dts) != len(exp):
            return bad('datetimes', len(exp), len(dts))
        idx = range(len(exp)) if len(exp) <= 4000 else \
            sorted(set(list(range(50)) + list(range(len(exp) - 50, len(exp))) + list(range(0, len(exp), 97))))
        for i in idx:
            r = jan1 + timedelta(minutes=exp[i])
            d = dts[i]
            if (d.month, d.day, d.hour, d.minute, d.leap_year) != (r.month, r.day, r.hour, r.minute, leap) \
                    or d.moy != exp[i]:
                return bad('datetimes', str(r), str(d))
        if seqs['hoys'] != [m / 60.0 for m in exp] or any(type(h) is not float for h in seqs['hoys'][:50]):
            return bad('hoys', 'moys/60', 'different')
        if seqs['hoys_int'] != [m // 60 for m in exp] or any(type(h) is not int for h in seqs['hoys_int'][:50]):
            return bad('hoys_int', 'moys//60', 'different')
        # membership test agrees with the enumeration
        members = set(exp)
        n = 1440 * _days_in_year(leap)
        probes = set(inp.get('probes', []))
        for m in exp[:3] + exp[-3:] + exp[len(exp) // 2:len(exp) // 2 + 2]:
            probes.update(((m + k) % n) for k in (-60, -1, 0, 1, 60 // ts, 60, 1440))
        probes.update((0, n - 1, n - 60 // ts))
        if len(exp) <= 700:
            # small period: every step, and every grid point (finest grid that matters) of the first,
            # the last and the year's last day
            probes.update(exp)
            g = 60 // ts
            for day0 in (exp[0] // 1440, exp[-1] // 1440, n // 1440 - 1, 0):
                probes.update(range(day0 * 1440, day0 * 1440 + 1440, g))
                probes.update(range(day0 * 1440 + 1, day0 * 1440 + 1440, 7 * g + 1))
        for m in sorted(probes):
            inc = a.is_time_included(_probe_datetime(m, leap))
            if inc != (m in members):
                return bad('included', '%d -> %s' % (m, m in members), '%d -> %s' % (m, inc))
        for hour in (0.0, 1e-12, sh - 1e-9, float(sh), sh + 1e-9, eh - 1e-9, float(eh), eh + 1e-9, 22.999999999,
                     23.0, 23.000000001, 23.5, 23.999999999, 12.0, 0.25 / ts, 0, 23, sh, eh, 12):
            if hour < 0:
                continue
            pos = bool(a.is_possible_hour(hour))
            if pos != bool(_window(norm, hour * 60.0)):
                return bad('possible_hour', '%r -> %s' % (hour, not pos), '%r -> %s' % (hour, pos))
        # listings
        doys = _dedup_adjacent(m // 1440 + 1 for m in exp)
        if seqs['doys_int'] != doys or list(a.doys_int) != doys:
            return bad('doys_int', brief(doys, a.doys_int), brief(a.doys_int, doys))
        months = _dedup_adjacent((jan1 + timedelta(minutes=m)).month for m in exp[::max(1, ts)] + exp[-1:])
        if list(a.months_int) != months:
            return bad('months_int', months, list(a.months_int))
        mph = list(a.months_per_hour)
        want = set()
        for m in exp:
            r = jan1 + timedelta(minutes=m)
            want.add((r.month, r.hour, r.minute))
        missing = sorted(want - set(mph))
        if missing:
            return bad('months_per_hour_missing', 'contains %s' % (missing[:4],), 'len %d: %s' % (len(mph), mph[:6]))
        tods = set((t[1], t[2]) for t in want)
        # every listed entry is a (month of the period) x (time of day of the window, on the grid)
        all_tods = set((m // 60, m % 60) for m in range(0, 1440, 60 // ts)
                       if ((sh * 60 <= m <= eh * 60 or (sh, eh) == (0, 23)) if sh <= eh
                           else (m >= sh * 60 or m <= eh * 60)))
        spurious = [t for t in mph if t[0] not in set(months) or (t[1], t[2]) not in all_tods]
        if spurious:
            return bad('months_per_hour_spurious', 'only window steps of the period months', spurious[:4])
        if len(set(months)) == len(months) and len(set(mph)) != len(mph):
            return bad('months_per_hour_duplicates', 'each entry once', len(mph) - len(set(mph)))
        del tods
        return None
    if op == 'forms':
        a = _mk(args)
        try:
            b = _quiet_call(AnalysisPeriod.from_string, str(a))
            ok, obs = (b == a and b.is_leap_year == a.is_leap_year and b.timestep == a.timestep), str(b)
        except Exception as e:
            ok, obs = False, 'raises %s' % type(e).__name__
        if not ok:
            return bad('text_roundtrip', str(a), obs)
        try:
            b = _quiet_call(AnalysisPeriod.from_dict, json.loads(json.dumps(a.to_dict())))
            ok, obs = (b == a and b.is_leap_year == a.is_leap_year and b.timestep == a.timestep), str(b)
        except Exception as e:
            ok, obs = False, 'raises %s' % type(e).__name__
        if not ok:
            return bad('dict_roundtrip', str(a), obs)
        b = _quiet_call(a.duplicate)
        if b != a or hash(b) != hash(a):
            return bad('duplicate', str(a), str(b))
        return None
    raise ValueError('unknown op ' + op)



# ---------------------------------------------------------------------------------------------
# round 3: operation histories on one object / several objects in one process
#
# A history is {"args": [8 constructor arguments of object 0], "ops": [world op, ...]}; world ops:
#   ["on", i, read]                       read in HIST_READS
#   ["on", i, "included", moy] / ["on", i, "possible", minute_of_day]
#   ["on", i, "set_attr", name, value]    refused: AttributeError (read-only property / __slots__)
#   ["on", i, "included_bad", kind]       refused: is_time_included(None | 5)
#   ["on", i, "possible_bad", kind]       refused: is_possible_hour('x' | None)
#   ["on", i, "mutate_result", read]      the caller edits the returned list / dict in place
#   ["new", a, b, c, d, e, f, g, leap]    AnalysisPeriod(...) (accepted -> appended, else refused)
#   ["dup", i] ["via_string", i] ["via_dict", i] ["via_start_end", i]     copies, appended
#   ["eq", i, j]
# The model side is `AP.World.outs` (Model/APObj.lean, driver op `hist`); the oracle side recomputes
# every answer by brute force from the public state the user established (the constructor arguments).

HIST_READS = ['moys', 'hoys', 'hoys_int', 'datetimes', 'len', 'doys', 'months', 'mph', 'repr', 'to_dict',
              'fields', 'duplicate']
SET_ATTRS = ['st_month', 'st_day', 'st_hour', 'end_month', 'end_day', 'end_hour', 'timestep', 'is_leap_year',
             'st_time', 'end_time', 'moys', 'datetimes', 'hoys', 'is_reversed', 'is_overnight', 'minute_intervals',
             'is_annual', 'doys_int', 'months_int', 'cache', 'leap_year']
MUTABLE_READS = ['moys', 'hoys', 'hoys_int', 'datetimes', 'doys_int', 'months_int', 'months_per_hour', 'to_dict']


class _Observed(Exception):
    pass


def _seq(v):
    """The list of a reported sequence.  What a read reports must be a real sequence (kind f, output
    side): `len()` works and two passes give the same items -- a generator / `map` / `zip` object that
    is consumed by the first pass is refused here (`_Observed`)."""
    try:
        n = len(v)
    except TypeError:
        raise _Observed('%s has no len()' % type(v).__name__)
    a = list(v)
    b = list(v)
    if len(a) != n or len(b) != n:
        raise _Observed('%s: len() %d, first pass %d items, second pass %d' % (type(v).__name__, n, len(a), len(b)))
    return a


def _text_variant(ap_text, variant):
    """The text form of a period written the other ways `from_string` is documented / coded to accept
    (it lower-cases and drops blanks): upper case, blanks doubled / dropped / around the text,
    two-digit zero-padded fields."""
    if variant == 'upper':
        return ap_text.upper()
    if variant == 'spaces':
        return '  ' + ap_text.replace(' ', '   ') + '  '
    if variant == 'nospace':
        return ap_text.replace(' ', '')
    if variant == 'padded':
        return re.sub(r'\d+', lambda m: m.group(0).zfill(2), ap_text)
    if variant == 'trail':
        return ap_text + ' '
    return ap_text


TEXT_VARIANTS = ['repr', 'upper', 'spaces', 'nospace', 'padded', 'trail', 'decoy']
DICT_VARIANTS = ['json', 'sparse', 'twice', 'ordered', 'text', 'decoy']
DUP_VARIANTS = ['duplicate', 'copy', 'deepcopy']
START_END_VARIANTS = ['int', 'str_ts', 'float_ts']
DICT_KEYS = ['st_month', 'st_day', 'st_hour', 'end_month', 'end_day', 'end_hour', 'timestep', 'is_leap_year']
DICT_DEFAULTS = {'st_month': 1, 'st_day': 1, 'st_hour': 0, 'end_month': 12, 'end_day': 31, 'end_hour': 23,
                 'timestep': 1, 'is_leap_year': False}


def _from_string_variant(cls, text, variant):
    """`from_string` of the text form written as `variant`; for `decoy` the same text of the OTHER year
    kind is parsed first (a parser that remembers texts too coarsely shows here)."""
    if variant == 'decoy':
        other = text[:-1] if text.endswith('*') else text + '*'
        try:
            cls.from_string(other)
        except Exception:
            pass                      # e.g. 29 Feb does not exist in the other year kind
    return cls.from_string(_text_variant(text, variant))


class _Dict(dict):
    """A user's dict subclass (kind i: container shapes)."""


def _dict_variant(d, variant, rng_key=0):
    """The dictionary form `d` (a plain to_dict() result) in another legal shape."""
    import collections
    d = json.loads(json.dumps(d))
    if variant == 'sparse':          # entries equal to the documented default left out
        return dict((k, v) for k, v in d.items() if k not in DICT_DEFAULTS or DICT_DEFAULTS[k] != v)
    if variant == 'ordered':         # other insertion order, other mapping classes
        keys = sorted(d, key=lambda k: ((len(k) * 7 + ord(k[0]) * 13 + ord(k[-1]) * (rng_key + 3)) % 11, k))
        if rng_key % 2:
            return collections.OrderedDict((k, d[k]) for k in keys)
        return _Dict((k, d[k]) for k in reversed(keys))
    if variant == 'text':            # numbers given as text (the constructor converts with int())
        return dict((k, (str(v) if k in DICT_KEYS[:6] else v)) for k, v in d.items())
    return d


def _from_dict_variant(cls, d, variant, rng_key=0):
    """`from_dict` of the dictionary form in shape `variant`; for `twice` the SAME dict object is read
    twice and must still hold the user's entries, for `decoy` another full dictionary is read first and
    the sparse form afterwards (a callee that keeps what it read shows here)."""
    dd = _dict_variant(d, 'sparse' if variant == 'decoy' else variant, rng_key)
    if variant == 'decoy':
        leap = not bool(d.get('is_leap_year'))
        cls.from_dict({'st_month': 7, 'st_day': 7, 'st_hour': 7, 'end_month': 8, 'end_day': 8, 'end_hour': 8,
                       'timestep': 3, 'is_leap_year': leap, 'type': 'AnalysisPeriod'})
    if variant == 'twice':
        before = dict(dd)
        cls.from_dict(dd)
        if any(k not in dd or dd[k] != before[k] for k in before):
            raise _Observed('from_dict changed the entries of the dictionary it was given')
    return cls.from_dict(dd)


def _fields(ap):
    return (ap.st_month, ap.st_day, ap.st_hour, ap.end_month, ap.end_day, ap.end_hour, ap.timestep,
            bool(ap.is_leap_year), bool(ap.is_reversed), bool(ap.is_overnight), bool(ap.is_annual),
            ap.st_time.moy, ap.end_time.moy, _minutes(ap.minute_intervals))


def _made(f, *a):
    try:
        with _quiet():
            ap = f(*a)
    except _Observed as e:
        return ('err', 'observed: %s' % e), None
    except Exception as e:
        return ('err', err_name(e)), None
    try:
        return ('ok', 'made', _fields(ap)), ap
    except Exception as e:
        return ('err', 'fields:' + err_name(e)), None


def _probe_datetime(moy, leap):
    """A DateTime for a minute of the year, built alternately through `from_moy` and through the
    plain constructor from stdlib date arithmetic (two routes: kind g)."""
    from ladybug.dt import DateTime
    leap = bool(leap)
    if (moy // 7) % 2:
        return DateTime.from_moy(moy, leap)
    r = datetime(2016 if leap else 2017, 1, 1) + timedelta(minutes=moy)
    return DateTime(r.month, r.day, r.hour, r.minute, leap)


_KEPT = {}          # id(world list) -> [(description, live result object, snapshot)]


def _keep(objs, what, live):
    """Remember a mutable container a read returned, with a snapshot of its content."""
    if isinstance(live, (list, dict)) and len(live) <= 4000:
        kept = _KEPT.setdefault(id(objs), [])
        kept.append((what, live, dict(live) if isinstance(live, dict) else list(live)))
        del kept[:-8]
    return live


def _kept_changed(objs):
    """An answer given earlier (the very object the caller still holds) differs now."""
    for what, live, snap in _KEPT.get(id(objs), ()):
        if (dict(live) if isinstance(live, dict) else list(live)) != snap:
            return what
    return None


def _exec_step(objs, op):
    """One world op on the real code -> ('ok', kind, value) | ('err', class).  Never raises.
    Containers returned by earlier reads of the same history are kept by the caller: when a later
    operation changes one of them the step answers ('err', 'observed: ...')."""
    if len(_KEPT) > 64:
        _KEPT.clear()
    res = _exec_step1(objs, op)
    if not (op[0] == 'on' and op[2] == 'mutate_result'):
        changed = _kept_changed(objs)
        if changed:
            _KEPT.pop(id(objs), None)
            return ('err', 'observed: the value returned earlier by %s changed after this operation' % changed)
    return res


def _exec_step1(objs, op):
    from ladybug.analysisperiod import AnalysisPeriod
    from ladybug.dt import DateTime
    try:
        kind = op[0]
        if kind == 'on':
            ap = objs[op[1]]
            name = op[2]
            if name == 'moys':
                return ('ok', 'nats', _seq(_keep(objs, 'moys of object %d' % op[1], ap.moys)))
            if name == 'hoys':
                return ('ok', 'floats', _seq(_keep(objs, 'hoys of object %d' % op[1], ap.hoys)))
            if name == 'hoys_int':
                return ('ok', 'nats', _seq(_keep(objs, 'hoys_int of object %d' % op[1], ap.hoys_int)))
            if name == 'datetimes':
                return ('ok', 'dts', [(d.month, d.day, d.hour, d.minute, bool(d.leap_year), d.moy)
                                      for d in _seq(_keep(objs, 'datetimes of object %d' % op[1], ap.datetimes))])
            if name == 'len':
                return ('ok', 'nat', len(ap))
            if name == 'doys':
                return ('ok', 'nats', _seq(_keep(objs, 'doys_int of object %d' % op[1], ap.doys_int)))
            if name == 'months':
                return ('ok', 'nats', _seq(_keep(objs, 'months_int of object %d' % op[1], ap.months_int)))
            if name == 'mph':
                return ('ok', 'triples', [tuple(t) for t in _seq(_keep(objs, 'months_per_hour of object %d' % op[1], ap.months_per_hour))])
            if name == 'included':
                return ('ok', 'bool', bool(ap.is_time_included(_probe_datetime(op[3], ap.is_leap_year))))
            if name == 'possible':
                return ('ok', 'bool', bool(ap.is_possible_hour(op[3] / 60.0)))
            if name == 'repr':
                r = repr(ap)
                if str(ap) != r or ap.ToString() != r:
                    return ('ok', 'str', '%s <> str %s' % (r, str(ap)))
                return ('ok', 'str', r)
            if name == 'to_dict':
                return ('ok', 'dict', dict(_keep(objs, 'to_dict of object %d' % op[1], ap.to_dict())))
            if name == 'fields':
                return ('ok', 'fields', _fields(ap))
            if name == 'duplicate':
                return _made(ap.duplicate)[0]
            if name == 'eq_other':
                # comparison with something that is not a period: not equal, and no exception
                other = {'none': None, 'str': repr(ap), 'tuple': _fields(ap)[:8], 'int': 5}[op[3]]
                e = (ap == other)
                if e or not (ap != other):
                    return ('ok', 'str', 'equal to %r' % (other,))
                return ('ok', 'bool', False)
            if name == 'start_end_bad':
                # start and end of different year kinds: refused (AssertionError)
                o = _probe_datetime(ap.end_time.moy if ap.end_time.moy < 80000 else 1440, not ap.is_leap_year)
                AnalysisPeriod.from_start_end_datetime(ap.st_time, o, ap.timestep)
                return ('ok', 'unit', None)
            if name == 'set_attr':
                setattr(ap, op[3], op[4])
                return ('ok', 'set', op[3])
            if name == 'included_bad':
                ap.is_time_included(None if op[3] == 'none' else 5)
                return ('ok', 'unit', None)
            if name == 'possible_bad':
                ap.is_possible_hour('x' if op[3] == 'str' else None)
                return ('ok', 'unit', None)
            if name == 'mutate_result':
                what = op[3]
                v = ap.to_dict() if what == 'to_dict' else getattr(ap, what)
                if isinstance(v, list):
                    v.reverse()
                    v.append(-7)
                    del v[0]
                elif isinstance(v, dict):
                    v['st_month'] = 99
                    v.pop('timestep', None)
                return ('ok', 'unit', None)
            return ('err', 'harness-unknown-read')
        variant = op[2] if len(op) > 2 and kind != 'eq' and kind != 'new' else None
        if kind == 'new':
            res, ap = _made(AnalysisPeriod, *op[1:9])
        elif kind == 'dup':
            import copy
            o = objs[op[1]]
            res, ap = _made({'copy': lambda: copy.copy(o), 'deepcopy': lambda: copy.deepcopy(o)}.get(variant, o.duplicate))
        elif kind == 'via_string':
            res, ap = _made(_from_string_variant, AnalysisPeriod, repr(objs[op[1]]), variant)
        elif kind == 'via_dict':
            res, ap = _made(_from_dict_variant, AnalysisPeriod, objs[op[1]].to_dict(), variant or 'json', op[1] + len(objs))
        elif kind == 'via_start_end':
            o = objs[op[1]]
            ts = {'str_ts': str, 'float_ts': float}.get(variant, int)(o.timestep)
            res, ap = _made(AnalysisPeriod.from_start_end_datetime, o.st_time, o.end_time, ts)
        elif kind == 'eq':
            a, b = objs[op[1]], objs[op[2]]
            e = (a == b)
            if (a != b) == e or (e and hash(a) != hash(b)):
                return ('ok', 'str', 'inconsistent')
            return ('ok', 'bool', bool(e))
        else:
            return ('err', 'harness-unknown-op')
        if ap is not None:
            objs.append(ap)
        return res
    except _Observed as e:
        return ('err', 'observed: %s' % e)
    except Exception as e:
        return ('err', err_name(e))


def _fmt_step(res):
    """Result of `_exec_step` in the model driver's output format."""
    if res[0] == 'err':
        return 'err:' + res[1]
    kind, v = res[1], res[2]
    if kind == 'nats':
        return _show_list(v).rstrip()
    if kind == 'floats':
        ms = [int(round(h * 60)) for h in v]
        if any(m / 60.0 != h for m, h in zip(ms, v)):
            return 'ok hoys-not-moy/60.0'
        return _show_list(ms).rstrip()
    if kind == 'dts':
        return ('ok ' + ' '.join('%d-%d-%d-%d-%s' % (d[0], d[1], d[2], d[3], _b(d[4])) for d in v)).rstrip()
    if kind == 'nat':
        return 'ok %d' % v
    if kind == 'bool':
        return 'ok ' + _b(v)
    if kind == 'triples':
        return ('ok ' + ' '.join('%d-%d-%d' % t for t in v)).rstrip()
    if kind == 'str':
        return 'ok ' + v
    if kind == 'dict':
        return _show_dict(v)
    if kind in ('fields', 'made'):
        return 'ok %d %d %d %d %d %d %d %s %s %s %s %d %d %d' % tuple(
            _b(x) if isinstance(x, bool) else x for x in v)
    if kind == 'set':
        return 'ok set'
    return 'ok'


MODEL_SKIP = ('eq_other', 'start_end_bad')      # executed on the real class, judged by the oracle only


def _model_has(op):
    return not (op[0] == 'on' and op[2] in MODEL_SKIP)


def _hist_line(h):
    parts = ['hist ' + ' '.join(_tok(x) for x in h['args'][:7]) + ' ' + _b(h['args'][7])]
    for op in h['ops']:
        if not _model_has(op):
            continue
        if op[0] == 'on':
            name = op[2]
            if name in ('included', 'possible'):
                parts.append('on %d %s %d' % (op[1], name, op[3]))
            else:
                parts.append('on %d %s' % (op[1], name))
        elif op[0] == 'new':
            parts.append('new ' + ' '.join(_tok(x) for x in op[1:8]) + ' ' + _b(op[8]))
        elif op[0] == 'eq':
            parts.append('eq %d %d' % (op[1], op[2]))
        else:
            parts.append('%s %d' % (op[0], op[1]))
    return ' ; '.join(parts)


def _run_history_impl(h):
    """Execute a history on the real code; formatted outputs joined like the driver's answer."""
    res0, ap = _made(_ap_class(), *h['args'])
    if ap is None:
        return _fmt_step(res0)
    objs = [ap]
    outs = [(op, _exec_step(objs, op)) for op in h['ops']]
    return ' | '.join(_fmt_step(res) for op, res in outs if _model_has(op))


def _ap_class():
    from ladybug.analysisperiod import AnalysisPeriod
    return AnalysisPeriod


# -- generator ------------------------------------------------------------------------------------

def _small_valid(ctx, rng, max_steps=2500):
    for _ in range(200):
        c, shape = _gen_valid(ctx, rng)
        if shape in ('annual', 'rev-long', 'months', 'same-day'):
            continue
        if 0 < _steps_estimate(c) <= max_steps:
            return c, shape
    return (12, 30, 22, 1, 2, 5, 2, False), 'fallback'


def _probe_moys(rng, c):
    leap = bool(c[7])
    n = 1440 * _days_in_year(leap)
    try:
        base = (_doy(leap, c[0] or 1, c[1] or 1) - 1) * 1440 + (c[2] or 0) * 60
        end = (_doy(leap, c[3] or 12, min(c[4] or 31, _mlen(leap, c[3] or 12))) - 1) * 1440 + \
            (23 if c[5] is None else c[5]) * 60
    except Exception:
        base, end = 0, n - 60
    step = 60 // (c[6] or 1)
    return [(base + k) % n for k in (0, step, -step, 60, 1, 1440)] + \
        [(end + k) % n for k in (0, step, 60 - step, 60, 59)] + [0, n - step, n - 60, rng.randrange(n)]


def _random_read(rng, c, i):
    r = rng.random()
    if r < 0.16:
        return ['on', i, 'included', rng.choice(_probe_moys(rng, c))]
    if r < 0.21:
        return ['on', i, 'possible', rng.choice([0, 30, 60, 23 * 60, 23 * 60 + 30, 1439, 12 * 60,
                                                 ((c[2] or 0) * 60) % 1440, ((c[5] or 0) * 60 + 1) % 1440,
                                                 rng.randrange(1440)])]
    return ['on', i, rng.choice(HIST_READS + ['moys', 'len', 'datetimes', 'hoys_int', 'doys', 'mph'])]


def _random_refused(rng, i):
    r = rng.random()
    if r < 0.5:
        if rng.random() < 0.65:      # the eight constructor fields with values that would be valid for them
            name = rng.choice(SET_ATTRS[:8])
            value = {'timestep': rng.choice(VALID_TS), 'is_leap_year': rng.random() < 0.5,
                     'st_hour': rng.randrange(24), 'end_hour': rng.randrange(24),
                     'st_month': rng.randrange(1, 13), 'end_month': rng.randrange(1, 13)}.get(name, rng.randrange(1, 29))
            return ['on', i, 'set_attr', name, value]
        return ['on', i, 'set_attr', rng.choice(SET_ATTRS), rng.choice([1, 2, 4, 0, 12, 23, True, False, None])]
    if r < 0.72:
        return ['on', i, 'included_bad', rng.choice(['none', 'int'])]
    if r < 0.8:
        return ['on', i, 'start_end_bad']
    if r < 0.86:
        return ['on', i, 'eq_other', rng.choice(['none', 'str', 'tuple', 'int'])]
    return ['on', i, 'possible_bad', rng.choice(['str', 'none'])]


def _flip_kind(rng, c):
    """Another period related to `c` but of another kind: other leap flag, other timestep, shifted window."""
    sm, sd, sh, em, ed, eh, ts, leap = c
    r = rng.random()
    if r < 0.4:
        leap2 = not leap
        if not leap2 and ((sm, sd) == (2, 29) or (em, ed) == (2, 29)):
            sd = 28 if (sm, sd) == (2, 29) else sd
            ed = 28 if (em, ed) == (2, 29) else ed
        return (sm, sd, sh, em, ed, eh, ts, leap2)
    if r < 0.7:
        return (sm, sd, sh, em, ed, eh, rng.choice([t for t in VALID_TS if t != ts]), leap)
    if r < 0.85:
        return (sm, sd, eh, em, ed, sh, ts, leap)
    return (em, ed, sh, sm, sd, eh, ts, leap)


def _gen_history(ctx, rng):
    c, shape = _small_valid(ctx, rng)
    if rng.random() < 0.08:            # defaults through None / 0 arguments (small: one day at the year start)
        c = (rng.choice([None, 0, 1]), rng.choice([None, 0, 1]), rng.choice([None, 0, 5]), 1,
             rng.choice([1, 2, 3]), rng.choice([None, 0, 7, 23]), rng.choice([None, 0, 1, 4]), c[7])
        shape = 'defaults'
    cs = [c]                           # constructor arguments of the objects that will exist
    ops = []
    first = rng.random()
    # rare first operations (what a fresh-object-one-read test never does)
    if first < 0.2:
        ops.append(['on', 0, 'included', rng.choice(_probe_moys(rng, c))])
    elif first < 0.3:
        ops.append(['on', 0, 'len'])
    elif first < 0.4:
        ops.append(_random_refused(rng, 0))
    elif first < 0.5:
        ops.append(['on', 0, 'mutate_result', rng.choice(MUTABLE_READS)])
    elif first < 0.6:
        ops.append(['on', 0, rng.choice(['doys', 'months', 'mph', 'hoys', 'datetimes', 'duplicate'])])
    n = rng.randrange(5, 13)
    for _ in range(n):
        i = rng.randrange(len(cs))
        r = rng.random()
        if r < 0.48:
            ops.append(_random_read(rng, cs[i], i))
        elif r < 0.62:
            ops.append(_random_refused(rng, i))
        elif r < 0.71:
            ops.append(['on', i, 'mutate_result', rng.choice(MUTABLE_READS)])
        elif r < 0.78 and len(cs) < 4:
            if rng.random() < 0.7:
                c2 = _flip_kind(rng, cs[i])
            else:
                c2, _ = _small_valid(ctx, rng, 1500)
            if _normalise(c2) is not None and _steps_estimate(c2) <= 3000:
                ops.append(['new'] + list(c2))
                cs.append(c2)
                if rng.random() < 0.7:     # read the newcomer at once: a memo keyed too coarsely shows here
                    ops.append(_random_read(rng, c2, len(cs) - 1))
        elif r < 0.83:
            bad, _ = _gen_malformed(rng)
            if _normalise(bad) is None:
                ops.append(['new'] + list(bad))
        elif r < 0.96 and len(cs) < 5:
            kind = rng.choice(['dup', 'via_string', 'via_string', 'via_dict', 'via_dict', 'via_start_end'])
            variants = {'dup': DUP_VARIANTS, 'via_string': TEXT_VARIANTS, 'via_dict': DICT_VARIANTS,
                        'via_start_end': START_END_VARIANTS}[kind]
            ops.append([kind, i, rng.choice(variants)])
            cs.append(_normalise(cs[i]))
            if rng.random() < 0.6:     # read the copy at once (objects built from text / sparse dictionaries)
                ops.append(_random_read(rng, cs[-1], len(cs) - 1))
        else:
            ops.append(['eq', i, rng.randrange(len(cs))])
    # final sweep: every observable of every object, in random order
    sweep = []
    for i in range(len(cs)):
        for name in ('moys', 'len', 'datetimes', 'hoys', 'hoys_int', 'doys', 'months', 'mph', 'repr', 'to_dict',
                     'fields'):
            if rng.random() < (0.9 if i == 0 else 0.5):
                sweep.append(['on', i, name])
        sweep.append(['on', i, 'included', rng.choice(_probe_moys(rng, cs[i]))])
    rng.shuffle(sweep)
    return {'args': list(c), 'ops': ops + sweep}, shape


FIXED_HISTORIES = [
    # membership test first, then the enumeration, on a period through the year end
    {'args': [12, 30, 0, 1, 2, 23, 1, False],
     'ops': [['on', 0, 'included', 0], ['on', 0, 'moys'], ['on', 0, 'hoys_int'], ['on', 0, 'datetimes'],
             ['on', 0, 'len']]},
    # refused assignments and calls between reads; edits of returned values
    {'args': [12, 31, 20, 1, 1, 5, 4, True],
     'ops': [['on', 0, 'len'], ['on', 0, 'set_attr', 'timestep', 2], ['on', 0, 'moys'],
             ['on', 0, 'mutate_result', 'doys_int'], ['on', 0, 'doys'], ['on', 0, 'included_bad', 'none'],
             ['on', 0, 'possible_bad', 'str'], ['on', 0, 'set_attr', 'is_leap_year', False], ['on', 0, 'moys'],
             ['on', 0, 'len'], ['on', 0, 'fields'], ['on', 0, 'mutate_result', 'months_per_hour'],
             ['on', 0, 'mph'], ['on', 0, 'mutate_result', 'to_dict'], ['on', 0, 'to_dict']]},
    # leap first, then the same dates non-leap, then again leap, in one process
    {'args': [2, 27, 0, 3, 2, 23, 1, True],
     'ops': [['on', 0, 'doys'], ['on', 0, 'moys'], ['new', 2, 27, 0, 3, 2, 23, 1, False], ['on', 1, 'doys'],
             ['on', 1, 'moys'], ['on', 1, 'len'], ['new', 2, 29, 0, 3, 2, 23, 1, False], ['dup', 0],
             ['on', 2, 'moys'], ['on', 2, 'doys'], ['eq', 0, 2], ['eq', 0, 1], ['via_string', 1],
             ['on', 3, 'fields'], ['via_dict', 0], ['on', 4, 'datetimes'], ['via_start_end', 0],
             ['on', 5, 'len'], ['on', 5, 'moys']]},
    # round 4: every copy route in every shape, results kept by the caller, comparisons with non-periods
    {'args': [12, 31, 20, 1, 1, 5, 4, True],
     'ops': [['on', 0, 'to_dict'], ['via_dict', 0, 'twice'], ['via_dict', 0, 'decoy'], ['via_dict', 1, 'sparse'],
             ['on', 2, 'to_dict'], ['on', 0, 'to_dict'], ['via_dict', 0, 'text'], ['via_dict', 0, 'ordered'],
             ['on', 3, 'moys'], ['on', 4, 'mph'], ['on', 5, 'len'], ['on', 5, 'doys'], ['on', 1, 'months'],
             ['on', 0, 'eq_other', 'str'], ['on', 0, 'eq_other', 'none'], ['on', 0, 'start_end_bad'], ['on', 0, 'moys']]},
    {'args': [2, 28, 9, 3, 1, 18, 3, True],
     'ops': [['via_string', 0, 'decoy'], ['via_string', 0, 'padded'], ['via_string', 0, 'upper'],
             ['via_string', 1, 'spaces'], ['via_string', 2, 'nospace'], ['via_string', 0, 'trail'], ['on', 1, 'fields'],
             ['on', 2, 'moys'], ['on', 3, 'doys'], ['on', 4, 'hoys'], ['on', 5, 'len'], ['on', 6, 'mph'],
             ['dup', 0, 'copy'], ['dup', 1, 'deepcopy'], ['via_start_end', 0, 'str_ts'], ['via_start_end', 0, 'float_ts'],
             ['on', 7, 'hoys_int'], ['on', 8, 'datetimes'], ['on', 9, 'months'], ['on', 10, 'included', 84960],
             ['eq', 0, 8], ['eq', 3, 9]]},
    # same object asked twice, other timestep in between
    {'args': [6, 1, 22, 6, 3, 2, 3, False],
     'ops': [['on', 0, 'mph'], ['on', 0, 'mph'], ['new', 6, 1, 22, 6, 3, 2, 12, False], ['on', 1, 'mph'],
             ['on', 1, 'len'], ['on', 0, 'len'], ['on', 0, 'moys'], ['on', 1, 'moys'], ['on', 0, 'moys']]},
]


# -- oracle side ------------------------------------------------------------------------------------

_EXP = {}


def _exp(norm):
    e = _EXP.get(norm)
    if e is None:
        if len(_EXP) > 400:
            _EXP.clear()
        sm, sd, sh, em, ed, eh, ts, leap = norm
        lst = _expected(*norm)
        y = 2016 if leap else 2017
        jan1 = datetime(y, 1, 1)
        e = {'moys': lst, 'set': set(lst), 'jan1': jan1}
        e['doys'] = _dedup_adjacent(m // 1440 + 1 for m in lst)
        e['months'] = _dedup_adjacent((jan1 + timedelta(minutes=m)).month for m in lst)
        _EXP[norm] = e
    return e


def _window(norm, mod):
    sh, eh = norm[2], norm[5]
    if sh <= eh:
        return sh * 60 <= mod <= eh * 60 or (sh, eh) == (0, 23)
    return mod >= sh * 60 or mod <= eh * 60


def _exp_fields(norm):
    sm, sd, sh, em, ed, eh, ts, leap = norm
    return (sm, sd, sh, em, ed, eh, ts, leap, (sm, sd, sh) > (em, ed, eh), sh > eh,
            (sm, sd, sh, em, ed, eh) == (1, 1, 0, 12, 31, 23),
            (_doy(leap, sm, sd) - 1) * 1440 + sh * 60, (_doy(leap, em, ed) - 1) * 1440 + eh * 60, 60 // ts)


def _brief(xs, ys):
    xs, ys = list(xs), list(ys)
    i = next((i for i, (x, y) in enumerate(zip(xs, ys)) if x != y), min(len(xs), len(ys)))
    return 'len %d, from index %d: %s' % (len(xs), i, xs[max(0, i - 2):i + 4])


def _check_mph(norm, mph):
    e = _exp(norm)
    ts = norm[6]
    jan1 = e['jan1']
    want = set()
    for m in e['moys']:
        r = jan1 + timedelta(minutes=m)
        want.add((r.month, r.hour, r.minute))
    missing = sorted(want - set(mph))
    if missing:
        return ('months_per_hour_missing', 'contains %s' % (missing[:4],), 'len %d: %s' % (len(mph), mph[:6]))
    all_tods = set((m // 60, m % 60) for m in range(0, 1440, 60 // ts) if _window(norm, m))
    months = e['months']
    spurious = [t for t in mph if t[0] not in set(months) or (t[1], t[2]) not in all_tods]
    if spurious:
        return ('months_per_hour_spurious', 'only window steps of the period months', spurious[:4])
    if len(set(months)) == len(months) and len(set(mph)) != len(mph):
        return ('months_per_hour_duplicates', 'each entry once', len(mph) - len(set(mph)))
    return None


def _check_obs(norm, op, res):
    """One answer of an object whose established public state is `norm` -> None | (what, required, observed)."""
    name = op[2]
    e = _exp(norm)
    exp = e['moys']
    refused = name in ('set_attr', 'included_bad', 'possible_bad', 'start_end_bad')
    if refused or name == 'mutate_result':
        return None                       # what matters is that the later reads are unchanged
    if name == 'eq_other':
        if res[0] == 'ok' and res[1] == 'str':
            return ('equality', 'a period differs from %s' % op[3], res[2])
        return None
    if res[0] == 'err':
        return (name + '_raises', 'an answer', 'raises ' + res[1])
    v = res[2]
    if name == 'moys':
        if v != exp:
            return ('moys', _brief(exp, v), _brief(v, exp))
    elif name == 'hoys':
        if v != [m / 60.0 for m in exp]:
            return ('hoys', _brief([m / 60.0 for m in exp], v), _brief(v, [m / 60.0 for m in exp]))
    elif name == 'hoys_int':
        if v != [m // 60 for m in exp]:
            return ('hoys_int', _brief([m // 60 for m in exp], v), _brief(v, [m // 60 for m in exp]))
    elif name == 'datetimes':
        jan1, leap = e['jan1'], norm[7]
        want = []
        for m in exp:
            r = jan1 + timedelta(minutes=m)
            want.append((r.month, r.day, r.hour, r.minute, leap, m))
        if v != want:
            return ('datetimes', _brief(want, v), _brief(v, want))
    elif name == 'len':
        if v != len(exp):
            return ('len', len(exp), v)
    elif name == 'doys':
        if v != e['doys']:
            return ('doys_int', _brief(e['doys'], v), _brief(v, e['doys']))
    elif name == 'months':
        if v != e['months']:
            return ('months_int', e['months'], v)
    elif name == 'mph':
        return _check_mph(norm, v)
    elif name == 'included':
        if v != (op[3] in e['set']):
            return ('included', '%d -> %s' % (op[3], op[3] in e['set']), '%d -> %s' % (op[3], v))
    elif name == 'possible':
        if v != bool(_window(norm, op[3])):
            return ('possible_hour', '%d -> %s' % (op[3], bool(_window(norm, op[3]))), '%d -> %s' % (op[3], v))
    elif name == 'repr':
        want = '%d/%d to %d/%d between %d and %d @%d%s' % (norm[0], norm[1], norm[3], norm[4], norm[2], norm[5],
                                                            norm[6], '*' if norm[7] else '')
        if v != want:
            return ('repr', want, v)
    elif name == 'to_dict':
        want = dict(zip(['st_month', 'st_day', 'st_hour', 'end_month', 'end_day', 'end_hour', 'timestep',
                         'is_leap_year'], norm), type='AnalysisPeriod')
        if v != want:
            return ('to_dict', want, v)
    elif name in ('fields', 'duplicate'):
        if tuple(v) != _exp_fields(norm):
            return (name, _exp_fields(norm), tuple(v))
    return None


def _history_sig(norm0, what, step_op):
    sm, sd, sh, em, ed, eh, ts, leap = norm0
    return {'what': what, 'history': True, 'reversed': (sm, sd, sh) > (em, ed, eh), 'overnight': sh > eh,
            'sub_hourly': ts > 1, 'leap': leap, 'whole_day': (sh, eh) == (0, 23),
            'at': step_op[0] if step_op[0] != 'on' else step_op[2]}


def _check_history(inp):
    """The statement of C04 after every step of a history: each answer is the one the period described
    by the state the user established must give (a refused operation establishes nothing)."""
    args = tuple(inp['args'])
    norm0 = _normalise(args)
    if norm0 is None:
        return None
    res0, ap = _made(_ap_class(), *args)
    if ap is None:
        return {'required': 'valid arguments accepted', 'observed': 'raises ' + res0[1],
                'sig': _history_sig(norm0, 'constructor', ['new'])}
    objs, norms = [ap], [norm0]
    for k, op in enumerate(inp['ops']):
        nobj = len(objs)
        res = _exec_step(objs, op)
        bad = None
        kind = op[0]
        if kind == 'on':
            if op[1] >= len(norms):
                continue
            if op[2] == 'set_attr' and res[0] == 'ok':
                # the assignment was accepted: the user has established what the object now reports
                try:
                    rep = _normalise(_fields(objs[op[1]])[:8])
                except Exception:
                    rep = None
                if rep is None:
                    bad = ('set_attr_state', 'a valid period', 'unreadable / invalid fields after %s' % (op[3],))
                else:
                    norms[op[1]] = rep
            else:
                bad = _check_obs(norms[op[1]], op, res)
        elif kind == 'new':
            want = _normalise(tuple(op[1:9]))
            if want is None:
                if res[0] == 'ok':
                    bad = ('reject', 'invalid arguments rejected', 'accepted as %s' % (res[2][:8],))
            elif res[0] == 'err':
                bad = ('constructor', 'valid arguments accepted', 'raises ' + res[1])
            else:
                norms.append(want)
                if tuple(res[2]) != _exp_fields(want):
                    bad = ('fields', _exp_fields(want), tuple(res[2]))
        elif kind in ('dup', 'via_string', 'via_dict', 'via_start_end'):
            if op[1] >= len(norms):
                continue
            want = norms[op[1]]
            what = {'dup': 'duplicate', 'via_string': 'text_roundtrip', 'via_dict': 'dict_roundtrip',
                    'via_start_end': 'start_end_roundtrip'}[kind] + (':' + str(op[2]) if len(op) > 2 else '')
            if res[0] == 'err':
                bad = (what, 'reads back', 'raises ' + res[1])
            else:
                norms.append(want)
                if tuple(res[2]) != _exp_fields(want):
                    bad = (what, _exp_fields(want), tuple(res[2]))
        elif kind == 'eq':
            if op[1] >= len(norms) or op[2] >= len(norms):
                continue
            want = norms[op[1]] == norms[op[2]]
            if res[0] == 'err' or res[2] != want:
                bad = ('equality', want, res[1:] if res[0] == 'err' else res[2])
        if len(objs) != len(norms):           # keep both lists aligned whatever the (changed) code did
            if len(objs) > len(norms):
                try:
                    norms.append(_normalise(_fields(objs[-1])[:8]) or norm0)
                except Exception:
                    norms.append(norm0)
            else:
                del norms[len(objs):]
        if bad:
            return {'required': bad[1], 'observed': bad[2], 'sig': _history_sig(norm0, bad[0], op),
                    'step': k, 'step_op': op}
        del nobj
    return None


def _creates(op):
    """Does this world op append an object (when the unchanged class accepts it)?"""
    if op[0] == 'new':
        return _normalise(tuple(op[1:9])) is not None
    return op[0] in ('dup', 'via_string', 'via_dict', 'via_start_end')


def _refs(op):
    """Positions inside `op` that hold object indices."""
    if op[0] == 'on' or op[0] in ('dup', 'via_string', 'via_dict', 'via_start_end'):
        return [1]
    if op[0] == 'eq':
        return [1, 2]
    return []


def _drop_creator(ops, i):
    """`ops` without the object-creating op at position i (later indices renumbered); None when a
    later op uses the object it creates."""
    j = 1 + sum(1 for op in ops[:i] if _creates(op))
    out = list(ops[:i])
    for op in ops[i + 1:]:
        op = list(op)
        for k in _refs(op):
            if op[k] == j:
                return None
            if op[k] > j:
                op[k] -= 1
        out.append(op)
    return out


def _shrink_history(inp, res):
    """Drop operations that are not needed for the failure: reads first, then object-creating ops whose
    object is not used afterwards (indices renumbered).  Every candidate is re-evaluated."""
    ops = list(inp['ops'][:res.get('step', len(inp['ops']) - 1) + 1])
    what = res['sig'].get('what')
    best = dict(inp, ops=ops)
    budget = 80
    for _round in range(2):
        i = len(ops) - 2
        while i >= 0 and budget > 0:
            trial_ops = None
            if ops[i][0] in ('on', 'eq') or (ops[i][0] == 'new' and not _creates(ops[i])):
                trial_ops = ops[:i] + ops[i + 1:]
            elif _creates(ops[i]):
                trial_ops = _drop_creator(ops, i)
            if trial_ops is not None:
                trial = dict(inp, ops=trial_ops)
                budget -= 1
                r = _check_history(trial)
                if r and r['sig'].get('what') == what:
                    ops = trial['ops']
                    best = trial
            i -= 1
    return best


def _fails_fresh(op, inp, what):
    """The failure of (op, inp) as seen by a fresh interpreter (None when it does not fail there)."""
    r = _run_order([[op, inp]])[0]
    return r if r and (r.get('sig') or {}).get('what') == what else None


def _shrink_history_fresh(inp, res, budget=12):
    """Shrink a history that fails in a fresh interpreter; every accepted candidate is confirmed in a
    fresh interpreter (this process may carry state of earlier cases)."""
    what = res['sig'].get('what')
    trunc = dict(inp, ops=list(inp['ops'][:res.get('step', len(inp['ops']) - 1) + 1]))
    try:
        here = _check_history(trunc)
        if here and here['sig'].get('what') == what:
            cand = _shrink_history(trunc, here)
            if _fails_fresh('history', cand, what):
                return cand
    except Exception:
        pass
    ops = list(trunc['ops'])
    i = len(ops) - 2
    while i >= 0 and budget > 0:
        trial_ops = None
        if ops[i][0] in ('on', 'eq'):
            trial_ops = ops[:i] + ops[i + 1:]
        elif _creates(ops[i]):
            trial_ops = _drop_creator(ops, i)
        if trial_ops is not None:
            budget -= 1
            trial = dict(inp, ops=trial_ops)
            if _fails_fresh('history', trial, what):
                ops = trial['ops']
        i -= 1
    return dict(inp, ops=ops)


# -- process order ------------------------------------------------------------------------------------

_WORKER_CODE = ('import sys; sys.path.insert(0, %r); from harness.props import c04; c04._worker_main()')


def _worker_main():
    """Fresh interpreter: evaluate the cases of stdin in the given order, answer a JSON list."""
    sys.path.insert(0, core.REPO)
    data = json.load(sys.stdin)
    real = os.dup(1)
    devnull = os.open(os.devnull, os.O_WRONLY)
    os.dup2(devnull, 1)
    out = []
    for op, inp in data['cases']:
        try:
            out.append(check_case(op, inp))
        except Exception as e:
            out.append({'required': 'oracle evaluates', 'observed': 'exception %s: %s' % (type(e).__name__, e),
                        'sig': {'exception': type(e).__name__}})
    sys.stdout.flush()
    os.dup2(real, 1)
    os.write(1, json.dumps(out, default=str).encode('utf-8'))


def _spawn_order(cases):
    env = dict(os.environ, LADYBUG_REPO=core.REPO)
    p = subprocess.Popen([sys.executable, '-c', _WORKER_CODE % core.ROOT], cwd=core.ROOT, env=env,
                         stdin=subprocess.PIPE, stdout=subprocess.PIPE, stderr=subprocess.PIPE)
    p.stdin.write(json.dumps({'cases': cases}).encode('utf-8'))
    p.stdin.close()
    return p


def _collect_order(p, n):
    out = p.stdout.read()
    err = p.stderr.read()
    p.wait()
    try:
        res = json.loads(out.decode('utf-8'))
        if len(res) != n:
            raise ValueError('answered %d of %d' % (len(res), n))
        return res
    except Exception as e:
        # the (changed) library made the fresh interpreter die: that is an observation, not a crash of ours
        return [{'required': 'cases evaluate in a fresh interpreter',
                 'observed': 'worker failed (%s): %s' % (e, err.decode('utf-8', 'replace')[-400:]),
                 'sig': {'what': 'worker'}}] + [None] * (n - 1)


def _run_order(cases):
    return _collect_order(_spawn_order(cases), len(cases))


def _check_order(inp):
    cases = inp['order']
    res = _run_order(cases)
    for k, r in enumerate(res):
        if r:
            sig = dict(r.get('sig') or {})
            sig['what'] = 'order:' + str(sig.get('what'))
            return {'required': r.get('required'), 'observed': r.get('observed'), 'sig': sig, 'index': k,
                    'case': cases[k]}
    return None


def _shrink_order(cases, k, what):
    """Fewest-effort reduction of an order whose k-th case fails only after the others ran before it."""
    prefix = cases[:k]
    last = cases[k]
    runs = 0
    while len(prefix) > 1 and runs < 14:
        half = len(prefix) // 2
        for part in (prefix[half:], prefix[:half]):
            runs += 1
            r = _run_order(part + [last])[-1]
            if r and (r.get('sig') or {}).get('what') == what:
                prefix = part
                break
        else:
            break
    return prefix + [last]


def _rarity(case):
    """Sort key: rare classes first (failing calls, leap, wrapping, sub-hourly, overnight, histories)."""
    op, inp = case
    a = inp['args']
    n = _normalise(tuple(a))
    if n is None:
        return (0,)
    sm, sd, sh, em, ed, eh, ts, leap = n
    return (1, not leap, not ((sm, sd, sh) > (em, ed, eh)), not ts > 1, not sh > eh, op != 'history')


def _order_slice(ctx, rng):
    """Cheap cases of every kind for the fresh-interpreter runs."""
    out = []
    for c, shape in _periods(ctx, 60, 1.2e5, rng=rng, malformed=0.15):
        if _steps_estimate(c) > 6000:
            continue
        inp = {'args': list(c)}
        if _normalise(c) is None:
            out.append(['reject', inp])
        else:
            out.append([rng.choice(['period', 'period', 'forms']), inp])
    for h in FIXED_HISTORIES:
        out.append(['history', h])
    for _ in range(40):
        h, _shape = _gen_history(ctx, rng)
        out.append(['history', h])
    # pairs that differ only in the year kind / timestep, adjacent in the stream
    for _ in range(12):
        c, _shape = _small_valid(ctx, rng, 1500)
        c2 = _flip_kind(rng, c)
        if _normalise(c2) is not None and _steps_estimate(c2) <= 3000:
            out.append(['period', {'args': list(c)}])
            out.append(['period', {'args': list(c2)}])
    return out


def _oracle_orders(ctx):
    rng = ctx.rng
    cases = _order_slice(ctx, rng)
    orders = []
    rare_first = sorted(cases, key=_rarity)
    orders.append(('rare-first', rare_first))
    orders.append(('common-first', list(reversed(rare_first))))
    sh = list(cases)
    rng.shuffle(sh)
    orders.append(('shuffled', sh))
    if not ctx.quick or ctx.searching:
        sh2 = list(cases)
        rng.shuffle(sh2)
        orders.append(('shuffled-2', sh2))
    procs = [(name, order, _spawn_order(order)) for name, order in orders]
    for name, order, p in procs:
        res = _collect_order(p, len(order))
        ctx.count('order:' + name, len(order))
        for k, r in enumerate(res):
            ctx.count('oracle:order-case')
            ctx.case(('order', name, k))
            if not r:
                continue
            if len(ctx.failures) >= 200:
                break
            what = (r.get('sig') or {}).get('what')
            alone = _run_order([order[k]])[0]
            if alone and (alone.get('sig') or {}).get('what') == what:
                # fails in a fresh interpreter on its own: report the plain case
                op1, inp1 = order[k]
                if op1 == 'history':
                    try:
                        inp1 = _shrink_history_fresh(inp1, alone)
                        r = _fails_fresh('history', inp1, what) or r
                    except Exception:
                        pass
                ctx.fail(op1, inp1, r.get('required'), r.get('observed'), r.get('sig'))
            else:
                small = _shrink_order(order, k, what)
                sig = dict(r.get('sig') or {})
                sig['what'] = 'order:' + str(what)
                ctx.fail('order', {'order': small, 'name': name}, r.get('required'), r.get('observed'), sig)
            break                                  # one failure per order is enough for a replay


def _check_reject_forms(inp):
    """Invalid arguments are rejected by every entry point: constructor, from_dict, from_string."""
    AnalysisPeriod = _ap_class()
    args = tuple(inp['args'])
    if _normalise(args) is not None:
        return None
    keys = ['st_month', 'st_day', 'st_hour', 'end_month', 'end_day', 'end_hour', 'timestep', 'is_leap_year']
    entries = [('from_dict', AnalysisPeriod.from_dict, (dict((k, v) for k, v in zip(keys, args) if v is not None),))]
    if all(isinstance(x, int) and not isinstance(x, bool) for x in args[:7]) and all(x != 0 for x in args[:7]):
        s = '%d/%d to %d/%d between %d and %d @%d%s' % (args[0], args[1], args[3], args[4], args[2], args[5],
                                                         args[6], '*' if args[7] else '')
        entries.append(('from_string', AnalysisPeriod.from_string, (s,)))
        entries.append(('from_string:padded', AnalysisPeriod.from_string, (_text_variant(s, 'padded'),)))
        entries.append(('from_string:upper', AnalysisPeriod.from_string, (_text_variant(s, 'upper'),)))
        if args[6] in VALID_TS:
            entries.append(('text_arguments', AnalysisPeriod, tuple(str(x) for x in args[:6]) + (args[6], args[7])))
    for name, f, a in entries:
        try:
            with _quiet():
                got = f(*a)
        except (ValueError, IndexError):
            continue
        except TypeError as e:
            if name == 'text_arguments':
                continue          # text month used as an index when the end day needs clipping: still a refusal
            return {'required': 'ValueError', 'observed': '%s raises %r' % (name, e),
                    'sig': {'what': 'reject-class', 'entry': name}}
        except Exception as e:
            return {'required': 'ValueError', 'observed': '%s raises %r' % (name, e),
                    'sig': {'what': 'reject-class', 'entry': name}}
        return {'required': 'invalid arguments rejected by %s' % name, 'observed': repr(got),
                'sig': {'what': 'reject', 'entry': name}}
    return None


def _check_forms_extra(inp):
    """Further entry points / serial consumers of the stored start and end: from_start_end_datetime,
    str / ToString, from_dict and from_string of hand-written forms, != and hash."""
    AnalysisPeriod = _ap_class()
    args = tuple(inp['args'])
    norm = _normalise(args)
    if norm is None:
        return None
    sm, sd, sh, em, ed, eh, ts, leap = norm
    base = {'reversed': (sm, sd, sh) > (em, ed, eh), 'overnight': sh > eh, 'sub_hourly': ts > 1, 'leap': leap,
            'whole_day': (sh, eh) == (0, 23)}

    def bad(what, required, observed):
        return {'required': required, 'observed': observed, 'sig': dict(base, what=what)}
    a = _mk(args)
    want = _exp_fields(norm)
    text = '%d/%d to %d/%d between %d and %d @%d%s' % (sm, sd, em, ed, sh, eh, ts, '*' if leap else '')
    if not (str(a) == repr(a) == a.ToString() == text):
        return bad('repr', text, repr(a))
    keys = DICT_KEYS
    import copy
    made = [('start_end_roundtrip', lambda: AnalysisPeriod.from_start_end_datetime(a.st_time, a.end_time, ts)),
            ('start_end_roundtrip:str_ts', lambda: AnalysisPeriod.from_start_end_datetime(a.st_time, a.end_time, str(ts))),
            ('dict_form', lambda: AnalysisPeriod.from_dict(dict((k, v) for k, v in zip(keys, args) if v is not None))),
            ('copy', lambda: copy.copy(a)), ('deepcopy', lambda: copy.deepcopy(a if n_steps <= 120 else _mk(args))),
            # numbers given as text: the constructor itself (what from_string calls), mixed with integers
            ('text_arguments', lambda: AnalysisPeriod(str(sm), str(sd), str(sh), str(em), str(ed), str(eh), ts, leap)),
            ('text_arguments:mixed', lambda: AnalysisPeriod(str(sm), sd, str(sh), em, str(ed), eh, ts, leap))]
    made += [('text_form:' + v, (lambda v=v: _from_string_variant(AnalysisPeriod, text, v))) for v in TEXT_VARIANTS]
    made += [('dict_form:' + v, (lambda v=v: _from_dict_variant(AnalysisPeriod, a.to_dict(), v, sd + eh)))
             for v in DICT_VARIANTS]
    n_steps = len(a)
    for i, (what, f) in enumerate(made):
        res, b = _made(f)
        if b is None:
            return bad(what, 'builds %s' % text, 'raises ' + res[1])
        if tuple(res[2]) != want:
            return bad(what, want, tuple(res[2]))
        if b != a or not (b == a) or hash(b) != hash(a):
            return bad(what + '_equal', 'equal to the period', 'not equal / other hash')
        if n_steps <= 120 or (n_steps < 20000 and i % 10 == (sd + eh + sm) % 10):
            # the period read back enumerates the same steps and gives the same listings
            for nm in ('moys', 'doys_int', 'months_int', 'months_per_hour'):
                try:
                    if _seq(getattr(b, nm)) != _seq(getattr(a, nm)):
                        return bad(what + '_' + nm, 'same %s' % nm, 'different %s' % nm)
                except _Observed as e:
                    return bad('not_a_sequence', 'every listing is a sequence', str(e))
            if len(b) != len(a):
                return bad(what + '_len', len(a), len(b))
    if (sd + eh) % 4 == 0:
        # in the text form a month / day "0" is not a missing value: it is no calendar date
        for k, zero in enumerate(['0/%d to %d/%d' % (sd, em, ed), '%d/0 to %d/%d' % (sm, em, ed),
                                  '%d/%d to 0/%d' % (sm, sd, ed), '%d/%d to %d/0' % (sm, sd, em),
                                  '%d/%d to %d/%d' % (sm, sd, em, 32 + ed)]):
            t2 = '%s between %d and %d @%d%s' % (zero, sh, eh, ts, '*' if leap else '')
            try:
                got = _quiet_call(AnalysisPeriod.from_string, t2)
            except ValueError:
                continue
            except Exception as e:
                return bad('text_reject_class', 'ValueError for %r' % t2, repr(e))
            if k == 4 and tuple(_fields(got)[:8]) == norm[:4] + (_mlen(leap, em),) + norm[5:]:
                continue         # an end day beyond the month may be clipped (documented) or refused
            return bad('text_reject', '%r rejected' % t2, repr(got))
    other = _mk((sm, sd, sh, em, ed, eh, ts, not leap)) if (sm, sd) != (2, 29) and (em, ed) != (2, 29) else None
    if other is not None and (other == a or not (other != a)):
        return bad('equality', 'periods of different year kinds differ', 'equal')
    return None


FLOAT_TS_CORPUS = [[1, 1, 0, 1, 1, 23, 2, False], [12, 31, 20, 1, 1, 5, 4, True], [3, 1, 7, 3, 3, 7, 15, False],
                   [6, 1, 0, 6, 2, 23, 1, True], [2, 28, 9, 3, 1, 18, 3, True], [1, 1, 9, 1, 1, 10, 60, False]]


def _check_float_timestep(inp):
    """Input shape (kind i): the timestep given as a float that equals a valid timestep (2.0 -- what a
    JSON number or a .NET double delivers; from_string and from_start_end_datetime convert with int()).
    The class accepts it (2.0 is `in VALIDTIMESTEPS`), so the period it builds must enumerate exactly
    the steps of the integer timestep."""
    AnalysisPeriod = _ap_class()
    args = tuple(inp['args'])
    norm = _normalise(args)
    if norm is None or args[6] in (None, 0):
        return None
    sig = {'what': 'float_timestep', 'leap': norm[7], 'sub_hourly': norm[6] > 1}
    fargs = args[:6] + (float(args[6]), args[7])
    for route, build in (('constructor', lambda: AnalysisPeriod(*fargs)),
                         ('from_dict', lambda: AnalysisPeriod.from_dict(dict(zip(DICT_KEYS, fargs))))):
        res, b = _made(build)
        if b is None:
            # refusing a float would be a way to keep the statement; accepting and failing later is not
            continue
        exp = _exp(norm)
        for nm, want, get in (('len', len(exp['moys']), lambda: len(b)),
                              ('moys', exp['moys'], lambda: _seq(b.moys)),
                              ('months_per_hour', None, lambda: _seq(b.months_per_hour)),
                              ('timestep', norm[6], lambda: b.timestep)):
            try:
                got = get()
            except _Observed as e:
                return {'required': 'a sequence', 'observed': str(e), 'sig': dict(sig, observable=nm, error='shape')}
            except Exception as e:
                return {'required': '%s of the accepted period %r' % (nm, b), 'observed': 'raises %s: %s' % (type(e).__name__, e),
                        'sig': dict(sig, observable=nm, error=type(e).__name__, route=route)}
            if nm == 'months_per_hour':
                bad = _check_mph(norm, [tuple(t) for t in got])
                if bad:
                    return {'required': bad[1], 'observed': bad[2], 'sig': dict(sig, observable=nm, error='value')}
            elif nm == 'timestep':
                if got != want or not isinstance(got, int):
                    return {'required': 'the integer %d' % want, 'observed': repr(got),
                            'sig': dict(sig, observable=nm, error='value', route=route)}
            elif got != want:
                return {'required': _brief(want, got) if nm == 'moys' else want,
                        'observed': _brief(got, want) if nm == 'moys' else got,
                        'sig': dict(sig, observable=nm, error='value', route=route)}
    return None


def check_case(op, inp):
    if op == 'float_ts':
        return _check_float_timestep(inp)
    if op == 'history':
        return _check_history(inp)
    if op == 'order':
        return _check_order(inp)
    res = _check_basic(op, inp)
    if res is None and op == 'reject':
        res = _check_reject_forms(inp)
    if res is None and op == 'forms':
        res = _check_forms_extra(inp)
    return res


replay = check_case




def _oracle_cases(ctx):
    rng = ctx.rng
    big = ctx.searching or not ctx.quick
    n = 4300 if big else 700
    cap = 6e6 if big else 9e5
    if ctx.searching and ctx.quick:
        n, cap = 2500, 3e6
    cases = _periods(ctx, n, cap, rng=rng, malformed=0.12)
    for c in FLOAT_TS_CORPUS:                 # few on purpose: an open finding must not fill the failure list
        yield 'float_ts', {'args': list(c)}
    for c, shape in cases:
        ctx.count('oracle_shape:' + shape)
        inp = {'args': list(c)}
        if _normalise(c) is None:
            yield 'reject', inp
        else:
            yield 'period', inp
            yield 'forms', inp
    if not ctx.quick:
        # all (st_hour, end_hour, timestep) triples on a few date pairs (short spans)
        pairs = [((1, 1), (1, 2)), ((2, 28), (3, 1)), ((12, 31), (1, 1)), ((12, 30), (12, 31)), ((6, 30), (6, 30))]
        for (a, b) in pairs:
            for leap in (False, True):
                for sh in range(24):
                    for eh in range(24):
                        for ts in VALID_TS:
                            if a == b and sh > eh:
                                continue      # same-day reversed = the whole year; covered by the 'same-day' shape
                            if (sh * 7 + eh * 5 + VALID_TS.index(ts)) % (3 if ctx.searching else 6) == 0:
                                yield 'period', {'args': [a[0], a[1], sh, b[0], b[1], eh, ts, leap]}


def _oracle_histories(ctx):
    rng = ctx.rng
    n = ctx.n(350, 2200) * (3 if ctx.searching and ctx.quick else 1)
    hs = [(h, 'fixed') for h in FIXED_HISTORIES] + [_gen_history(ctx, rng) for _ in range(n)]
    shrunk = 0
    done = []
    start = len(ctx.failures)
    for h, shape in hs:
        if len(ctx.failures) >= 200 or len(ctx.failures) - start >= 40:
            break               # enough failing histories for a replay
        ctx.count('oracle_history_shape:' + shape)
        ctx.count('oracle:history')
        ctx.count('oracle_history_ops', len(h['ops']))
        ctx.case(('history', json.dumps(h, sort_keys=True, default=str)))
        try:
            res = check_case('history', h)
            if res:
                what = (res.get('sig') or {}).get('what')
                trunc = dict(h, ops=h['ops'][:res.get('step', len(h['ops']) - 1) + 1])
                if shrunk < 2:
                    shrunk += 1
                    fresh = _fails_fresh('history', trunc, what)
                    if fresh:
                        h = _shrink_history_fresh(trunc, fresh)
                        res = _fails_fresh('history', h, what) or fresh
                    else:
                        # fails only after what this process did before: replay it as an order
                        prev = [['history', p] for p in done[-40:]]
                        r2 = _run_order(prev + [['history', trunc]])[-1]
                        if r2 and (r2.get('sig') or {}).get('what') == what:
                            small = _shrink_order(prev + [['history', trunc]], len(prev), what)
                            sig = dict(r2.get('sig') or {})
                            sig['what'] = 'order:' + str(what)
                            ctx.fail('order', {'order': small, 'name': 'in-process'}, r2.get('required'),
                                     r2.get('observed'), sig)
                            done.append(h)
                            continue
                        h = trunc
                        res['sig'] = dict(res['sig'], process_dependent=True)
                else:
                    h = trunc
        except Exception as e:
            res = {'required': 'oracle evaluates', 'observed': 'exception %s: %s' % (type(e).__name__, e),
                   'sig': {'exception': type(e).__name__}}
        if res:
            ctx.fail('history', h, res.get('required'), res.get('observed'), res.get('sig'))
        else:
            done.append(h)


def oracle(ctx):
    # fresh interpreters first (their verdict must not depend on what this process already did)
    _oracle_orders(ctx)
    _oracle_histories(ctx)
    run_oracle_cases(ctx, _oracle_cases(ctx), check_case)
