"""C15 — Values map to legend colours monotonically and legends describe their data.

Model: lean/Ladybug/Model/Color.lean, Model/Legend.lean; theorems: lean/Ladybug/Props/C15.lean
(lemmas in Proofs/C15Lemmas.lean); driver: drv_c15.  Tie: correspondence only (no translator part).

Two correspondence regimes (DESIGN.md section 4, regime ii):
  * exact stream  - inputs constructed so that every float operation of the code is exact (dyadic
    stops, power-of-two gaps, dyadic blend factors): model and code must agree bit for bit;
  * float stream  - arbitrary floats of many magnitudes: numbers must agree within 1e-12 relative,
    colours must be equal unless the exact pre-rounding channel value (asked from the model, op
    `colorx`) lies within 1e-9 of a rounding tie and the channels differ by 1; those cases are
    counted (`near_tie_rounding`) and reported in evidence, anything else is a disagreement.

Round 3 (histories, failure paths, process order).  State lives in: `ColorRange` (`_colors`, `_domain`,
`_is_domain_set`; setters `colors`, `domain`), `LegendParameters` / `LegendParametersCategorized` (every
attribute has a setter; `Legend3DParameters` behind `segment_height/width`, `text_height`), `Legend`
(works on a duplicate of the parameters with the resolved min / max / count stored in it; the user can
keep assigning to `legend.legend_parameters`), `GraphicContainer` (owns a `Legend`).  No module- or
class-level mutable state in color.py / legend.py / graphic.py (`Colorset._colors` is a constant table).

Consumers of each modelled producer (each is exercised by the streams named in brackets):
  * colours + domain of a range (`ColorRange._colors/_domain`): `color()` -> `_cal_color`, `domain`,
    `colors`, `__len__`, `duplicate()`, `to_dict()/from_dict` [color, crhist: r/s/u; C07 for the dict];
    `Legend.color_range` builds a new range on every call -> `value_colors`, `segment_colors`,
    `_segment_mesh_2d` colours, `GraphicContainer.value_colors` [legend, graphic, lhist: ol];
  * resolved bounds (`Legend.__init__` -> `legend_par.min/max`): `segment_numbers`, `segment_text`,
    `color_range`, `segment_colors`, `value_colors`, `is_min_default/is_max_default`, `duplicate()`,
    `to_dict()/from_dict`, `GraphicContainer` default width (`len(str(int(max)))`) [legend, lhist: ol/dl/tl/g];
  * segment count (`segment_count`, `_is_segment_count_default`, the single-value default):
    `segment_numbers`, `segment_text`, `segment_colors`, `segment_length`, `_segment_point_scene_2d`,
    `_segment_mesh_2d`, `GraphicContainer` default height (`max(count, 8)`) [legend, graphic, lhist];
  * categorised domain / colours / names: `min`, `max`, `segment_count`, `category_names` ->
    `Legend.segment_text`, `color_range`, `segment_colors`, `__repr__`, `to_dict`, `duplicate` [lhist: op/ol/dp/tp];
  * label format (`decimal_count`, `include_larger_smaller`, `ordinal_dictionary`): `segment_text`,
    `category_names` [legend, lhist].
Not exercised: `title_location*`, `colors_by_set`, `Legend.from_dict` flag override, titles / units of
`GraphicContainer` (round 4 added `color_map_2d`, `segment_text_location_2d` and the data-type defaults).

History streams: `lhist` (one parameters object + the legend built from it: assignments to either
object incl. refused ones, rebuilds with other data, GraphicContainer builds, duplicates, dict round
trips, repeated reads) and `crhist` (one ColorRange: colours / domain assignments incl. refused ones,
duplicates, reads at and between the current stops); compared step by step with the Lean state machines
(Model/C15Obj.lean) and judged by the history oracle (`lhistory`, `crhistory`: refused = unchanged,
reads change nothing, no leak between the parameters and the legend, the live object == an object built
in one go from its public state, the statement's clauses on the live object, last accepted bounds /
count / domain / names in force).  `process_order`: a slice of all oracle ops in 3-4 fresh interpreters,
each in another order (rare classes first in one).

Round 4 (override gaps, aliasing / one-shot iterables, conventions, numeric edges, input shapes, rare
branches).  Added:
  * `gtype` (correspondence + oracle): GraphicContainer WITH a data type - every built-in ordinal type,
    GenericType and DataTypeBase.from_dict types whose unit description is written in ascending /
    descending / shuffled key order (contiguous, sparse, empty, one key), types without categories, a
    bare unit, Point2D corners; bounds default / a key / not a key / beyond the keys; count default /
    given; user dictionary and categorised parameters (kept).  Lean: Model/C15Graphic.lean, driver op
    `gtype`, theorems C15_typed_*.  Consumers: legend min/max/count, segment_text, value_colors, dims,
    to_dict/from_dict of the container.
  * container shapes: every sequence argument (values, colours, categorised domain, names; constructor
    and setters; histories too) is fed as list / tuple / generator / iter / map object (`shape` of a
    case; the model always takes the list) + oracle op `shapes` (answers equal for all shapes).
    `ColorRange.domain` gets one-shot iterables in the oracle only (finding C15-colorrange-domain-one-shot).
  * ordinal dictionaries are written in shuffled key order everywhere.
  * oracle op `extra` on legends: edits of returned containers, a second legend from the same / from
    default parameters, colour-range copies and dictionary forms, categorised-vs-plain sibling, mesh
    extents (from_grid argument convention), scene label positions step / start, screen-space label
    positions (`segment_text_location_2d`, 4 branches) and `color_map_2d` (4 branches; '%'/'px' text
    dimensions, several screen sizes).
Branches of the anchored functions (each reached by a counted stratum `branch:*` in evidence):
  ColorRange.color: below / above / interval-blend / interval-segment / fall-through (single boundary);
  _cal_color: ZeroDivisionError (duplicated stops, zero width) / blend; domain setter: default (0, 1) /
  2-value re-map / multi-stop / segmented; colors setter: default / Color objects / re-check of a set domain
  (refused -> restored; crhist);  Legend.__init__: values tuple / other iterable, parameters None / given,
  min / max from data, single-value count, horizontal default width;  segment_text: categorised (given /
  generated names) / numeric / numeric with marks / ordinal hit / ordinal miss;  segment_numbers:
  ZeroDivisionError (1 segment) / step;  color_range + segment_colors: categorised / plain;  segment_length,
  _segment_point_scene_2d, _segment_mesh_2d: vertical / horizontal x discrete / gradient;
  segment_text_location_2d, color_map_2d: the same four;  GraphicContainer: Point2D / Point3D corners,
  no data type / unit only / data type without categories / ordinal applied / user dictionary kept /
  categorised kept, min / max from keys, count aligned / given, index ValueError (finding), min > max
  refused, empty dictionary IndexError, height vertical / horizontal each with its zero fallback.
  Not reachable through the public API: `_convert_colors` .NET branches (`col.Red`), `except IndexError`
  of graphic.py:93 (never raised).
"""
import math
from fractions import Fraction

from harness import core
from harness.core import err_name, run_oracle_cases

PROP = 'C15'
PROOF_MODULES = ['Ladybug.Props.C15']
GREP_MODULES = ['Ladybug.Py', 'Ladybug.Model.Color', 'Ladybug.Model.Legend', 'Ladybug.Model.C15Obj',
                'Ladybug.Model.C15Graphic', 'Ladybug.Proofs.C15Lemmas', 'Ladybug.Proofs.C15Obj',
                'Ladybug.Proofs.C15Graphic', 'Ladybug.Drv.C15', 'Ladybug.DrvCore']
RULE = ('correspondence: colour lists of 1-20 random colours (repeated / extreme / non-monotone channels, '
        'default set), domains {2 values | one per colour | fewer | single | zero-width | unsorted | empty | '
        'too many}, continuous and segmented, values at every stop, dyadic fractions between stops, just '
        'inside/outside the ends, far outside; legends: values x (min/max given | default) x segment count '
        '(1-20 | default) x vertical/horizontal x gradient/discrete x ordinal dictionary x categorised '
        'parameters x segment dimensions; the full default-resolution grid (data all-equal/varying x bounds '
        'neither/min/max/both/min==max x count default/given x plain/categorised) on every run; exact stream compared bit for bit, float stream with the '
        'near-tie rule; histories on one object (lhist: parameters + legend, crhist: colour range) in exact '
        'worlds (pow2 / tens / nines colour and segment counts, zero bounds, single values, refused '
        'assignments of every kind, rebuilds, duplicates, dict round trips, repeated reads) compared step by '
        'step with the Lean state machines; a slice of all oracle ops re-run in 3-4 fresh interpreters in '
        'different orders; round 4: typed graphic containers (all built-in ordinal data types, generic / '
        'from_dict types with dictionaries in any key order), every sequence argument as list / tuple / '
        'generator / iter / map, shuffled ordinal dictionaries, aliasing / second-object / screen-geometry / '
        'colour-map clauses; oracle: the statement of C15 on the real classes; a case is non-trivial when the '
        'constructor accepts it; distinct = distinct (op, request line)')
TRUSTED_BASE = [
    'modelled, not verified: ladybug_geometry Mesh2D.from_grid face/vertex counts and its colour-count '
    'assertion, Python sorted/min/max, "%.nf" float formatting (compared on every run)',
    'the default colour set Colorset.original() is copied by hand into Model/Color.lean '
    '(compared through every legend without explicit colours)',
    'float vs exact arithmetic: theorems are over Rat; on random floats the colour channels were equal '
    'except at counted rounding ties (coverage.input_distribution near_tie_rounding)',
    'graphic.py: the data type of a GraphicContainer is modelled by its unit description only (titles / '
    'units are not); ladybug_geometry points/planes are not modelled; container types of arguments are not '
    'modelled (the model takes lists; every shape is fed to the real code and compared with it)',
    'histories: history-refines-fresh is proved for plain parameters only; categorised parameters, the live '
    "legend's own parameters and ColorRange objects are compared step by step (lhist / crhist) and judged by "
    'the history oracle; label-position coordinates and segment dimensions are not observed in histories '
    '(their counts are); assigning None to a bound of a live legend and negative decimal counts are not generated',
]
ASSUMPTIONS = ['values, domains and legend bounds are finite numbers (no NaN/inf)',
               'segment dimensions are positive (enforced by the setters)']

TIE_EPS = Fraction(1, 10 ** 9)


# ---------------------------------------------------------------------------------------------
# encoding


def rat(x):
    fr = Fraction(x)
    return str(fr.numerator) if fr.denominator == 1 else '%d/%d' % (fr.numerator, fr.denominator)


def rats(xs):
    return ' '.join(rat(x) for x in xs)


def _b(x):
    return '1' if x else '0'


def opt(x, f=rat):
    return 'none' if x is None else f(x)


def enc_cols(cols):
    return '%d %s' % (len(cols), ' '.join('%d %d %d' % tuple(c) for c in cols)) if cols else '0'


def enc_list(xs):
    return ('%d %s' % (len(xs), rats(xs))) if xs else '0'


def show_rgb(c):
    return '%d %d %d' % (c.r, c.g, c.b)


def show_colors(cs):
    return ' ; '.join(show_rgb(c) for c in cs)


def color_line(op, c):
    return '%s %s %s %s %s' % (op, _b(c['cont']), enc_cols(c['cols']), enc_list(c['dom']), enc_list(c['vals']))


def legend_line(c):
    if c['kind'] == 'plain':
        cols = 'none' if c['cols'] is None else enc_cols(c['cols'])
        ordd = 'none' if c['ord'] is None else '%d %s' % (
            len(c['ord']), ' '.join('%d %s' % (k, t) for k, t in c['ord'])) if c['ord'] else (
            'none' if c['ord'] is None else '0')
        return 'legend plain %s %s %s %s %s %s %s %d %s %s %s %s %s' % (
            enc_list(c['vals']), opt(c['min']), opt(c['max']), opt(c['count'], str), cols,
            _b(c['cl']), _b(c['vert']), c['dc'], _b(c['ils']), ordd,
            opt(c['sh']), opt(c['sw']), opt(c['th']))
    names = 'none' if c['names'] is None else '%d %s' % (len(c['names']), ' '.join(c['names']))
    return 'legend cat %s %s %s %s %s %s %s %d %s %s %s %s' % (
        enc_list(c['vals']), enc_list(c['dom']), enc_cols(c['cols']), names, opt(c['cc'], _b),
        _b(c['cl']), _b(c['vert']), c['dc'], opt(c['ils'], _b), opt(c['sh']), opt(c['sw']), opt(c['th']))


# ---------------------------------------------------------------------------------------------
# the real code behind the same protocol


SHAPES = ['list', 'tuple', 'gen', 'iter', 'map']


def shaped(seq, shape):
    """The same data in another container type (round 4, kind f): list, tuple, generator, `iter`,
    `map` object.  Empty / None arguments keep their list form (their meaning is 'default')."""
    if seq is None:
        return None
    seq = list(seq)
    if not seq or shape in (None, 'list'):
        return seq
    if shape == 'tuple':
        return tuple(seq)
    if shape == 'gen':
        return (x for x in seq)
    if shape == 'iter':
        return iter(seq)
    if shape == 'map':
        return map(lambda x: x, seq)
    raise ValueError('unknown shape %r' % (shape,))


def dom_shape(shape):
    """`ColorRange.domain` is fed lists and tuples only by the correspondence: a one-shot iterable is
    silently read as an empty domain there (finding C15-colorrange-domain-one-shot, oracle op `shapes`)."""
    return 'tuple' if shape in ('tuple', 'iter') else 'list'


def make_range(c, shape=None):
    from ladybug.color import Color, ColorRange
    shape = shape if shape is not None else c.get('shape')
    cols = shaped([Color(*x) for x in c['cols']], shape) if c['cols'] else None
    return ColorRange(cols, shaped(c['dom'], dom_shape(shape)) if c['dom'] else None, c['cont'])


def impl_color(c):
    try:
        cr = make_range(c)
    except Exception as e:
        return 'err:' + err_name(e)
    outs = []
    for v in c['vals']:
        try:
            outs.append(show_rgb(cr.color(v)))
        except Exception as e:
            outs.append('E:' + err_name(e))
    return 'ok %s | %s' % (rats(cr.domain), ' ; '.join(outs))


def make_par(c, shape=None):
    from ladybug.color import Color
    from ladybug.legend import LegendParameters, LegendParametersCategorized
    shape = shape if shape is not None else c.get('shape')
    if c['kind'] == 'plain':
        cols = None if c['cols'] is None else shaped([Color(*x) for x in c['cols']], shape)
        lp = LegendParameters(c['min'], c['max'], c['count'], cols)
        lp.continuous_legend = c['cl']
        lp.vertical = c['vert']
        lp.decimal_count = c['dc']
        lp.include_larger_smaller = c['ils']
        if c['ord'] is not None:
            lp.ordinal_dictionary = dict(c['ord'])
    else:
        lp = LegendParametersCategorized(shaped(c['dom'], shape), shaped([Color(*x) for x in c['cols']], shape),
                                         shaped(c['names'], shape))
        lp.continuous_colors = c['cc']
        lp.continuous_legend = c['cl']
        lp.vertical = c['vert']
        lp.decimal_count = c['dc']
        lp.include_larger_smaller = c['ils']
    if c['sh'] is not None:
        lp.segment_height = c['sh']
    if c['sw'] is not None:
        lp.segment_width = c['sw']
    if c['th'] is not None:
        lp.text_height = c['th']
    return lp


def _sec(f):
    try:
        return f()
    except Exception as e:
        return 'err:' + err_name(e)


def impl_legend(c):
    from ladybug.legend import Legend
    try:
        lg = Legend(shaped(c['vals'], c.get('shape')), make_par(c))
    except Exception as e:
        return 'err:' + err_name(e)
    return legend_secs(lg)


def legend_secs(lg, relabel=None):
    """The nine sections of the `legend` / `gtype` answers, read from a live legend (`relabel`: texts
    of a data type that hold blanks -> their one-token form of the line protocol)."""
    relabel = relabel or {}
    lp = lg.legend_parameters

    def mesh():
        m = lg.segment_mesh_scene_2d
        return '%d %d : %s' % (len(m.faces), len(m.vertices), show_colors(m.colors))

    def crange():
        cr = lg.color_range
        return '%s : %s : %s' % (rats(cr.domain), show_colors(cr.colors), _b(cr.continuous_colors))

    secs = [
        'ok %s %s %d %s %s' % (rat(lp.min), rat(lp.max), lp.segment_count, _b(lg.is_min_default),
                               _b(lg.is_max_default)),
        _sec(lambda: rats(lg.segment_numbers)),
        _sec(lambda: show_colors(lg.segment_colors)),
        _sec(lambda: show_colors(lg.value_colors)),
        _sec(lambda: ';'.join(relabel.get(t, t) for t in lg.segment_text)),
        _sec(lambda: ' '.join('%s,%s' % (rat(p.x), rat(p.y)) for p in lg._segment_point_scene_2d())),
        _sec(lambda: str(lg.segment_length)),
        _sec(mesh),
        _sec(crange),
    ]
    return ' | '.join(secs)


def graphic_line(c, box):
    return 'graphic %s %s' % (rats(box), legend_line(c)[len('legend '):])


def impl_graphic(c, box):
    from ladybug.graphic import GraphicContainer
    from ladybug_geometry.geometry3d.pointvector import Point3D
    try:
        gc = GraphicContainer(shaped(c['vals'], c.get('shape')), Point3D(box[0], box[1], 0),
                              Point3D(box[2], box[3], 0), make_par(c))
    except Exception as e:
        return 'err:' + err_name(e)
    lp = gc.legend_parameters
    return ' | '.join([
        'ok ' + _sec(lambda: show_colors(gc.value_colors)),
        _sec(lambda: show_colors(gc.legend.segment_colors)),
        '%s %s %s' % (rat(lp.segment_height), rat(lp.segment_width), rat(lp.text_height)),
        _sec(lambda: str(len(gc.legend.segment_text_location)))])


def compare_graphic(ctx, cases):
    """`graphic` op: colours and counts bit for bit, the derived dimensions within 1e-12."""
    drv = ctx.driver()
    lines = [graphic_line(c, box) for c, box in cases]
    outs = drv.run(lines)
    for (c, box), line, mo in zip(cases, lines, outs):
        io = impl_graphic(c, box)
        ctx.compared += 1
        ctx.count('op:graphic_' + c['kind'])
        ctx.case(('graphic', line), nontrivial=not io.startswith('err:'))
        if io.startswith('err:'):
            ctx.count('err_results')
        if mo == io:
            continue
        ms, is_ = mo.split(' | '), io.split(' | ')
        if len(ms) == 4 and len(is_) == 4 and ms[0] == is_[0] and ms[1] == is_[1] and ms[3] == is_[3] \
                and _nums_close(ms[2], is_[2]):
            continue
        ctx.disagree('graphic', {'case': c, 'box': list(box), 'line': line}, mo, io)


# ---------------------------------------------------------------------------------------------
# tolerant comparison (float stream)


def _close(a, b, tol=Fraction(1, 10 ** 12)):
    a, b = Fraction(a), Fraction(b)
    return abs(a - b) <= tol * max(abs(a), abs(b), Fraction(1, 10 ** 200)) or abs(a - b) <= Fraction(1, 10 ** 300)


def _scale_of(ma):
    m = Fraction(0)
    for t in ma.replace(',', ' ').split():
        try:
            m = max(m, abs(Fraction(t)))
        except (ValueError, ZeroDivisionError):
            pass
    return m or None


def _nums_close(ma, ia, scale=None):
    """Numbers agree within 1e-12 of the largest magnitude in the list (or of `scale`)."""
    xs, ys = ma.split(), ia.split()
    if scale is None:
        scale = _scale_of(ma)
    if len(xs) != len(ys):
        return False
    for x, y in zip(xs, ys):
        if ',' in x or ',' in y:
            px, py = x.split(','), y.split(',')
            if len(px) != len(py) or not all(_abs_close(p, q, scale) for p, q in zip(px, py)):
                return False
        elif not _abs_close(x, y, scale):
            return False
    return True


def _abs_close(x, y, scale):
    try:
        a, b = Fraction(x), Fraction(y)
    except (ValueError, ZeroDivisionError):
        return x == y
    if scale is None:
        return _close(a, b)
    return abs(a - b) <= Fraction(1, 10 ** 12) * scale


def _color_diffs(ms, is_):
    """Positions where two `r g b ; r g b ; ...` lists differ; None if not comparable."""
    a, b = ms.split(' ; '), is_.split(' ; ')
    if len(a) != len(b):
        return None
    return [i for i, (x, y) in enumerate(zip(a, b)) if x != y]


def _near_tie(model_rgb, impl_rgb, exact):
    """Channels differ by at most 1 and only where the exact value is within 1e-9 of a tie."""
    try:
        m = [int(t) for t in model_rgb.split()]
        i = [int(t) for t in impl_rgb.split()]
        ex = [Fraction(t) for t in exact.split()]
    except ValueError:
        return False
    if len(m) != 3 or len(i) != 3 or len(ex) != 3:
        return False
    for a, b, x in zip(m, i, ex):
        if a == b:
            continue
        if abs(a - b) != 1:
            return False
        fracpart = x - math.floor(x)
        if abs(fracpart - Fraction(1, 2)) > TIE_EPS:
            return False
    return True


def compare_color_float(ctx, cases):
    """Float stream of the `color` op."""
    drv = ctx.driver()
    lines = [color_line('color', c) for c in cases]
    outs = drv.run(lines)
    follow = []
    for c, line, mo in zip(cases, lines, outs):
        io = impl_color(c)
        ctx.compared += 1
        ctx.count('op:color_float')
        ctx.case(('color_float', line), nontrivial=not io.startswith('err:'))
        if mo == io:
            continue
        if mo.startswith('err:') or io.startswith('err:') or ' | ' not in mo or ' | ' not in io:
            ctx.disagree('color', {'case': c, 'line': line}, mo, io)
            continue
        md, mc = mo[3:].split(' | ', 1)
        idm, ic = io[3:].split(' | ', 1)
        width = None
        if c['dom']:
            width = max(abs(Fraction(max(c['dom'])) - Fraction(min(c['dom']))),
                        max(abs(Fraction(x)) for x in c['dom']) * Fraction(1, 10 ** 3))
        if not _nums_close(md, idm, width):
            ctx.disagree('color', {'case': c, 'line': line, 'part': 'domain'}, mo, io)
            continue
        diffs = _color_diffs(mc, ic)
        if diffs is None:
            ctx.disagree('color', {'case': c, 'line': line}, mo, io)
            continue
        if diffs:
            follow.append((c, line, mo, io, diffs))
    if follow:
        xs = drv.run([color_line('colorx', f[0]) for f in follow])
        for (c, line, mo, io, diffs), xo in zip(follow, xs):
            ex = xo[3:].split(' ; ') if xo.startswith('ok ') else []
            mc = mo[3:].split(' | ', 1)[1].split(' ; ')
            ic = io[3:].split(' | ', 1)[1].split(' ; ')
            for i in diffs:
                if i < len(ex) and _near_tie(mc[i], ic[i], ex[i]):
                    ctx.count('near_tie_rounding')
                    ctx.subclaim('float_stream_colour_equal_except_rounding_ties', True)
                else:
                    ctx.disagree('color', {'case': c, 'line': line, 'value': rat(c['vals'][i])}, mo, io)
                    break


def _few_bits(x):
    return x is not None and Fraction(x).denominator <= 1024 and abs(Fraction(x).numerator) < 2 ** 20


def step_exact(c):
    """True when the float accumulation of `Legend._frange` over the label positions is exact."""
    if c['vert']:
        return c['sh'] is None or _few_bits(c['sh'])
    if c['sw'] is not None:
        return _few_bits(c['sw'])
    return _few_bits(c['th'])            # default width of a horizontal legend = text_height * 5


def compare_legend(ctx, cases, line_fn=None, impl_fn=None, op='legend'):
    """`legend` op (and `gtype`, same answer layout): exact cases bit for bit, the others with the
    float rule."""
    drv = ctx.driver()
    line_fn = line_fn or legend_line
    impl_fn = impl_fn or impl_legend
    lines = [line_fn(c) for c in cases]
    outs = drv.run(lines)
    follow = []
    for c, line, mo in zip(cases, lines, outs):
        io = impl_fn(c)
        ctx.compared += 1
        ctx.count('op:%s_' % op + c['kind'] + ('_exact' if c['exact'] else '_float'))
        ctx.case((op, line), nontrivial=not io.startswith('err:'))
        if io.startswith('err:'):
            ctx.count('err_results')
        if mo == io:
            continue
        ms, is_ = mo.split(' | '), io.split(' | ')
        if len(ms) != 9 or len(is_) != 9:
            ctx.disagree(op, {'case': c, 'line': line}, mo, io)
            continue
        bad = None
        pend = []
        for k, (a, b) in enumerate(zip(ms, is_)):
            if a == b:
                continue
            name = ['head', 'numbers', 'segment_colors', 'value_colors', 'text', 'text_points',
                    'segment_length', 'mesh', 'color_range'][k]
            if name == 'text_points' and _nums_close(a, b):
                continue            # default text height is segment_height * 0.33 (inexact float)
            if name == 'numbers' and c['kind'] == 'cat' and _nums_close(a, b):
                continue            # categorised segment numbers are not used for colours or labels
            if c['exact']:
                bad = name
                break
            if name == 'numbers' and _nums_close(a, b):
                continue
            if name == 'text' and len(a.split(';')) == len(b.split(';')):
                ctx.count('float_text_not_compared')
                continue
            if name == 'color_range':
                pa, pb = a.split(' : '), b.split(' : ')
                if len(pa) == 3 and len(pb) == 3 and pa[1:] == pb[1:] and _nums_close(pa[0], pb[0]):
                    continue
            if name in ('segment_colors', 'value_colors'):
                d = _color_diffs(a, b)
                if d is not None:
                    pend.append((name, a, b, d))
                    continue
            if name == 'mesh':
                pa, pb = a.split(' : '), b.split(' : ')
                if len(pa) == 2 and len(pb) == 2 and pa[0] == pb[0]:
                    d = _color_diffs(pa[1], pb[1])
                    if d is not None and len(d) <= 2 * max(1, sum(len(p[3]) for p in pend)):
                        continue        # same colours as segment_colors (checked there)
            bad = name
            break
        if bad:
            ctx.disagree(op, {'case': c, 'line': line, 'part': bad}, mo, io)
        elif pend:
            follow.append((c, line, mo, io, ms, pend))
    # near-tie classification of colour differences on the float stream
    reqs = []
    for c, line, mo, io, ms, pend in follow:
        cr = ms[8].split(' : ')
        dom = [Fraction(t) for t in cr[0].split()]
        cols = [tuple(int(t) for t in x.split()) for x in cr[1].split(' ; ')]
        for name, a, b, d in pend:
            src = [Fraction(t) for t in ms[1].split()] if name == 'segment_colors' else \
                [Fraction(v) for v in c['vals']]
            vals = [src[i] for i in d]
            # the colour range of the model: its domain is already re-mapped; ask the blend on it
            reqs.append(((c, line, mo, io, name, a, b, d),
                         color_line('colorx', {'cont': cr[2] == '1', 'cols': cols,
                                               'dom': dom if len(dom) != 2 else [dom[0], dom[-1]],
                                               'vals': vals})))
    if reqs:
        xs = drv.run([r[1] for r in reqs])
        for ((c, line, mo, io, name, a, b, d), _), xo in zip(reqs, xs):
            ex = xo[3:].split(' ; ') if xo.startswith('ok ') else []
            ma, ib = a.split(' ; '), b.split(' ; ')
            for j, i in enumerate(d):
                if j < len(ex) and _near_tie(ma[i], ib[i], ex[j]):
                    ctx.count('near_tie_rounding')
                    ctx.subclaim('float_stream_colour_equal_except_rounding_ties', True)
                else:
                    ctx.disagree(op, {'case': c, 'line': line, 'part': name, 'index': i}, mo, io)
                    break


# ---------------------------------------------------------------------------------------------
# generators (plain numbers only; nothing here calls the code under test)


def gen_colors(rng, n=None):
    n = n if n is not None else rng.choice([2, 2, 3, 3, 4, 5, 6, 8, 10, 11, 13, 20])
    style = rng.random()
    cols = []
    for i in range(n):
        if style < 0.25:
            cols.append(tuple(rng.choice([0, 255, 128, 1, 254]) for _ in range(3)))
        elif style < 0.4 and cols and rng.random() < 0.5:
            cols.append(cols[-1])                      # repeated colour
        elif style < 0.55:
            base = i * 255 // max(1, n - 1)
            cols.append((base, 255 - base, rng.randrange(256)))   # monotone channels
        else:
            cols.append(tuple(rng.randrange(256) for _ in range(3)))
    return cols


def dyadic(rng, bits=6, scale_range=(-3, 8)):
    k = rng.randrange(*scale_range)
    return rng.randrange(-2 ** bits, 2 ** bits) * 2.0 ** k


def gen_color_exact(ctx, rng):
    """A colour range whose every float operation is exact + probe values."""
    n = rng.choice([1, 2, 2, 3, 3, 4, 5, 6, 8, 10, 11, 13, 20])
    cols = gen_colors(rng, n) if rng.random() > 0.05 else []
    ncol = len(cols) if cols else 10
    cont = rng.random() < 0.6
    kind = rng.choice(['two', 'two', 'per_colour', 'per_colour', 'fewer', 'single', 'zero_width',
                       'empty', 'too_many', 'dup_stops'])
    lo = dyadic(rng)
    gaps = None
    if kind == 'two':
        step = 2.0 ** rng.randrange(-4, 7)
        dom = [lo, lo + (ncol - 1) * step]
        stops = [lo + c * step for c in range(ncol)] if cont else dom
    elif kind in ('per_colour', 'fewer', 'too_many', 'dup_stops'):
        m = {'per_colour': ncol, 'fewer': max(1, rng.randrange(1, ncol + 1) - 1) if ncol > 1 else 1,
             'too_many': ncol + rng.randrange(1, 3), 'dup_stops': max(3, ncol - 1)}[kind]
        if kind == 'per_colour' and not cont:
            m = max(1, ncol - 1)
        gaps = [2.0 ** rng.randrange(-3, 6) for _ in range(m - 1)]
        if kind == 'dup_stops':
            for _ in range(rng.randrange(1, 3)):
                gaps[rng.randrange(len(gaps))] = 0.0
        dom = [lo]
        for g in gaps:
            dom.append(dom[-1] + g)
        stops = list(dom)
        if cont and len(dom) == 2 and ncol > 1:
            dom[1] = dom[0] + (ncol - 1) * gaps[0]         # a 2-value continuous domain is re-mapped
            stops = [dom[0] + c * gaps[0] for c in range(ncol)]
    elif kind == 'single':
        dom = [lo]
        stops = [lo]
    elif kind == 'zero_width':
        dom = [lo, lo]
        stops = [lo]
    else:
        dom = []
        if cont and ncol > 1 and (ncol - 1) not in (1, 2, 4, 8, 16):
            cont = False            # (0, 1) re-mapped over ncol colours is exact only for 2^j steps
        stops = [c / (ncol - 1) for c in range(ncol)] if cont and ncol > 1 else [0.0, 1.0]
    vals = []
    for a, b in zip(stops, stops[1:]):
        vals.append(a)
        if b > a:
            for _ in range(2):
                s = rng.randrange(1, 7)
                vals.append(a + (b - a) * rng.randrange(1, 2 ** s) / 2 ** s)
            vals.append(a + (b - a) / 1024)
            vals.append(b - (b - a) / 1024)
    vals.append(stops[-1])
    span = max(1.0, stops[-1] - stops[0])
    vals += [stops[0] - span / 1024, stops[-1] + span / 1024, stops[0] - 1000 * span, stops[-1] + 1000 * span]
    if rng.random() < 0.3:
        vals += [int(stops[0]), int(stops[-1]) + 1]       # integers are accepted too
    shown = list(dom)
    if rng.random() < 0.3:
        rng.shuffle(shown)                              # the setter sorts
    ctx.count('color_exact:%s:%s' % (kind, 'cont' if cont else 'seg'))
    ctx.count('color_exact:ncolors:%d' % (ncol if cols else 0))
    shape = rng.choice(SHAPES)
    ctx.count('shape:range:' + shape)
    return {'cont': cont, 'cols': cols, 'dom': shown, 'vals': vals, 'shape': shape}


def rand_float(rng):
    r = rng.random()
    if r < 0.25:
        return rng.uniform(-100, 100)
    if r < 0.45:
        return float(rng.randrange(-50, 50))
    if r < 0.6:
        return rng.uniform(-1, 1) * 10.0 ** rng.randrange(-60, 60)
    if r < 0.8:
        return round(rng.uniform(-500, 3000), rng.randrange(0, 4))
    return rng.uniform(0, 1)


def gen_color_float(ctx, rng):
    n = rng.choice([2, 2, 3, 4, 5, 7, 10, 11, 16, 20])
    cols = gen_colors(rng, n) if rng.random() > 0.05 else []
    ncol = len(cols) if cols else 10
    cont = rng.random() < 0.65
    lo = rand_float(rng)
    mag = max(abs(lo), 1e-300)
    width = mag * 10.0 ** rng.uniform(-2, 2) if rng.random() < 0.7 else abs(rand_float(rng)) + mag * 1e-2
    kind = rng.choice(['two', 'two', 'per_colour', 'fewer'])
    if kind == 'two':
        dom = [lo, lo + width]
    else:
        m = ncol if (kind == 'per_colour' and cont) else max(1, rng.randrange(1, ncol))
        cuts = sorted(rng.random() for _ in range(m - 1))
        if cuts:
            cuts[-1] = 1.0          # keep the overall width (a narrow 2-value domain would be re-mapped
            #                         with cancellation errors far above the rounding-tie tolerance)
        dom = [lo] + [lo + width * t for t in cuts]
    d0, d1 = min(dom), max(dom)
    vals = []
    for _ in range(12):
        vals.append(rng.uniform(d0, d1) if d1 > d0 else d0)
    for i in range(ncol):
        vals.append(d0 + (d1 - d0) * i / max(1, ncol - 1))       # near the re-mapped stops
        vals.append(d0 + (d1 - d0) * (i + 0.5) / max(1, ncol - 1))   # near the midpoints (ties)
    vals += list(dom) + [d0 - width * 0.01, d1 + width * 0.01, d0 - 10 * width, d1 + 10 * width]
    ctx.count('color_float:%s:%s' % (kind, 'cont' if cont else 'seg'))
    return {'cont': cont, 'cols': cols, 'dom': dom, 'vals': vals, 'shape': rng.choice(SHAPES)}


NAME_POOL = ['low', 'ok', 'high', 'Cold', 'Cool', 'Neutral', 'Warm', 'Hot', 'A', 'B', 'c-1', 'x_y', '10%']


DEFAULT_GRID = [(data, bounds, given_count, cat)
                for data in ('equal', 'varying')
                for bounds in ('neither', 'min', 'max', 'both', 'both_equal')
                for given_count in (False, True)
                for cat in (False, True)]


def gen_legend_defaults(ctx, rng, exact, cell=None):
    """Default resolution of `Legend.__init__`, as a full grid:
    data {all equal | varying} x bounds {neither | min only | max only | both | both with min == max}
    x segment_count {default | given} x {plain | categorised}; the given bounds lie on, below or above
    the data.  The single-segment default depends on the *resolved* min/max, not on the data."""
    data, bounds, given_count, cat = cell if cell is not None else rng.choice(DEFAULT_GRID)
    c = {'kind': 'cat' if cat else 'plain', 'cl': rng.random() < 0.3, 'vert': rng.random() < 0.6,
         'dc': 2, 'sh': None, 'sw': None, 'th': None, 'shape': rng.choice(SHAPES)}
    ctx.count('legend:defaults:%s:%s:%s:%s' % (data, bounds, 'count' if given_count else 'default',
                                                'cat' if cat else 'plain'))
    base = float(rng.randrange(-40, 40)) * rng.choice([1, 0.5, 0.25])
    if data == 'equal':
        vals = [base] * rng.randrange(1, 5)
    else:
        vals = [base + rng.randrange(0, 64) * 0.25 for _ in range(rng.randrange(2, 7))]
        vals[0], vals[-1] = base, base + 16.0
    lo, hi = min(vals), max(vals)
    if cat:
        # categorised parameters take min/max/count from their own domain, never from the data
        m = rng.choice([1, 2, 3])
        dom = sorted(set(base + rng.randrange(-8, 24) * 0.5 for _ in range(m)))
        c.update({'dom': dom, 'cols': gen_colors(rng, len(dom) + 1), 'names': None, 'cc': False,
                  'ils': None, 'vals': vals, 'exact': True})
        return c
    n = rng.choice([2, 3, 5, 6, 9, 11])
    cols = gen_colors(rng, n)
    use_default_cols = rng.random() < 0.25
    c['cols'] = None if use_default_cols else cols
    if use_default_cols:
        n = 10
    where = rng.choice(['on', 'off', 'off'])              # given bound = data extreme, or not
    step = 2.0 ** rng.randrange(-1, 3)
    gmin = lo if where == 'on' else lo - (n - 1) * step * rng.choice([1, 2])
    gmax = hi if where == 'on' else hi + (n - 1) * step * rng.choice([1, 2])
    c['min'] = c['max'] = None
    if bounds == 'min':
        c['min'] = gmin
    elif bounds == 'max':
        c['max'] = gmax
    elif bounds == 'both':
        c['min'], c['max'] = gmin, gmax
    elif bounds == 'both_equal':
        z = rng.choice([lo, hi, (lo + hi) / 2, lo - 1.0, hi + 1.0])
        c['min'] = c['max'] = z
    if rng.random() < 0.04 and bounds in ('min', 'max'):
        # data on the wrong side of the single given bound: rejected by the setter
        if bounds == 'min':
            c['min'] = hi + 1.0
        else:
            c['max'] = lo - 1.0
    c['count'] = rng.choice([1, 2, 3, 5, 9, 11, 17]) if given_count else None
    c['vals'] = vals
    c['ils'] = False
    c['ord'] = None
    rmin = c['min'] if c['min'] is not None else lo
    rmax = c['max'] if c['max'] is not None else hi
    cnt = c['count'] if c['count'] is not None else 11
    width = Fraction(rmax) - Fraction(rmin)
    # float arithmetic is exact when the colour step and the segment step are dyadic with few bits
    c['exact'] = bool(exact and (width == 0 or (
        (n - 1) in (1, 2, 4, 8, 16) and (cnt - 1) in (0, 1, 2, 4, 8, 16))))
    return c


def gen_legend(ctx, rng, exact, rare_known=False):
    """One legend case.  `rare_known`: visit the regions of the recorded findings (one-boundary
    categorised legends hit exactly at the boundary, inexact label steps) only rarely, so that the
    oracle's failure budget is not used up by them."""
    if rng.random() < 0.2:
        return gen_legend_defaults(ctx, rng, exact)
    cat = rng.random() < 0.3
    c = {'exact': exact, 'kind': 'cat' if cat else 'plain', 'shape': rng.choice(SHAPES)}
    ctx.count('shape:legend:' + c['shape'])
    c['cl'] = rng.random() < 0.4
    c['vert'] = rng.random() < 0.55
    c['dc'] = rng.choice([0, 1, 2, 2, 2, 3, 5])
    dims = rng.random()
    for key in ('sh', 'sw', 'th'):
        if dims < 0.45:
            c[key] = None
        elif exact or rng.random() < 0.5:
            c[key] = rng.choice([0.25, 0.5, 1, 2, 3, 0.125, 1.5, 8])
        else:
            c[key] = rng.choice([0.1, 0.3, 0.7, 1.1, 2.3, 0.01])
        if dims < 0.6 and key != 'sh':
            c[key] = None
    if cat:
        m = rng.choice([1, 1, 2, 2, 3, 4, 6, 9])
        if exact:
            lo = dyadic(rng)
            dom = [lo]
            for _ in range(m - 1):
                dom.append(dom[-1] + 2.0 ** rng.randrange(-2, 6) * rng.choice([1, 1, 1, 0]))
        else:
            dom = sorted(rand_float(rng) for _ in range(m))
        c['cols'] = gen_colors(rng, m + 1 + (rng.random() < 0.05))
        c['names'] = [rng.choice(NAME_POOL) + str(i) for i in range(m + 1)] if rng.random() < 0.5 else None
        if c['names'] and rng.random() < 0.05:
            c['names'] = c['names'][:-1]                 # malformed
        c['cc'] = rng.choice([None, False, False, True])
        c['ils'] = rng.choice([None, True, False])
        span = (dom[-1] - dom[0]) or 1.0
        vals = []
        for a, b in zip(dom, dom[1:]):
            vals += [a, (a + b) / 2, a + (b - a) / 4]
        vals += [dom[-1], dom[0] - span / 8, dom[-1] + span / 8, dom[0] - 100 * span]
        if not exact:
            vals += [rng.uniform(dom[0] - span, dom[-1] + span) for _ in range(5)]
        c['vals'] = vals
        c['vals'] = vals
        shown = list(dom)
        if rng.random() < 0.3:
            rng.shuffle(shown)
        c['dom'] = shown
        ctx.count('legend:cat:domain_len:%d' % m)
        ctx.count('legend:cat:%s' % ('cont_colors' if c['cc'] else 'segmented'))
        return c
    # plain parameters
    ncol = rng.choice([2, 2, 3, 5, 6, 9, 11, 17])
    use_default_cols = rng.random() < 0.25
    c['cols'] = None if use_default_cols else gen_colors(rng, ncol)
    if rng.random() < 0.03:
        c['cols'] = gen_colors(rng, 1)                   # malformed: a legend needs two colours
    n = 10 if use_default_cols else ncol
    count = rng.choice([None, None, 1, 2, 3, 5, 9, 17, rng.randrange(1, 21)])
    if rng.random() < 0.02:
        count = 0                                        # malformed
    single = rng.random() < 0.12
    if exact:
        t = rng.choice([1, 1, 2, 3, 5])
        cstep = t * 2.0 ** rng.randrange(-3, 5)
        mn = dyadic(rng, 5, (-2, 5))
        mx = mn + (n - 1) * cstep
        if count is not None and count > 1 and (count - 1) not in (1, 2, 4, 8, 16):
            count = rng.choice([2, 3, 5, 9, 17])
        if count is None and not single:
            # default 11 segments: tenths of the range must be exact and dyadic in colour steps
            if use_default_cols or (n - 1) not in (5, 10):
                count = rng.choice([2, 3, 5, 9])
            else:
                cstep = 5 * 2.0 ** rng.randrange(-1, 4)
                mx = mn + (n - 1) * cstep
        vals = [mn + cstep * (rng.randrange(0, (n - 1) * 8 + 1) / 8.0) for _ in range(rng.randrange(1, 8))]
    else:
        mn = rand_float(rng)
        mx = mn + abs(rand_float(rng)) + abs(mn) * 1e-2
        cstep = (mx - mn) / (n - 1)
        vals = [rng.uniform(mn, mx) for _ in range(rng.randrange(1, 8))]
        vals += [mn + cstep * (i + 0.5) for i in range(n - 1)][:6]
    if single:
        vals = [vals[0]] * rng.randrange(1, 4)
        c['min'] = c['max'] = None
        if rng.random() < 0.3:
            c['min'] = c['max'] = vals[0]
    else:
        mode = rng.random()
        if mode < 0.4:                                   # defaults derived from the data
            vals += [mn, mx]
            rng.shuffle(vals)
            c['min'] = c['max'] = None
        elif mode < 0.8:
            c['min'], c['max'] = mn, mx
            vals += [mn - (mx - mn) / 4, mx + (mx - mn) / 4]    # out of range values
        elif mode < 0.9:
            vals += [mx]
            c['min'], c['max'] = mn, None
        else:
            vals += [mn]
            c['min'], c['max'] = None, mx
        if rng.random() < 0.03 and c['min'] is not None and c['max'] is not None:
            c['min'], c['max'] = c['max'], c['min']      # malformed: min > max
        if rng.random() < 0.03 and c['max'] is not None and c['min'] is None:
            vals.append(c['max'] + 1.0)                  # data minimum above the given maximum?
            vals = [v + (c['max'] - mn) + 2.0 for v in vals]
    c['vals'] = vals
    c['count'] = count
    c['ils'] = rng.random() < 0.3
    c['ord'] = None
    if rng.random() < 0.25:
        keys = sorted(set(rng.randrange(-4, 12) for _ in range(rng.randrange(0, 7))))
        c['ord'] = [(k, rng.choice(NAME_POOL)) for k in keys]
        rng.shuffle(c['ord'])                            # dictionaries are not written in key order
        if exact and rng.random() < 0.6 and count:
            # integer segment numbers so that the dictionary is actually hit
            c['min'], c['max'] = -1, -1 + (count - 1)
            c['vals'] = [0, 1, -1]
            if (n - 1) not in (1, 2, 4, 8, 16) or (count - 1) not in (0, 1, 2, 4, 8, 16):
                c['exact'] = False
    ctx.count('legend:plain:count:%s' % ('default' if count is None else count))
    ctx.count('legend:plain:minmax:%s%s' % ('g' if c['min'] is not None else 'd',
                                              'g' if c['max'] is not None else 'd'))
    if single:
        ctx.count('legend:plain:single_value')
    ctx.count('legend:%s:%s' % ('vertical' if c['vert'] else 'horizontal',
                                'gradient' if c['cl'] else 'discrete'))
    return c


# ---------------------------------------------------------------------------------------------
# correspondence


def cont_exact_n(n):
    return (n - 1) in (1, 2, 4, 8, 16)


def correspondence(ctx):
    rng = ctx.rng
    # domain setter alone
    cases = []
    for _ in range(ctx.n(600, 6000)):
        n = rng.choice([1, 2, 3, 4, 5, 10, 20])
        k = rng.choice([0, 1, 2, 2, 2, 3, n, n, n + 1, max(1, n - 1)])
        dom = [dyadic(rng) for _ in range(k)]
        if k == 0 and cont_exact_n(n) is False:
            n = rng.choice([2, 3, 5, 9, 17])              # (0, 1) over n colours: exact steps only
        if k == 2:
            dom = [dom[0], dom[0] + (n - 1) * 2.0 ** rng.randrange(-3, 6) * rng.choice([0, 1, 1, 1])]
        rng.shuffle(dom)
        cases.append((rng.random() < 0.6, n, dom))

    def impl_domain(c):
        from ladybug.color import Color, ColorRange
        cr = ColorRange([Color(i, i, i) for i in range(c[1])], list(c[2]) or None, c[0])
        return 'ok ' + rats(cr.domain)

    core.compare_batch(ctx, 'domain', cases,
                       lambda c: 'domain %s %d %s' % (_b(c[0]), c[1], enc_list(c[2])), impl_domain,
                       key=lambda c: (c[0], c[1], tuple(c[2])))
    # colour look-up, exact stream
    cases = [gen_color_exact(ctx, rng) for _ in range(ctx.n(3000, 30000))]
    core.compare_batch(ctx, 'color', cases, lambda c: color_line('color', c), impl_color,
                       key=lambda c: color_line('color', c))
    # colour look-up, float stream
    compare_color_float(ctx, [gen_color_float(ctx, rng) for _ in range(ctx.n(2500, 25000))])
    # legends
    cases = [gen_legend(ctx, rng, True) for _ in range(ctx.n(3000, 25000))]
    for cell in DEFAULT_GRID:                              # every cell of the default-resolution grid
        for _ in range(ctx.n(6, 40)):
            cases.append(gen_legend_defaults(ctx, rng, True, cell))
    for op, inp in CORPUS:
        if op == 'legend':
            cases.append(_full_legend_case(inp))
    cases += [gen_legend(ctx, rng, False) for _ in range(ctx.n(2000, 20000))]
    compare_legend(ctx, cases)
    # graphic containers over the exact legends (their own legend + box-derived dimensions)
    gcases = []
    for c in cases:
        if c['exact'] and rng.random() < 0.35:
            r = rng.random()
            if r < 0.8:
                box = (float(rng.randrange(-5, 5)), float(rng.randrange(-5, 5)))
                box = box + (box[0] + rng.choice([1, 2, 8, 16, 10, 0.5]), box[1] + rng.choice([1, 4, 8, 32, 3]))
            elif r < 0.9:
                box = (0.0, 0.0, rng.choice([0.0, 8.0]), rng.choice([0.0, 4.0]))     # flat / empty boxes
            else:
                box = (4.0, 4.0, 0.0, 0.0)                                            # inverted box
            gcases.append((c, box))
    compare_graphic(ctx, gcases)
    # round 4: graphic containers with a data type (ordinal defaults from the unit description)
    tcases = [_gtype_full(inp) for inp in GTYPE_CORPUS]
    tcases += [gen_gtype(ctx, rng) for _ in range(ctx.n(1500, 12000))]
    compare_gtype(ctx, tcases)
    # histories on one object: the model's state machines against the real objects, step by step
    hist = [_full_par_case(inp) for op, inp in CORPUS if op == 'lhistory']
    hist += [gen_lhist(ctx, rng, rare_first=(i % 7 == 0)) for i in range(ctx.n(700, 7000))]
    compare_hist(ctx, 'lhist', hist, lhist_line, impl_lhist)
    chist = [dict(inp, cols=[tuple(x) for x in inp['cols']]) for op, inp in CORPUS if op == 'crhistory']
    chist += [gen_crhist(ctx, rng, rare_first=(i % 9 == 0)) for i in range(ctx.n(700, 7000))]
    compare_hist(ctx, 'crhist', chist, crhist_line, impl_crhist)
    # '%.nf' formatting of exact values
    fc = []
    for _ in range(ctx.n(1500, 30000)):
        x = rng.choice([dyadic(rng, 10, (-8, 8)), rand_float(rng), rng.randrange(-10 ** 6, 10 ** 6) / 8.0,
                        (2 * rng.randrange(-500, 500) + 1) / 2.0 ** rng.randrange(1, 5)])
        if x == 0:
            x = 0.0
        fc.append((x, rng.choice([0, 1, 2, 2, 3, 5])))
    core.compare_batch(ctx, 'fmt', fc, lambda c: 'fmt %s %d' % (rat(c[0]), c[1]),
                       lambda c: 'ok ' + ('%%.%df' % c[1]) % c[0], key=lambda c: (repr(c[0]), c[1]))
    ctx.subclaims.setdefault('float_stream_colour_equal_except_rounding_ties',
                             {'evaluations': 0, 'failures': 0})
    ctx.notes.append('near_tie_rounding = colour channels of the float stream that differ by 1 from the exact '
                     'model because the exact value is within 1e-9 of a rounding tie: %d'
                     % ctx.counters.get('near_tie_rounding', 0))


# ---------------------------------------------------------------------------------------------
# property oracle: the statement of C15 evaluated on the real classes, independent of the model


def _rgb(c):
    return (c.r, c.g, c.b)


def _between(x, a, b):
    return min(a, b) <= x <= max(a, b)


def check_range(inp, live=None):
    """Colour range clauses.  inp: cols, dom, cont, probes (number of probes between stops).
    `live`: evaluate the clauses on this existing range (whose colours / stops `inp` repeats)."""
    from ladybug.color import Color, ColorRange
    cols = [tuple(c) for c in inp['cols']]
    dom_in = list(inp['dom'])
    cont = bool(inp['cont'])
    sig = {'cont': cont}
    try:
        cr = live if live is not None else ColorRange([Color(*c) for c in cols], dom_in, cont)
    except Exception as e:
        return {'required': 'a colour range', 'observed': 'constructor raises %s' % type(e).__name__,
                'sig': dict(sig, clause='construct')}
    n = len(cols)
    dom = list(cr.domain)
    lo, hi = min(dom_in), max(dom_in)

    def col(v):
        return _rgb(cr.color(v))

    def fail(clause, v, req, obs, **kw):
        return {'required': req, 'observed': obs, 'sig': dict(sig, clause=clause, **kw),
                'value': v}

    try:
        if cont and len(dom_in) == 2:
            # the 2-value domain is re-mapped to one evenly spaced stop per colour
            if len(dom) != n:
                return fail('remap_length', None, n, len(dom))
            for k, d in enumerate(dom):
                want = Fraction(lo) + k * (Fraction(hi) - Fraction(lo)) / (n - 1)
                if abs(Fraction(d) - want) > Fraction(1, 10 ** 9) * max(abs(Fraction(lo)), abs(Fraction(hi)), 1e-300):
                    return fail('remap_even', None, float(want), d, stop=k)
            if dom[0] != lo:
                return fail('remap_first', None, lo, dom[0])
        elif sorted(dom_in) != dom:
            return fail('domain_kept', None, sorted(dom_in), dom)
        # clamping beyond the ends
        width = (dom[-1] - dom[0]) or max(abs(dom[0]), 1.0)
        for v in (dom[0] - width * 1e-6, dom[0] - width, dom[0] - 1e6 * width):
            if v < dom[0] and col(v) != cols[0]:
                return fail('clamp_low', v, cols[0], col(v))
        for v in (dom[-1] + width * 1e-6, dom[-1] + width, dom[-1] + 1e6 * width):
            if v > dom[-1] and col(v) != cols[-1]:
                return fail('clamp_high', v, cols[-1], col(v))
        if len(set(dom)) == 1:
            # zero-width (or single boundary) domain: the boundary itself must still get a colour
            v = dom[0]
            try:
                c = col(v)
            except Exception as e:
                return fail('single_boundary' if len(dom) == 1 else 'zero_width', v, 'a colour of the range',
                            'raises %s' % type(e).__name__, error=type(e).__name__)
            if c not in cols:
                return fail('zero_width', v, 'a colour of the range', c)
            return None
        strictly = all(a < b for a, b in zip(dom, dom[1:]))
        if cont:
            if len(dom) != n:
                return None             # fewer stops than colours: outside the quantifier
            for k, d in enumerate(dom):
                if strictly and col(d) != cols[k]:
                    return fail('stop_exact', d, cols[k], col(d), stop='first' if k == 0 else (
                        'last' if k == n - 1 else 'inner'))
            for k in range(n - 1):
                a, b = dom[k], dom[k + 1]
                if not a < b:
                    continue
                m = int(inp.get('probes', 12))
                vs = sorted(set([a + (b - a) * i / m for i in range(m + 1)] +
                                [a + (b - a) * inp.get('t', 0.37)]))
                vs = [v for v in vs if a <= v <= b]
                prev = None
                for v in vs:
                    c = col(v)
                    for ch in range(3):
                        if not _between(c[ch], cols[k][ch], cols[k + 1][ch]):
                            return fail('between', v, 'channel %d between %d and %d' % (
                                ch, cols[k][ch], cols[k + 1][ch]), c, interval='last' if k == n - 2 else 'inner')
                        if prev is not None:
                            d_ = cols[k + 1][ch] - cols[k][ch]
                            if (d_ >= 0 and c[ch] < prev[ch]) or (d_ <= 0 and c[ch] > prev[ch]):
                                return fail('monotone', v, 'channel %d moves from %d to %d' % (
                                    ch, cols[k][ch], cols[k + 1][ch]), (prev, c))
                    prev = c
        else:
            # segmented: the colour of the interval the value falls in
            for k in range(len(dom) - 1):
                a, b = dom[k], dom[k + 1]
                if not a < b:
                    continue
                for t in (0.001, 0.25, 0.5, inp.get('t', 0.37), 0.999):
                    v = a + (b - a) * t
                    if a < v < b and col(v) != cols[k + 1]:
                        return fail('segmented_interval', v, cols[k + 1], col(v))
                for v, ok in ((a, (cols[k], cols[k + 1])),
                              (b, (cols[k + 1], cols[k + 2] if k + 2 < n else cols[-1]))):
                    if col(v) not in ok:
                        return fail('segmented_boundary', v, ok, col(v))
    except Exception as e:
        return {'required': 'a colour', 'observed': 'raises %s: %s' % (type(e).__name__, e),
                'sig': dict(sig, clause='exception', error=type(e).__name__)}
    return None


def _full_legend_case(inp):
    """A corpus legend with every protocol field filled in (tolerant comparison)."""
    c = dict(inp)
    c.setdefault('exact', False)
    for k in ('min', 'max', 'count', 'cols', 'ord', 'sh', 'sw', 'th', 'names', 'cc', 'ils'):
        c.setdefault(k, None)
    if c['kind'] == 'plain' and c['ils'] is None:
        c['ils'] = False
    if c.get('cols') is not None:
        c['cols'] = [tuple(x) for x in c['cols']]
    if c.get('ord') is not None:
        c['ord'] = [tuple(x) for x in c['ord']]
    if c.get('names') is not None:
        c['names'] = [x.replace(' ', '_') for x in c['names']]     # tokens of the line protocol
    return c


def check_legend(inp):
    from ladybug.legend import Legend, LegendParametersCategorized
    from ladybug.graphic import GraphicContainer
    from ladybug_geometry.geometry3d.pointvector import Point3D
    c = dict(inp)
    c.setdefault('exact', False)
    for k in ('min', 'max', 'count', 'cols', 'ord', 'sh', 'sw', 'th', 'names', 'cc', 'ils'):
        c.setdefault(k, None)
    if c['kind'] == 'plain' and c['ils'] is None:
        c['ils'] = False
    if c.get('ord') is not None:
        c['ord'] = [tuple(x) for x in c['ord']]
    sig = {'kind': c['kind'], 'vertical': bool(c['vert'])}
    vals = list(c['vals'])
    try:
        lp = make_par(c)
        lg = Legend(vals, lp)
    except AssertionError:
        return None                      # rejected input (checked by the correspondence)
    par = lg.legend_parameters
    cat = isinstance(par, LegendParametersCategorized)

    def fail(clause, req, obs, **kw):
        return {'required': req, 'observed': obs, 'sig': dict(sig, clause=clause, **kw)}

    n = par.segment_count
    # defaults derive from the data
    if not cat:
        if c['min'] is None and par.min != min(vals):
            return fail('default_min', min(vals), par.min)
        if c['max'] is None and par.max != max(vals):
            return fail('default_max', max(vals), par.max)
        if c['min'] is None and c['max'] is None and c['count'] is None and min(vals) == max(vals):
            if n != 1 or tuple(lg.segment_numbers) != (vals[0],):
                return fail('single_value', (1, (vals[0],)), (n, tuple(lg.segment_numbers)))
        if c['count'] is not None and n != c['count']:
            return fail('segment_count', c['count'], n)
        if c['min'] is not None and par.min != c['min']:
            return fail('given_min', c['min'], par.min)
        if c['max'] is not None and par.max != c['max']:
            return fail('given_max', c['max'], par.max)
        if c['count'] is None:
            # a defaulted count is 11, or 1 for a legend that describes a single value, i.e. whose
            # resolved minimum and maximum coincide (not: whose data happen to be constant)
            want = 1 if par.min == par.max else 11
            if n != want:
                return fail('default_segment_count', want, n,
                            data='equal' if min(vals) == max(vals) else 'varying',
                            bounds=('min' if c['min'] is not None else '') + ('max' if c['max'] is not None else ''))
    else:
        dom = sorted(float(x) for x in c['dom'])
        if (par.min, par.max, n) != (dom[0], dom[-1], len(dom) + 1):
            return fail('categorised_bounds', (dom[0], dom[-1], len(dom) + 1), (par.min, par.max, n))
    # segment numbers run evenly from min to max
    nums = list(lg.segment_numbers)
    if len(nums) != n:
        return fail('numbers_length', n, len(nums))
    if nums[0] != par.min:
        return fail('numbers_first', par.min, nums[0])
    scale = max(abs(Fraction(par.min)), abs(Fraction(par.max)), Fraction(1, 10 ** 300))
    for i, x in enumerate(nums):
        want = Fraction(par.min) + (i * (Fraction(par.max) - Fraction(par.min)) / (n - 1) if n > 1 else 0)
        if abs(Fraction(x) - want) > Fraction(1, 10 ** 9) * scale:
            return fail('numbers_even', float(want), x, index=i)
    # one label, one colour, one text position per segment
    try:
        text, scol, pos = lg.segment_text, lg.segment_colors, lg.segment_text_location
    except Exception as e:
        return fail('segments_raise', 'labels, colours and positions', 'raises %s' % type(e).__name__,
                    error=type(e).__name__)
    if len(text) != n:
        return fail('text_count', n, len(text))
    if len(scol) != n:
        return fail('colour_count', n, len(scol))
    if len(pos) != n:
        return fail('text_positions_count', n, len(pos))
    # the value colours are the colour-range colours of the values, in order
    try:
        cr = lg.color_range
        vc = lg.value_colors
    except Exception as e:
        return fail('value_colors_raise', 'one colour per value', 'raises %s' % type(e).__name__,
                    error=type(e).__name__, domain_len=len(c['dom']) if cat else 2)
    if len(vc) != len(vals):
        return fail('value_colors_length', len(vals), len(vc))
    for i, v in enumerate(vals):
        if _rgb(vc[i]) != _rgb(cr.color(v)):
            return fail('value_colors_order', _rgb(cr.color(v)), _rgb(vc[i]), index=i)
    gc = GraphicContainer(vals, Point3D(0, 0, 0), Point3D(1, 1, 0), lp)
    if [_rgb(x) for x in gc.value_colors] != [_rgb(x) for x in vc]:
        return fail('graphic_value_colors', [_rgb(x) for x in vc], [_rgb(x) for x in gc.value_colors])
    # segment colours: the colour of each segment number (plain) / the own colours (categorised)
    if cat:
        given = [tuple(x) for x in c['cols']]
        if [_rgb(x) for x in scol] != given or [_rgb(x) for x in cr.colors] != given:
            return fail('categorised_colours', given, [_rgb(x) for x in scol])
        if list(cr.domain) != dom and not (cr.continuous_colors and len(dom) == 2):
            return fail('categorised_domain', dom, list(cr.domain))
        if cr.continuous_colors != bool(c['cc']):
            return fail('categorised_flag', bool(c['cc']), cr.continuous_colors)
        if c['names'] is not None and list(text) != [str(x) for x in c['names']]:
            return fail('categorised_names', c['names'], list(text))
        if c['names'] is None and tuple(text) != _expected_names(par):
            return fail('categorised_generated_names', list(_expected_names(par)), list(text))
        if not c['cc']:
            for i, v in enumerate(vals):
                want = None
                if v < dom[0]:
                    want = given[0]
                elif v > dom[-1]:
                    want = given[-1]
                else:
                    for k in range(len(dom) - 1):
                        if dom[k] < v < dom[k + 1]:
                            want = given[k + 1]
                if want is not None and _rgb(vc[i]) != want:
                    return fail('categorised_value_colour', want, _rgb(vc[i]), index=i)
    else:
        for i, x in enumerate(nums):
            if _rgb(scol[i]) != _rgb(cr.color(x)):
                return fail('segment_colours', _rgb(cr.color(x)), _rgb(scol[i]), index=i)
        if par.min < par.max:
            given = [_rgb(x) for x in par.colors]
            if _rgb(scol[0]) != given[0] or (n > 1 and _rgb(scol[-1]) != given[-1]):
                return fail('segment_colour_ends', (given[0], given[-1]), (_rgb(scol[0]), _rgb(scol[-1])))
    # the mesh has one cell per segment (one fewer for gradient legends)
    cells = n - 1 if par.continuous_legend else n
    if lg.segment_length != cells:
        return fail('segment_length', cells, lg.segment_length)
    if cells >= 1:
        try:
            m2, m3 = lg.segment_mesh_scene_2d, lg.segment_mesh
        except Exception as e:
            return fail('mesh_raise', '%d cells' % cells, 'raises %s' % type(e).__name__,
                        error=type(e).__name__)
        if len(m2.faces) != cells or len(m3.faces) != cells:
            return fail('mesh_cells', cells, (len(m2.faces), len(m3.faces)))
    return None


def check_case(op, inp):
    if op == 'range':
        return check_range(inp)
    if op == 'legend':
        return check_legend(inp)
    if op == 'lhistory':
        return check_lhistory(inp)
    if op == 'crhistory':
        return check_crhistory(inp)
    if op == 'process_order':
        return check_process_order(inp)
    if op == 'gtype':
        return check_gtype(inp)
    if op == 'shapes':
        return check_shapes(inp)
    if op == 'extra':
        return check_extra(inp)
    raise ValueError('unknown op ' + op)


replay = check_case

# fixed corpus: literal cases incl. the inputs of the repaired defects (one-boundary domains,
# float-accumulated label positions) and the default-resolution corners
CORPUS = [
    ('range', {'cols': [[75, 107, 169], [245, 239, 103], [234, 38, 0]], 'dom': [100, 2000], 'cont': True}),
    ('range', {'cols': [[0, 0, 255], [0, 255, 0], [255, 0, 0]], 'dom': [300, 2000], 'cont': False}),
    ('range', {'cols': [[0, 0, 0], [255, 255, 255]], 'dom': [5, 5], 'cont': True}),
    ('range', {'cols': [[10, 200, 30], [250, 0, 30], [0, 0, 31], [9, 9, 9]], 'dom': [-1, 0, 0.5, 8], 'cont': True}),
    ('range', {'cols': [[0, 0, 255], [0, 255, 0]], 'dom': [100], 'cont': False}),          # repaired defect
    ('legend', {'kind': 'plain', 'vals': [0, 1, 2, 3, 4, 5, 6, 7, 8, 9], 'count': 6, 'cl': False,
                'vert': True, 'dc': 2}),
    ('legend', {'kind': 'plain', 'vals': [3, 3], 'cl': False, 'vert': True, 'dc': 2}),
    ('legend', {'kind': 'plain', 'vals': [-0.5, 0, 0.5], 'min': -1, 'max': 1, 'count': 3, 'cl': True,
                'vert': False, 'dc': 2, 'ord': [[-1, 'Cool'], [0, 'Neutral'], [1, 'Warm']]}),
    ('legend', {'kind': 'cat', 'vals': [100, 300, 500, 1000, 2000, 3000], 'dom': [300, 2000],
                'cols': [[0, 0, 255], [0, 255, 0], [255, 0, 0]], 'names': ['low', 'desired', 'too much'],
                'cc': False, 'cl': False, 'vert': True, 'dc': 2}),
    # default resolution: constant data on explicit scales, varying data on a zero-width scale
    ('legend', {'kind': 'plain', 'vals': [5, 5, 5, 5], 'min': 0, 'max': 10, 'cl': False, 'vert': True, 'dc': 2}),
    ('legend', {'kind': 'plain', 'vals': [5, 5, 5, 5], 'min': 0, 'cl': False, 'vert': True, 'dc': 2}),
    ('legend', {'kind': 'plain', 'vals': [5, 5, 5, 5], 'max': 10, 'cl': True, 'vert': False, 'dc': 2}),
    ('legend', {'kind': 'plain', 'vals': [5, 5, 5, 5], 'min': 5, 'max': 5, 'cl': False, 'vert': True, 'dc': 2}),
    ('legend', {'kind': 'plain', 'vals': [5, 5, 5, 5], 'min': 5, 'cl': False, 'vert': True, 'dc': 2}),
    ('legend', {'kind': 'plain', 'vals': [5, 5, 5, 5], 'min': 0, 'max': 10, 'count': 4, 'cl': False,
                'vert': True, 'dc': 2}),
    ('legend', {'kind': 'plain', 'vals': [1, 2, 3, 4], 'min': 2, 'max': 2, 'cl': False, 'vert': True, 'dc': 2}),
    ('legend', {'kind': 'plain', 'vals': [1, 2, 3, 4], 'min': 2, 'max': 2, 'count': 5, 'cl': False,
                'vert': True, 'dc': 2}),
    ('legend', {'kind': 'plain', 'vals': [1, 2, 3, 4], 'min': 1, 'cl': False, 'vert': True, 'dc': 2}),
    ('legend', {'kind': 'plain', 'vals': [1, 2, 3, 4], 'max': 4, 'cl': False, 'vert': False, 'dc': 2}),
    ('legend', {'kind': 'cat', 'vals': [5, 5, 5], 'dom': [2, 8], 'cols': [[0, 0, 255], [0, 255, 0], [255, 0, 0]],
                'cl': False, 'vert': True, 'dc': 2}),
    ('legend', {'kind': 'cat', 'vals': [50, 100, 150], 'dom': [100], 'cols': [[0, 0, 255], [0, 255, 0]],
                'cl': False, 'vert': True, 'dc': 2}),                                      # repaired defect
    ('legend', {'kind': 'plain', 'vals': [0, 5], 'min': 0, 'max': 5, 'count': 6, 'cl': False,
                'vert': True, 'dc': 2, 'sh': 0.1}),                                        # repaired defect
    ('legend', {'kind': 'plain', 'vals': [0, 5], 'min': 0, 'max': 5, 'count': 6, 'cl': False,
                'vert': False, 'dc': 2, 'sw': 0.1}),                                       # repaired defect
    # round 3: histories on one object (inputs of the defects repaired by C15_colors_setter_domain_check
    # and C15_rejected_setters_keep_state, and the order-of-operations classes)
    ('crhistory', {'cont': True, 'cols': [], 'dom': [0, 144], 'ops': [
        ['r', 64], ['c', [[0, 0, 255], [0, 255, 0], [255, 0, 0]]], ['r', 64], ['r', 144], ['r', 72], ['s']]}),
    ('crhistory', {'cont': True, 'cols': [[0, 0, 0], [128, 128, 128], [255, 255, 255]], 'dom': [0, 10, 20], 'ops': [
        ['r', 10], ['c', [[255, 0, 0], [0, 0, 255]]], ['r', 15], ['c', [[255, 0, 0], [0, 255, 0], [0, 0, 255]]],
        ['r', 10], ['r', 5], ['u'], ['r', 5], ['d', [0, 1, 2, 3]], ['r', 15], ['s']]}),
    ('crhistory', {'cont': True, 'cols': [[0, 0, 0], [255, 255, 255]], 'dom': [0, 16], 'ops': [
        ['r', 8], ['c', [[255, 0, 0], [0, 255, 0], [0, 0, 255]]], ['s'], ['r', 8], ['r', 4], ['c', []], ['s']]}),
    ('lhistory', {'kind': 'cat', 'dom': [300, 2000], 'cols': [[0, 0, 255], [0, 255, 0], [255, 0, 0]],
                  'cl': False, 'vert': True, 'dc': 2, 'ops': [
        ['op'], ['b', [100, 300, 500, 1000, 2000, 3000]], ['ol'], ['sl', 'dom', [500, 1500]], ['ol'],
        ['sl', 'dom', [1, 2, 3]], ['ol'], ['sl', 'cols', [[0, 0, 255], [0, 255, 0]]], ['ol'],
        ['sl', 'names', ['a']], ['ol'], ['sl', 'dc', 0], ['sl', 'ils', False], ['ol'], ['sp', 'dc', 0], ['op'],
        ['b', [100, 3000]], ['ol']]}),
    ('lhistory', {'kind': 'plain', 'min': 0, 'max': 9, 'count': 4, 'cl': False, 'vert': True, 'dc': 2, 'ops': [
        ['b', [0, 3, 6, 9, 4.5]], ['ol'], ['sl', 'min', 50], ['ol'], ['sl', 'max', -5], ['ol'],
        ['sl', 'cols', [[1, 2, 3]]], ['ol'], ['sp', 'min', 50], ['sp', 'cols', [[1, 2, 3]]], ['op'],
        ['b', [0, 9]], ['ol'], ['sl', 'count', 0], ['sl', 'sh', 0], ['ol'], ['dl'], ['ol'], ['tl'], ['ol']]}),
    ('lhistory', {'kind': 'plain', 'min': 0, 'cl': False, 'vert': True, 'dc': 2,
                  'cols': [[0, 0, 255], [0, 128, 255], [0, 255, 0], [255, 255, 0], [255, 128, 0], [255, 0, 0]], 'ops': [
        ['b', [2.5, 5, 10]], ['ol'], ['sp', 'min', None], ['sp', 'max', 0], ['b', [-10, -5, -2.5]], ['ol'],
        ['b', [-5]], ['ol'], ['g', [0, 0, 8, 4], [-10, 0]], ['ol'], ['sl', 'max', 0.0], ['sl', 'min', 0], ['ol']]}),
]


def _oracle_cases(ctx):
    rng = ctx.rng
    for op, inp in CORPUS:
        yield op, inp
    big = ctx.searching or not ctx.quick
    for _ in range(8000 if big else 1500):
        n = rng.choice([2, 2, 3, 4, 5, 6, 8, 10, 13, 20])
        cols = [list(x) for x in gen_colors(rng, n)]
        cont = rng.random() < 0.6
        r = rng.random()
        lo = rand_float(rng)
        width = max(abs(lo), 1e-30) * 10.0 ** rng.uniform(-2, 2)
        if r < 0.45:
            dom = [lo, lo + width]
            if not cont and n < 3:
                continue
        elif r < 0.5:
            dom = [lo, lo]                                 # zero width
            if not cont and n < 3:
                continue
        elif r < 0.6:
            dom = [float(rng.randrange(-20, 20))]
            dom.append(dom[0] + (n - 1) * rng.choice([1, 2, 0.5, 10]))
            if not cont and n < 3:
                continue
        elif r < 0.67:
            # numeric edges (kind h): absolute widths 1e-12 .. 1e+16 around 0 / small / large offsets
            lo = rng.choice([0.0, 0.0, 1.0, -2.0, 2e-9, 1e6, -1e12])
            k = rng.randrange(-12, 17)
            width = max(10.0 ** k * rng.choice([1, 2, 5]), abs(lo) * 1e-6)
            dom = [lo, lo + width]
            ctx.count('oracle_range:abs_width:1e%+03d' % (3 * (k // 3)))
            if not cont and n < 3:
                continue
        else:
            m = n if cont else rng.randrange(1, n)
            dom = sorted(set([lo] + [lo + width * rng.random() for _ in range(m - 1)]))
            if cont and len(dom) != n:
                continue
            if len(dom) == 1:
                ctx.count('oracle_range:single_boundary')
        if rng.random() < 0.2:
            rng.shuffle(dom)
        ctx.count('oracle_range:%s:%d_stops' % ('cont' if cont else 'seg', min(len(dom), 3)))
        count_branches(ctx, 'range', {'cont': cont, 'dom': dom})
        yield 'range', {'cols': cols, 'dom': dom, 'cont': cont, 'probes': 50 if rng.random() < 0.3 else 12,
                        't': rng.random()}
    for cell in DEFAULT_GRID:
        for _ in range(30 if big else 5):
            c = gen_legend_defaults(ctx, rng, False, cell)
            c = {k: v for k, v in c.items() if k != 'exact'}
            if c.get('cols') is not None:
                c['cols'] = [list(x) for x in c['cols']]
            yield 'legend', c
    for _ in range(8000 if big else 1500):
        c = gen_legend(ctx, rng, rng.random() < 0.4)
        c = {k: v for k, v in c.items() if k != 'exact'}
        if c.get('cols') is not None:
            c['cols'] = [list(x) for x in c['cols']]
        if c.get('ord') is not None:
            c['ord'] = [list(x) for x in c['ord']]
        yield 'legend', c
    for op, inp in _history_cases(ctx, 2500 if big else 380):
        yield op, inp
    for op, inp in _round4_cases(ctx):
        yield op, inp


def _jsonable(c):
    import json
    return json.loads(json.dumps({k: v for k, v in c.items() if k != 'exact'}))


def _history_cases(ctx, n):
    rng = ctx.rng
    for i in range(n):
        yield 'lhistory', _jsonable(gen_lhist(ctx, rng, rare_first=(i % 7 == 0)))
    for i in range(n):
        yield 'crhistory', _jsonable(gen_crhist(ctx, rng, rare_first=(i % 9 == 0)))


def _order_pool(ctx):
    """A slice of the oracle stream for the fresh-interpreter runs: the corpus + generated cases of
    every op (plain one-shot cases and histories)."""
    rng = ctx.rng
    big = ctx.searching or not ctx.quick
    pool = [(op, inp) for op, inp in CORPUS]
    k = 0
    for op, inp in _oracle_cases_plain(ctx, 260 if big else 90):
        pool.append((op, _jsonable(inp)))
        k += 1
    for op, inp in _history_cases(ctx, 160 if big else 60):
        pool.append((op, inp))
    for inp in GTYPE_CORPUS[:-1]:
        pool.append(('gtype', inp))
    for _ in range(120 if big else 40):
        c = gen_gtype(ctx, rng)
        pool.append(('gtype', _jsonable({k: v for k, v in c.items() if k not in ('exact', '_ud')})))
    for _ in range(60 if big else 25):
        pool.append(('extra', _jsonable(gen_legend(ctx, rng, True))))
    return pool


def _oracle_cases_plain(ctx, n):
    rng = ctx.rng
    for _ in range(n):
        ncol = rng.choice([2, 3, 5, 10, 20])
        cols = [list(x) for x in gen_colors(rng, ncol)]
        cont = rng.random() < 0.6
        lo = float(rng.randrange(-50, 50))
        dom = [lo, lo + rng.choice([0.0, 1.0, 9.0, 144.0])]
        if not cont and ncol < 3:
            continue
        yield 'range', {'cols': cols, 'dom': dom, 'cont': cont, 'probes': 12, 't': rng.random()}
    for cell in DEFAULT_GRID:
        for _ in range(max(1, n // 40)):
            c = gen_legend_defaults(ctx, rng, False, cell)
            if c.get('cols') is not None:
                c['cols'] = [list(x) for x in c['cols']]
            yield 'legend', c
    for _ in range(n):
        c = gen_legend(ctx, rng, rng.random() < 0.4)
        if c.get('cols') is not None:
            c['cols'] = [list(x) for x in c['cols']]
        if c.get('ord') is not None:
            c['ord'] = [list(x) for x in c['ord']]
        yield 'legend', c


def oracle(ctx):
    run_oracle_cases(ctx, _oracle_cases(ctx), check_case)
    process_orders(ctx, _order_pool(ctx))



# ---------------------------------------------------------------------------------------------
# round 3: histories on ONE object, refused operations, consumers, process order
#
# Exact worlds: every generated bound / value / stop is a dyadic number chosen so that the float
# arithmetic of the code is exact (colour step a power of two, segment step dyadic), hence histories
# are compared bit for bit.  World 'pow2': 2/3/5/9/17 colours, 1/2/3/5/9/17 segments, widths 16*2^k;
# 'tens': 6/11 colours, default (11)/2/3/6/11 segments, widths 10*2^k; 'nines': the default colour set
# (10 colours), 1/2/3/5/9/17 segments, widths 9*2^k.

WORLDS = {
    'pow2': {'ncols': [2, 3, 5, 9, 17], 'counts': [1, 2, 3, 5, 9, 17],
             'widths': [16 * 2.0 ** k for k in range(-2, 4)]},
    'tens': {'ncols': [6, 11], 'counts': [None, None, 2, 3, 6, 11],
             'widths': [10 * 2.0 ** k for k in range(-1, 4)]},
    'nines': {'ncols': [None, None, 10], 'counts': [1, 2, 3, 5, 9, 17],
              'widths': [9 * 2.0 ** k for k in range(-2, 4)]},
}

FIELD_ATTR = {'min': 'min', 'max': 'max', 'count': 'segment_count', 'cols': 'colors',
              'cl': 'continuous_legend', 'vert': 'vertical', 'dc': 'decimal_count',
              'ils': 'include_larger_smaller', 'ord': 'ordinal_dictionary', 'sh': 'segment_height',
              'sw': 'segment_width', 'th': 'text_height', 'dom': 'domain', 'names': 'category_names',
              'cc': 'continuous_colors'}
BAD_VALUE = {'min': 'x', 'max': 'x', 'count': 2.5, 'cols': 5, 'cl': 'yes', 'vert': 'yes', 'dc': 1.5,
             'ord': [1], 'sh': 'x', 'sw': 'x', 'th': 'x', 'dom': 5, 'names': 5, 'cc': 'yes'}


def enc_ord(v):
    if v is None:
        return 'none'
    return ('%d %s' % (len(v), ' '.join('%d %s' % (k, t) for k, t in v))) if v else '0'


def enc_field(f, v):
    if f in ('min', 'max', 'sh', 'sw', 'th'):
        return '%s %s' % (f, opt(v))
    if f in ('count', 'dc'):
        return '%s %s' % (f, opt(v, str))
    if f == 'cols':
        return 'cols ' + ('none' if v is None else enc_cols(v))
    if f in ('cl', 'vert', 'ils', 'cc'):
        return '%s %s' % (f, opt(v, _b))
    if f == 'ord':
        return 'ord ' + enc_ord(v)
    if f == 'dom':
        return 'dom ' + enc_list(v)
    if f == 'names':
        return 'names ' + ('none' if v is None else ('%d %s' % (len(v), ' '.join(v))).strip())
    if f == 'bad':
        return 'bad ' + v
    raise ValueError(f)


def enc_lop(o):
    k = o[0]
    if k in ('sp', 'sl'):
        return '%s %s' % (k, enc_field(o[1], o[2]))
    if k == 'b':
        return 'b ' + enc_list(o[1])
    if k == 'g':
        return 'g %s %s' % (rats(o[1]), enc_list(o[2]))
    return k


def lhist_line(c):
    if c['kind'] == 'plain':
        cols = 'none' if c['cols'] is None else enc_cols(c['cols'])
        head = 'lhist plain %s %s %s %s %s %s %d %s %s %s %s %s' % (
            opt(c['min']), opt(c['max']), opt(c['count'], str), cols, _b(c['cl']), _b(c['vert']), c['dc'],
            _b(c['ils']), enc_ord(c['ord']), opt(c['sh']), opt(c['sw']), opt(c['th']))
    else:
        names = 'none' if c['names'] is None else '%d %s' % (len(c['names']), ' '.join(c['names']))
        head = 'lhist cat %s %s %s %s %s %s %d %s %s %s %s' % (
            enc_list(c['dom']), enc_cols(c['cols']), names, opt(c['cc'], _b), _b(c['cl']), _b(c['vert']),
            c['dc'], opt(c['ils'], _b), opt(c['sh']), opt(c['sw']), opt(c['th']))
    return '%s %d %s' % (head, len(c['ops']), ' '.join(enc_lop(o) for o in c['ops']))


def enc_crop(o):
    k = o[0]
    if k == 'c':
        return 'c ' + enc_cols(o[1])
    if k == 'd':
        return 'd ' + enc_list(o[1])
    if k == 'r':
        return 'r ' + rat(o[1])
    return k


def crhist_line(c):
    return 'crhist %s %s %s %d %s' % (_b(c['cont']), enc_cols(c['cols']), enc_list(c['dom']), len(c['ops']),
                                      ' '.join(enc_crop(o) for o in c['ops']))


def _full_par_case(c):
    c = dict(c)
    for k in ('min', 'max', 'count', 'cols', 'ord', 'sh', 'sw', 'th', 'names', 'cc', 'ils'):
        c.setdefault(k, None)
    if c['kind'] == 'plain' and c['ils'] is None:
        c['ils'] = False
    if c.get('cols') is not None:
        c['cols'] = [tuple(x) for x in c['cols']]
    if c.get('ord') is not None:
        c['ord'] = [tuple(x) for x in c['ord']]
    return c


def apply_field(lp, f, v, shape=None):
    """`lp.<attribute> = value` on the real object (raises what the setter raises)."""
    from ladybug.color import Color
    if f == 'bad':
        setattr(lp, FIELD_ATTR[v], BAD_VALUE[v])
        return
    if f == 'cols' and v is not None:
        v = shaped([Color(*x) for x in v], shape)
    elif f == 'ord' and v is not None:
        v = dict((int(k), t) for k, t in v)
    elif f in ('dom', 'names') and v is not None:
        v = shaped(v, shape)
    setattr(lp, FIELD_ATTR[f], v)


def obs_live(lg):
    """Every observable of a live legend the property speaks about (same layout as the driver)."""
    lp = lg.legend_parameters

    def mesh():
        m = lg.segment_mesh_scene_2d
        return '%d %d : %s' % (len(m.faces), len(m.vertices), show_colors(m.colors))

    def crange():
        cr = lg.color_range
        return '%s : %s : %s' % (rats(cr.domain), show_colors(cr.colors), _b(cr.continuous_colors))

    return ' | '.join([
        'L %s %s %d %s %s' % (rat(lp.min), rat(lp.max), lp.segment_count, _b(lg.is_min_default),
                              _b(lg.is_max_default)),
        _sec(lambda: rats(lg.segment_numbers)),
        _sec(lambda: show_colors(lg.segment_colors)),
        _sec(lambda: show_colors(lg.value_colors)),
        _sec(lambda: ';'.join(lg.segment_text)),
        _sec(lambda: str(len(lg.segment_text_location))),
        _sec(lambda: str(lg.segment_length)),
        _sec(mesh),
        _sec(crange)])


def obs_par(lp):
    """The public attributes of a parameters object (same layout as the driver)."""
    from ladybug.legend import LegendParametersCategorized
    ordd = lp.ordinal_dictionary
    cat = 'none'
    if isinstance(lp, LegendParametersCategorized):
        cat = '%s : %s : %s' % (rats(lp.domain), ';'.join(lp.category_names), _b(lp.continuous_colors))
    return ' | '.join([
        'P %s %s %d %s' % (opt(lp.min), opt(lp.max), lp.segment_count, _b(lp.is_segment_count_default)),
        show_colors(lp.colors),
        '%s %s %d %s' % (_b(lp.continuous_legend), _b(lp.vertical), lp.decimal_count,
                         _b(lp.include_larger_smaller)),
        'none' if ordd is None else '{' + ','.join('%d:%s' % (k, ordd[k]) for k in ordd) + '}',
        '%s %s %s' % (opt(None if lp.is_segment_height_default else lp.segment_height),
                      opt(None if lp.is_segment_width_default else lp.segment_width),
                      opt(None if lp.is_text_height_default else lp.text_height)),
        cat])


def _via_json(d):
    import json
    return json.loads(json.dumps(d))


class Session(object):
    """One parameters object and the legend built from it, driven by the op list of a history."""

    def __init__(self, c):
        self.par = make_par(c)
        self.shape = c.get('shape')
        self.live = None
        self.holder = None           # the GraphicContainer that owns the live legend, if any

    def step(self, o):
        """Run one op; returns the protocol output string."""
        from ladybug.legend import Legend, LegendParameters, LegendParametersCategorized
        k = o[0]
        try:
            if k == 'sp':
                apply_field(self.par, o[1], o[2], self.shape)
                return 'ok'
            if k in ('sl', 'ol', 'dl', 'tl') and self.live is None:
                return 'nolegend'
            if k == 'sl':
                apply_field(self.live.legend_parameters, o[1], o[2], self.shape)
                return 'ok'
            if k == 'b':
                self.live = Legend(shaped(o[1], self.shape), self.par)
                self.holder = None
                return 'ok'
            if k == 'g':
                from ladybug.graphic import GraphicContainer
                from ladybug_geometry.geometry3d.pointvector import Point3D
                box = o[1]
                gc = GraphicContainer(shaped(o[2], self.shape), Point3D(box[0], box[1], 0),
                                      Point3D(box[2], box[3], 0), self.par)
                self.live, self.holder = gc.legend, gc
                return 'ok'
            if k == 'ol':
                return obs_live(self.live)
            if k == 'op':
                return obs_par(self.par)
            if k == 'dp':
                self.par = self.par.duplicate()
                return 'ok'
            if k == 'dl':
                self.live = self.live.duplicate()
                self.holder = None
                return 'ok'
            if k == 'tp':
                cls = LegendParametersCategorized if isinstance(self.par, LegendParametersCategorized) \
                    else LegendParameters
                self.par = cls.from_dict(_via_json(self.par.to_dict()))
                return 'ok'
            if k == 'tl':
                self.live = Legend.from_dict(_via_json(self.live.to_dict()))
                self.holder = None
                return 'ok'
        except Exception as e:
            return 'X:' + err_name(e)
        raise ValueError('unknown history op %r' % (k,))


def impl_lhist(c):
    try:
        s = Session(c)
    except Exception as e:
        return 'err:' + err_name(e)
    return ' || '.join(['ok'] + [s.step(o) for o in c['ops']])


class RangeSession(object):
    def __init__(self, c):
        self.cr = make_range(c)
        self.shape = c.get('shape')

    def step(self, o):
        from ladybug.color import Color
        k = o[0]
        try:
            if k == 'c':
                self.cr.colors = shaped([Color(*x) for x in o[1]], self.shape)
                return 'ok'
            if k == 'd':
                self.cr.domain = shaped(o[1], dom_shape(self.shape))
                return 'ok'
            if k == 'u':
                self.cr = self.cr.duplicate()
                return 'ok'
            if k == 's':
                return 'S %s : %s : %s' % (show_colors(self.cr.colors), rats(self.cr.domain),
                                           _b(self.cr.continuous_colors))
        except Exception as e:
            return 'X:' + err_name(e)
        if k == 'r':
            try:
                return show_rgb(self.cr.color(o[1]))
            except Exception as e:
                return 'E:' + err_name(e)
        raise ValueError('unknown history op %r' % (k,))


def impl_crhist(c):
    try:
        s = RangeSession(c)
    except Exception as e:
        return 'err:' + err_name(e)
    return ' || '.join(['ok'] + [s.step(o) for o in c['ops']])


def _hist_close(name_idx, a, b, cat):
    """Safety net of the history comparison: numbers within 1e-12, colour channels within 1."""
    if a == b:
        return True
    if name_idx in (0, 1):
        ta, tb = a.split(), b.split()
        if len(ta) != len(tb):
            return False
        for x, y in zip(ta, tb):
            if x != y:
                try:
                    if not _close(Fraction(x), Fraction(y)):
                        return False
                except (ValueError, ZeroDivisionError):
                    return False
        return True
    return False


def compare_hist(ctx, op, cases, line_fn, impl_fn):
    """History correspondence: the model's state machine and the real object step by step."""
    drv = ctx.driver()
    lines = [line_fn(c) for c in cases]
    outs = drv.run(lines)
    for c, line, mo in zip(cases, lines, outs):
        io = impl_fn(c)
        ctx.compared += 1
        ctx.count('op:' + op)
        ctx.case((op, line), nontrivial=not io.startswith('err:'))
        if mo == io:
            continue
        ms, is_ = mo.split(' || '), io.split(' || ')
        bad = None
        if len(ms) != len(is_):
            bad = 0
        else:
            for k, (a, b) in enumerate(zip(ms, is_)):
                if a == b:
                    continue
                sa, sb = a.split(' | '), b.split(' | ')
                cat = c.get('kind') == 'cat'
                if a.startswith('L ') and b.startswith('L ') and len(sa) == len(sb) == 9 and cat and all(
                        x == y or (j == 1 and _nums_close(x, y)) for j, (x, y) in enumerate(zip(sa, sb))):
                    ctx.count('hist_cat_numbers_tolerated')
                    continue            # categorised segment numbers: not used for colours or labels
                bad = k
                break
        if bad is not None:
            step = c['ops'][bad - 1] if 0 < bad <= len(c['ops']) else None
            ctx.disagree(op, {'case': c, 'line': line, 'step_index': bad - 1, 'step': step,
                              'ops_executed': c['ops'][:bad]},
                         ms[bad] if bad < len(ms) else mo, is_[bad] if bad < len(is_) else io)
    if cases:
        ctx.sample({'op': op, 'request': lines[0][:600], 'model': outs[0][:600]})


# -- generators of histories (shadow bookkeeping in plain numbers; nothing calls the code under test)


def _lattice(rng, w):
    """A bound on the lattice of width unit `w`; exact zero is a first-class stratum."""
    r = rng.random()
    if r < 0.3:
        return 0.0 if rng.random() < 0.5 else 0
    if r < 0.45:
        return -w
    return float(rng.randrange(-12, 12)) * rng.choice([0.25, 0.5, 1, 4])


def _vals_for(rng, lo, hi, n=None):
    """Data on the dyadic grid of [lo, hi] (ends included), some outside."""
    n = n if n is not None else rng.randrange(1, 7)
    w = hi - lo
    vals = [lo, hi]
    for _ in range(n):
        vals.append(lo + w * rng.randrange(0, 65) / 64.0)
    rng.shuffle(vals)
    return vals


def gen_lhist(ctx, rng, rare_first=False):
    """One history on a parameters object and its legend."""
    cat = rng.random() < 0.3
    ops = []
    c = {'kind': 'cat' if cat else 'plain', 'cl': rng.random() < 0.35, 'vert': rng.random() < 0.6,
         'dc': rng.choice([0, 1, 2, 2, 3]), 'sh': None, 'sw': None, 'th': None, 'shape': rng.choice(SHAPES)}
    ctx.count('shape:lhist:' + c['shape'])
    if rng.random() < 0.25:
        c['sh'] = rng.choice([0.5, 1, 2, 0.25])
    if cat:
        m = rng.choice([1, 1, 2, 2, 3, 4])

        def newdom(m):
            lo = float(rng.randrange(-16, 16)) * rng.choice([1, 0.5, 4])
            if rng.random() < 0.2:
                lo = 0.0
            d = [lo]
            for _ in range(m - 1):
                d.append(d[-1] + 2.0 ** rng.randrange(-1, 6))
            return d
        dom = newdom(m)
        c.update({'dom': list(dom), 'cols': gen_colors(rng, m + 1), 'cc': rng.choice([None, False, True]),
                  'ils': rng.choice([None, True, False]),
                  'names': [rng.choice(NAME_POOL) + str(i) for i in range(m + 1)] if rng.random() < 0.4 else None})
        sh = {'names': c['names'], 'dom': dom}           # shadow of P
        lsh = None                                       # shadow of the live legend
        ctx.count('lhist:cat:domain_len:%d' % m)

        def vals_cat(dom):
            span = (dom[-1] - dom[0]) or 8.0
            v = [dom[0] - span / 8, dom[-1] + span / 8]
            for a, b in zip(dom, dom[1:]):
                v += [a, a + (b - a) * rng.randrange(1, 8) / 8.0]
            v.append(dom[-1])
            rng.shuffle(v)
            return v[:rng.randrange(1, len(v) + 1)]

        def setter(t, s):
            r = rng.random()
            if r < 0.25:
                k = rng.random()
                if k < 0.6:
                    d = newdom(m)
                    s['dom'] = d
                    d = list(d)
                    if rng.random() < 0.3:
                        rng.shuffle(d)
                    return [t, 'dom', d]
                ctx.count('lhist:refused:cat_domain_length')
                return [t, 'dom', newdom(m + rng.choice([-1, 1, 2]))] if m + 0 > 1 or rng.random() < 0.7 \
                    else [t, 'dom', []]
            if r < 0.4:
                k = rng.random()
                if k < 0.6:
                    return [t, 'cols', gen_colors(rng, m + 1)]
                ctx.count('lhist:refused:cat_colors')
                return [t, 'cols', rng.choice([None, gen_colors(rng, m), gen_colors(rng, m + 2)])]
            if r < 0.55:
                k = rng.random()
                if k < 0.4:
                    s['names'] = [rng.choice(NAME_POOL) + str(i) for i in range(m + 1)]
                    return [t, 'names', list(s['names'])]
                if k < 0.7:
                    s['names'] = None
                    return [t, 'names', None]
                ctx.count('lhist:refused:cat_names')
                return [t, 'names', [rng.choice(NAME_POOL) for _ in range(rng.choice([m, m + 2, 0]))]]
            if r < 0.63:
                return [t, 'cc', rng.choice([None, True, False])]
            if r < 0.73:
                return [t, 'ils', rng.choice([None, True, False])]
            if r < 0.83:
                return [t, 'dc', rng.choice([None, 0, 1, 2, 3, 5])]
            if r < 0.9:
                ctx.count('lhist:refused:cat_no_setter')
                return [t, rng.choice(['min', 'max']), float(rng.randrange(-5, 5))] if rng.random() < 0.5 \
                    else [t, 'count', rng.choice([2, 5, None])]
            return common_setter(t)
    else:
        world = rng.choice(['pow2', 'pow2', 'tens', 'nines'])
        W = WORLDS[world]
        ctx.count('lhist:plain:world:' + world)

        def newcols():
            n = rng.choice(W['ncols'])
            return None if n is None else gen_colors(rng, n)
        w0 = rng.choice(W['widths'])
        lo = _lattice(rng, w0)
        bounds = rng.choice(['both', 'both', 'neither', 'min', 'max', 'equal'])
        mn, mx = {'both': (lo, lo + w0), 'neither': (None, None), 'min': (lo, None), 'max': (None, lo + w0),
                  'equal': (lo, lo)}[bounds]
        ctx.count('lhist:plain:bounds:' + bounds)
        if 0 in (mn, mx) and (mn == 0 or mx == 0):
            ctx.count('lhist:plain:zero_bound')
        c.update({'min': mn, 'max': mx, 'count': rng.choice(W['counts']), 'cols': newcols(),
                  'ils': rng.random() < 0.3, 'ord': None})
        if rng.random() < 0.15:
            keys = sorted(set(rng.randrange(-4, 12) for _ in range(rng.randrange(0, 6))))
            c['ord'] = [(k, rng.choice(NAME_POOL)) for k in keys]
            rng.shuffle(c['ord'])
        sh = {'min': mn, 'max': mx}
        lsh = None

        def move(s, which):
            """A new bound that keeps the width in the world (relative to the other bound)."""
            other = s['max'] if which == 'min' else s['min']
            r = rng.random()
            if other is None:
                return _lattice(rng, rng.choice(W['widths'])), True
            if r < 0.2:
                ctx.count('lhist:refused:min_above_max')
                d = rng.choice(W['widths'])
                return (other + d if which == 'min' else other - d), False
            if r < 0.3:
                return other, True                       # zero-width legend
            d = rng.choice(W['widths'])
            return (other - d if which == 'min' else other + d), True

        def setter(t, s):
            r = rng.random()
            if r < 0.34:
                which = rng.choice(['min', 'max'])
                if t == 'sp' and rng.random() < 0.12:
                    s[which] = None
                    return [t, which, None]
                v, ok = move(s, which)
                if rng.random() < 0.3 and float(v).is_integer():
                    v = int(v)                           # integers are numbers too
                if ok:
                    s[which] = v
                if v == 0:
                    ctx.count('lhist:set_zero_bound')
                return [t, which, v]
            if r < 0.46:
                k = rng.choice(W['counts'] + [0])
                if k == 0:
                    ctx.count('lhist:refused:count_zero')
                return [t, 'count', k]
            if r < 0.58:
                k = rng.random()
                if k < 0.75:
                    return [t, 'cols', newcols()]
                ctx.count('lhist:refused:colors_too_few')
                return [t, 'cols', gen_colors(rng, rng.choice([0, 1, 1]))]
            if r < 0.66:
                return [t, 'ils', rng.choice([None, True, False])]
            if r < 0.74:
                return [t, 'dc', rng.choice([None, 0, 1, 2, 3, 5])]
            if r < 0.8:
                if rng.random() < 0.4:
                    return [t, 'ord', None]
                keys = list(set(rng.randrange(-4, 12) for _ in range(rng.randrange(0, 6))))
                rng.shuffle(keys)
                return [t, 'ord', [(k, rng.choice(NAME_POOL)) for k in keys]]
            if r < 0.85:
                ctx.count('lhist:refused:plain_no_attribute')
                return [t, rng.choice(['cc', 'names']), None] if rng.random() < 0.5 else [t, 'dom', [1.0]]
            return common_setter(t)

    def common_setter(t):
        r = rng.random()
        if r < 0.25:
            return [t, 'cl', rng.choice([None, True, False])]
        if r < 0.5:
            return [t, 'vert', rng.choice([None, True, False])]
        if r < 0.75:
            f = rng.choice(['sh', 'sw', 'th'])
            k = rng.random()
            if k < 0.6:
                return [t, f, rng.choice([0.25, 0.5, 1, 2, 3, 8, None])]
            ctx.count('lhist:refused:dimension_not_positive')
            return [t, f, rng.choice([0, 0.0, -1.0])]
        ctx.count('lhist:refused:wrong_type')
        pool = ['cols', 'cl', 'vert', 'dc', 'sh', 'sw', 'th'] + (
            ['dom', 'names', 'cc'] if cat else ['min', 'max', 'count', 'ord'])
        if rng.random() < 0.2:
            pool = ['min', 'max', 'count', 'ord', 'dom', 'names', 'cc']
        return [t, 'bad', rng.choice(pool)]

    def build_op():
        """(op, shadow of the new live legend or None when the build is refused)."""
        if cat:
            vals = vals_cat(sh['dom'])
            new = {'names': sh['names'], 'dom': list(sh['dom'])}
        else:
            a, b = sh['min'], sh['max']
            r = rng.random()
            w = 0.0 if r < 0.15 else rng.choice(W['widths'])
            if a is None and b is None:
                lo = _lattice(rng, w or 1.0)
                vals = _vals_for(rng, lo, lo + w)
                new = {'min': lo, 'max': lo + w}
            elif b is None:
                vals = _vals_for(rng, a + w - rng.choice([0, w, 2 * w]) if w else a, a + w)
                vals = [v for v in vals] + [a + w]
                new = {'min': a, 'max': a + w}
            elif a is None:
                vals = _vals_for(rng, b - w, b - w + rng.choice([0, w, 2 * w])) + [b - w]
                vals = [min(v, b + w) for v in vals]
                new = {'min': b - w, 'max': b}
                new['min'] = min(vals)
                if (b - new['min']) not in W['widths'] + [0.0]:
                    vals = [b - w, b - w / 2 if w else b, b]
                    new['min'] = b - w
            else:
                span = (b - a) or 4.0
                vals = _vals_for(rng, a, b) + [a - span / 4, b + span / 4]
                new = {'min': a, 'max': b}
            if rng.random() < 0.15:
                vals = vals[:1] if (a is not None and b is not None) else [new['min']] if new['min'] == new['max'] \
                    else vals
                ctx.count('lhist:build:single_value' if len(vals) == 1 else 'lhist:build:several')
        if rng.random() < 0.04:
            ctx.count('lhist:refused:build_empty_values')
            return ['b', []], None
        if not cat and rng.random() < 0.05 and (sh['min'] is None) != (sh['max'] is None):
            ctx.count('lhist:refused:build_data_beyond_bound')
            if sh['max'] is None:
                return ['b', [sh['min'] - 2.0, sh['min'] - 1.0]], None
            return ['b', [sh['max'] + 1.0, sh['max'] + 2.0]], None
        if rng.random() < 0.25:
            box = (0.0, 0.0, rng.choice([8.0, 16.0, 1.0, 0.0]), rng.choice([4.0, 8.0, 32.0, 0.0]))
            if box[2] == 0.0 and box[3] == 0.0:
                ctx.count('lhist:refused:graphic_flat_box')
                return ['g', list(box), vals], None if c.get('sh') is None and not any(
                    o[0] == 'sp' and o[1] == 'sh' and o[2] is not None for o in ops) else new
            return ['g', list(box), vals], new
        return ['b', vals], new

    nops = rng.choice([4, 6, 8, 10, 14])
    # failing call first in some histories
    if rare_first or rng.random() < 0.15:
        ops.append(setter('sp', sh) if rng.random() < 0.5 else ['sp', 'bad', 'cols'])
        ops.append(['op'])
    for _ in range(rng.randrange(0, 3)):
        ops.append(setter('sp', sh))
        if rng.random() < 0.5:
            ops.append(['op'])
    o, new = build_op()
    ops.append(o)
    if new is not None:
        lsh = new
    ops.append(['ol'])
    while len(ops) < nops:
        r = rng.random()
        if r < 0.4 and lsh is not None:
            ops.append(setter('sl', lsh))
            if rng.random() < 0.8:
                ops.append(['ol'])
                if rng.random() < 0.15:
                    ops.append(['ol'])                       # the same question twice
        elif r < 0.55:
            ops.append(setter('sp', sh))
            ops.append(rng.choice([['op'], ['ol'], ['op']]))
        elif r < 0.7:
            o, new = build_op()                              # the same parameters, other data
            ops.append(o)
            if new is not None:
                lsh = new
            ops.append(['ol'])
        elif r < 0.8:
            ops.append(rng.choice([['op'], ['ol']]))
        elif r < 0.9:
            k = rng.choice(['dp', 'dl', 'dl'])
            if k == 'dl' and lsh is None:
                k = 'dp'
            ops.append([k])
            ops.append(['ol'] if k == 'dl' else ['op'])
        else:
            k = rng.choice(['tp', 'tl'])
            s = sh if k == 'tp' else lsh
            if s is None or (cat and s['names'] is None):
                k, s = 'dp', sh                              # generated names become explicit in a dict (C07)
            ops.append([k])
            ops.append(['ol'] if k == 'tl' else ['op'])
    ops.append(['ol'])
    ops.append(['op'])
    c['ops'] = ops
    c = _full_par_case(c)
    ctx.count('lhist:ops', len(ops))
    return c


def gen_crhist(ctx, rng, rare_first=False):
    """One history on a ColorRange (exact world: widths 144*2^k, power-of-two gaps)."""
    ncols_pool = [2, 2, 3, 3, 5, 9, 17, 10, 1]
    cont = rng.random() < 0.6

    def colors(n):
        return gen_colors(rng, n)

    def accepted(n, k):
        if cont:
            return (k == 2 and n > 1) or (k != 2 and k <= n)
        return k < n

    def newdom(n):
        """(domain argument, resulting stops or None when refused)."""
        kind = rng.choice(['two', 'two', 'per', 'per', 'fewer', 'single', 'zero', 'many', 'dup', 'empty'])
        lo = float(rng.randrange(-20, 20)) * rng.choice([1, 0.5, 8])
        if rng.random() < 0.2:
            lo = 0.0
        if kind == 'two':
            d = [lo, lo + 144 * 2.0 ** rng.randrange(-3, 3)]
        elif kind == 'zero':
            d = [lo, lo]
        elif kind == 'single':
            d = [lo]
        elif kind == 'empty':
            if (n - 1) not in (1, 2, 4, 8, 16) and cont:
                d = [lo]
            else:
                d = []
        else:
            m = {'per': n if cont else max(1, n - 1), 'fewer': max(1, n - 2), 'many': n + rng.randrange(1, 3),
                 'dup': max(3, n - 1)}[kind]
            d = [lo]
            for _ in range(m - 1):
                d.append(d[-1] + 2.0 ** rng.randrange(-2, 6))
            if kind == 'dup' and len(d) > 2:
                i = rng.randrange(1, len(d))
                d[i] = d[i - 1]
                d = sorted(d)
        if cont and len(d) in (0, 2) and not (len(d) == 2 and d[0] == d[1]):
            kind = 'two'
            d = [lo, lo + 144 * 2.0 ** rng.randrange(-3, 3)]
        ctx.count('crhist:domain:' + kind)
        eff = d if d else [0.0, 1.0]
        if not accepted(n, len(eff)):
            return d, None
        if cont and len(eff) == 2:
            step = (eff[1] - eff[0]) / (n - 1)
            stops = [eff[0] + i * step for i in range(n)]
        else:
            stops = sorted(eff)
        shown = list(d)
        if rng.random() < 0.25:
            rng.shuffle(shown)
        return shown, stops

    def probes(stops):
        vs = []
        i = rng.randrange(0, max(1, len(stops) - 1))
        seg = stops[i:i + 2]
        vs.append(rng.choice(stops))
        if len(seg) == 2 and seg[1] > seg[0]:
            vs.append(seg[0] + (seg[1] - seg[0]) * rng.randrange(1, 8) / 8.0)
        span = (stops[-1] - stops[0]) or 1.0
        vs.append(rng.choice([stops[0] - span / 8, stops[-1] + span / 8, stops[0], stops[-1]]))
        return vs

    n = rng.choice(ncols_pool)
    cols = colors(n) if n != 10 or rng.random() < 0.3 else []
    n_eff = len(cols) or 10
    d, stops = newdom(n_eff)
    tries = 0
    while stops is None and tries < 5 and not rare_first:
        d, stops = newdom(n_eff)
        tries += 1
    c = {'cont': cont, 'cols': cols, 'dom': d, 'ops': [], 'shape': rng.choice(SHAPES)}
    ctx.count('shape:crhist:' + c['shape'])
    ops = c['ops']
    if stops is None:
        ctx.count('crhist:refused:constructor')
        ops.append(['s'])
        return c
    nops = rng.choice([4, 6, 8, 12])
    while len(ops) < nops:
        r = rng.random()
        if r < 0.3:
            m = rng.choice(ncols_pool)
            new = colors(m) if m != 10 or rng.random() < 0.3 else []
            m_eff = len(new) or 10
            if cont and len(stops) == 2 and m_eff > 1 and n_eff == 2:
                ok, ns = True, [stops[0] + i * (stops[1] - stops[0]) / (m_eff - 1) for i in range(m_eff)]
            else:
                ok, ns = accepted(m_eff, len(stops)) and not (cont and len(stops) == 2 and m_eff == 1), stops
            ops.append(['c', new])
            if ok:
                n_eff, stops = m_eff, ns
            else:
                ctx.count('crhist:refused:colors')
        elif r < 0.5:
            d, ns = newdom(n_eff)
            ops.append(['d', d])
            if ns is not None:
                stops = ns
            else:
                ctx.count('crhist:refused:domain')
        elif r < 0.58:
            ops.append(['u'])
        elif r < 0.66:
            ops.append(['s'])
        else:
            for v in probes(stops):
                ops.append(['r', v])
                if rng.random() < 0.1:
                    ops.append(['r', v])
    for v in probes(stops):
        ops.append(['r', v])
    ops.append(['s'])
    ctx.count('crhist:ops', len(ops))
    ctx.count('crhist:%s' % ('cont' if cont else 'seg'))
    return c


# -- the independent oracle on histories (real code only; nothing from the model)


def _snap_range(cr, probe):
    out = [show_colors(cr.colors), rats(cr.domain), _b(cr.continuous_colors), str(len(cr))]
    for v in probe:
        try:
            out.append(show_rgb(cr.color(v)))
        except Exception as e:
            out.append('E:' + type(e).__name__)
    return out


def check_crhistory(inp):
    """Statement of C15 along a history on one ColorRange: after every step the live range colours
    like a range built in one go from its public state and satisfies the stop / between / monotone /
    clamp / interval clauses; a refused assignment changes nothing; reads change nothing."""
    from ladybug.color import Color, ColorRange
    c = {'cont': bool(inp['cont']), 'cols': [tuple(x) for x in inp['cols']], 'dom': list(inp['dom'])}
    sig = {'cont': c['cont']}
    try:
        s = RangeSession(c)
    except Exception:
        return None                                  # refused constructor (checked by the correspondence)
    done = []

    def fail(clause, req, obs, **kw):
        return {'required': req, 'observed': obs, 'sig': dict(sig, clause=clause, **kw), 'ops_executed': done}

    for o in inp['ops']:
        o = list(o)
        cr = s.cr
        stops = list(cr.domain)
        span = (stops[-1] - stops[0]) or 1.0
        probe = sorted(set(stops + [stops[0] - span / 4, stops[-1] + span / 4] +
                           [a + (b - a) * t for a, b in zip(stops, stops[1:]) for t in (0.25, 0.5)]))
        before = _snap_range(cr, probe)
        out = s.step(o)
        done.append(o)
        cr = s.cr
        after = _snap_range(cr, probe)
        if out.startswith('X:') and after != before:
            return fail('refused_changed', before, after, step=o[0], error=out[2:])
        if o[0] in ('r', 's', 'u') and after != before:
            return fail('read_changed' if o[0] != 'u' else 'duplicate_differs', before, after, step=o[0])
        if o[0] == 'c' and out == 'ok' and o[1] and [_rgb(x) for x in cr.colors] != [tuple(x) for x in o[1]]:
            return fail('colors_not_stored', o[1], [_rgb(x) for x in cr.colors], step='c')
        if any(x.startswith('E:') for x in after):
            return fail('color_raises', 'a colour for every value', after, step=o[0])
        # the live range against a range built in one go from its public state
        try:
            fresh = ColorRange([Color(*_rgb(x)) for x in cr.colors], list(cr.domain), cr.continuous_colors)
        except Exception as e:
            return fail('public_state_not_constructible', 'ColorRange(colors, domain) accepted',
                        'raises %s' % type(e).__name__, step=o[0])
        stops2 = list(cr.domain)
        span = (stops2[-1] - stops2[0]) or 1.0
        probe2 = sorted(set(stops2 + [stops2[0] - span / 4, stops2[-1] + span / 4] +
                            [a + (b - a) * t for a, b in zip(stops2, stops2[1:]) for t in (0.125, 0.5, 0.875)]))
        if list(fresh.domain) == stops2:
            a, b = _snap_range(cr, probe2), _snap_range(fresh, probe2)
            if a != b:
                return fail('history_differs_from_fresh', b, a, step=o[0])
        # the statement's clauses on the live object
        strict = all(a < b for a, b in zip(stops2, stops2[1:])) or len(set(stops2)) == 1
        if out == 'ok' and o[0] in ('c', 'd', 'u') and strict:   # duplicated stops: first match wins (modelled)
            res = check_range({'cols': [list(_rgb(x)) for x in cr.colors], 'dom': stops2,
                               'cont': cr.continuous_colors, 'probes': 8}, live=cr)
            if res:
                res['sig'] = dict(res.get('sig') or {}, after=o[0])
                res['ops_executed'] = done
                return res
    return None


def _fresh_par(lp):
    """Parameters built in one go (constructor + setters) from the public attributes of `lp`."""
    from ladybug.color import Color
    from ladybug.legend import LegendParameters, LegendParametersCategorized
    cols = [Color(*_rgb(x)) for x in lp.colors]
    if isinstance(lp, LegendParametersCategorized):
        new = LegendParametersCategorized(list(lp.domain), cols, None)
        try:
            given = lp._category_names          # whether names were given is not readable publicly
        except AttributeError:
            given = None
        if given:
            new.category_names = list(lp.category_names)
        new.continuous_colors = lp.continuous_colors
    else:
        new = LegendParameters(lp.min, lp.max, None if lp.is_segment_count_default else lp.segment_count, cols)
        new.ordinal_dictionary = None if lp.ordinal_dictionary is None else dict(lp.ordinal_dictionary)
    new.continuous_legend = lp.continuous_legend
    new.vertical = lp.vertical
    new.decimal_count = lp.decimal_count
    new.include_larger_smaller = lp.include_larger_smaller
    if not lp.is_segment_height_default:
        new.segment_height = lp.segment_height
    if not lp.is_segment_width_default:
        new.segment_width = lp.segment_width
    if not lp.is_text_height_default:
        new.text_height = lp.text_height
    return new


def _expected_names(lp):
    fmt = '%.{}f'.format(lp.decimal_count)
    n = [fmt % x for x in lp.domain]
    mid = tuple('{} - {}'.format(n[i], n[i + 1]) for i in range(len(n) - 1))
    if lp.include_larger_smaller:
        return ('<' + n[0],) + mid + ('>' + n[-1],)
    return (n[0],) + mid + (n[-1],)


def _live_clauses(lg, exp):
    """The legend clauses of C15 on a live legend, phrased on its own public state + what the user
    established (`exp`: last accepted bounds / count / names / domain)."""
    from ladybug.color import Color, ColorRange
    from ladybug.legend import LegendParametersCategorized
    par = lg.legend_parameters
    cat = isinstance(par, LegendParametersCategorized)
    vals = list(lg.values)
    n = par.segment_count
    for k in ('min', 'max'):
        if exp.get(k) is not None and getattr(par, k) != exp[k]:
            return ('established_' + k, exp[k], getattr(par, k))
    if exp.get('count') is not None and n != exp['count']:
        return ('established_count', exp['count'], n)
    if par.min > par.max:
        return ('bounds_order', 'min <= max', (par.min, par.max))
    nums = list(lg.segment_numbers)
    if len(nums) != n:
        return ('numbers_length', n, len(nums))
    scale = max(abs(Fraction(par.min)), abs(Fraction(par.max)), Fraction(1, 10 ** 300))
    for i, x in enumerate(nums):
        want = Fraction(par.min) + (i * (Fraction(par.max) - Fraction(par.min)) / (n - 1) if n > 1 else 0)
        if abs(Fraction(x) - want) > Fraction(1, 10 ** 9) * scale:
            return ('numbers_even', float(want), x)
    text, scol, pos = list(lg.segment_text), lg.segment_colors, lg.segment_text_location
    if not (len(text) == len(scol) == len(pos) == n):
        return ('per_segment_counts', n, (len(text), len(scol), len(pos)))
    if cat:
        dom = list(par.domain)
        if exp.get('dom') is not None and dom != sorted(float(x) for x in exp['dom']):
            return ('established_domain', exp['dom'], dom)
        if (par.min, par.max, n) != (dom[0], dom[-1], len(dom) + 1):
            return ('categorised_bounds', (dom[0], dom[-1], len(dom) + 1), (par.min, par.max, n))
        want = tuple(exp['names']) if exp.get('names') else _expected_names(par)
        if not exp.get('names_unknown') and tuple(text) != tuple(str(x) for x in want):
            return ('categorised_names', list(want), text)
        ref = ColorRange([Color(*_rgb(x)) for x in par.colors], dom, par.continuous_colors)
        if [_rgb(x) for x in scol] != [_rgb(x) for x in par.colors]:
            return ('categorised_colours', [_rgb(x) for x in par.colors], [_rgb(x) for x in scol])
    else:
        ref = ColorRange([Color(*_rgb(x)) for x in par.colors], [par.min, par.max])
        for i, x in enumerate(nums):
            if _rgb(scol[i]) != _rgb(ref.color(x)):
                return ('segment_colours', _rgb(ref.color(x)), _rgb(scol[i]))
    vc = lg.value_colors
    if len(vc) != len(vals):
        return ('value_colors_length', len(vals), len(vc))
    for i, v in enumerate(vals):
        if _rgb(vc[i]) != _rgb(ref.color(v)):
            return ('value_colors_order', _rgb(ref.color(v)), _rgb(vc[i]))
    cells = n - 1 if par.continuous_legend else n
    if lg.segment_length != cells:
        return ('segment_length', cells, lg.segment_length)
    if cells >= 1 and (len(lg.segment_mesh_scene_2d.faces) != cells or len(lg.segment_mesh.faces) != cells):
        return ('mesh_cells', cells, len(lg.segment_mesh_scene_2d.faces))
    return None


def _norm_default(kind, f, v):
    if v is not None:
        return v
    return {'count': 11, 'cl': False, 'vert': True, 'dc': 2, 'ils': kind == 'cat', 'cc': False}.get(f)


def check_lhistory(inp):
    """Statement of C15 along a history on one parameters object and the legend built from it:
    after every step the legend describes the state the user established (bounds, count, domain,
    names as last accepted), its observables equal those of a legend built in one go from its public
    state, a refused operation leaves every observable of both objects as before, reads change
    nothing, and an assignment to one object does not leak into the other."""
    from ladybug.legend import Legend, LegendParametersCategorized
    c = _full_par_case(inp)
    kind = c['kind']
    sig = {'kind': kind}
    try:
        s = Session(c)
    except Exception:
        return None
    done = []
    exp_p = {'min': c.get('min'), 'max': c.get('max'), 'names': c.get('names'), 'dom': c.get('dom')}
    exp_l = {}

    def snap():
        a = _sec(lambda: obs_par(s.par))
        b = 'nolegend' if s.live is None else _sec(lambda: obs_live(s.live))
        return a, b

    def fail(clause, req, obs, **kw):
        return {'required': req, 'observed': obs, 'sig': dict(sig, clause=clause, **kw), 'ops_executed': done}

    for o in inp['ops']:
        o = list(o)
        k = o[0]
        before = snap()
        out = s.step(o)
        done.append(o)
        after = snap()
        if out.startswith('X:'):
            if after != before:
                return fail('refused_changed', before, after, step=k, field=o[1] if k in ('sp', 'sl') else k,
                            error=out[2:])
            continue
        if k in ('ol', 'op'):
            if after != before:
                return fail('read_changed', before, after, step=k)
            if out != (after[1] if k == 'ol' else after[0]) and out != 'nolegend':
                return fail('read_not_repeatable', out, after, step=k)
        if k == 'sp' and after[1] != before[1]:
            return fail('parameters_leak_into_legend', before[1], after[1], step=k, field=o[1])
        if k == 'sl' and after[0] != before[0]:
            return fail('legend_leaks_into_parameters', before[0], after[0], step=k, field=o[1])
        if k in ('b', 'g', 'dl', 'tl') and after[0] != before[0]:
            return fail('build_changed_parameters', before[0], after[0], step=k)
        if k in ('dp', 'tp') and after != before and not (
                k == 'tp' and kind == 'cat' and not exp_p.get('names')):
            return fail('copy_differs', before, after, step=k)
        if k in ('dl', 'tl') and after[1] != before[1] and out == 'ok':
            # a copy re-resolves a defaulted segment count; everything else must be equal
            sb, sa = before[1].split(' | '), after[1].split(' | ')
            lp = s.live.legend_parameters
            if not (lp.is_segment_count_default and sb[0].split()[:3] == sa[0].split()[:3]) and not (
                    k == 'tl' and kind == 'cat' and not exp_l.get('names')):
                return fail('copy_differs', before[1], after[1], step=k)
        # what the user established
        if k in ('sp', 'sl') and out == 'ok':
            tgt, e = (s.par, exp_p) if k == 'sp' else (s.live.legend_parameters, exp_l)
            f, v = o[1], o[2]
            if f in ('min', 'max', 'count', 'cl', 'vert', 'dc', 'ils', 'cc', 'sh', 'sw', 'th') and not (
                    v is None and f in ('min', 'max', 'sh', 'sw', 'th')):
                got = getattr(tgt, FIELD_ATTR[f])
                if got != _norm_default(kind, f, v):
                    return fail('setter_not_stored', _norm_default(kind, f, v), got, step=k, field=f)
            if f in ('min', 'max'):
                e[f] = v
            elif f == 'count':
                e['count'] = _norm_default(kind, f, v) if k == 'sl' else None
            elif f == 'dom':
                e['dom'] = list(v)
                e['min'] = e['max'] = None
            elif f == 'names':
                e['names'] = list(v) if v else None
                e['names_unknown'] = False
        if k in ('b', 'g') and out == 'ok':
            vals = list(o[1] if k == 'b' else o[2])
            exp_l = {'min': exp_p.get('min') if exp_p.get('min') is not None else (
                         min(vals) if kind == 'plain' else None),
                     'max': exp_p.get('max') if exp_p.get('max') is not None else (
                         max(vals) if kind == 'plain' else None),
                     'names': exp_p.get('names'), 'dom': exp_p.get('dom'),
                     'names_unknown': exp_p.get('names_unknown', False)}
            if list(s.live.values) != vals:
                return fail('values_kept', vals, list(s.live.values), step=k)
        if k == 'tp' and kind == 'cat' and not exp_p.get('names'):
            exp_p['names_unknown'] = True
        if k == 'tl' and kind == 'cat' and not exp_l.get('names'):
            exp_l['names_unknown'] = True
        if k in ('dl', 'tl'):
            exp_l['count'] = None
        if s.live is None:
            continue
        try:
            res = _live_clauses(s.live, exp_l)
        except Exception as e:
            return fail('legend_raises', 'a legend that can be read', 'raises %s: %s' % (type(e).__name__, e),
                        step=k, error=type(e).__name__)
        if res:
            return fail(res[0], res[1], res[2], step=k, field=o[1] if k in ('sp', 'sl') else k)
        # the live legend against a legend built in one go from its public state
        lp = s.live.legend_parameters
        try:
            fp = _fresh_par(lp)
            if not isinstance(lp, LegendParametersCategorized) and lp.is_segment_count_default:
                fp.segment_count = lp.segment_count        # the resolved default is part of the state
            fresh = Legend(list(s.live.values), fp)
            a, b = obs_live(s.live).split(' | '), obs_live(fresh).split(' | ')
        except Exception as e:
            return fail('public_state_not_constructible', 'a legend from the public state',
                        'raises %s: %s' % (type(e).__name__, e), step=k, error=type(e).__name__)
        a[0] = ' '.join(a[0].split()[:4])
        b[0] = ' '.join(b[0].split()[:4])
        if a != b:
            part = [i for i, (x, y) in enumerate(zip(a, b)) if x != y]
            return fail('history_differs_from_fresh', b, a, step=k, part=part[0] if part else -1)
    return None


# -- process order: the same oracle cases in fresh interpreters, in different orders

_WORKER_CODE = ('import sys; sys.path.insert(0, %r); from harness.props import c15; c15._worker_main()')


def _worker_main():
    import json
    import sys
    sys.path.insert(0, core.REPO)
    data = json.load(sys.stdin)
    fails = []
    for i, (op, inp) in enumerate(data['order']):
        try:
            res = check_case(op, inp)
        except Exception as e:
            res = {'required': 'oracle evaluates', 'observed': 'exception %s: %s' % (type(e).__name__, e),
                   'sig': {'exception': type(e).__name__}}
        if res:
            fails.append({'index': i, 'op': op, 'input': inp, 'required': res.get('required'),
                          'observed': res.get('observed'), 'sig': res.get('sig')})
            if len(fails) >= data.get('cap', 3):
                break
    json.dump({'fails': fails}, sys.stdout, default=str)


def _spawn_order(order, cap=3):
    import json
    import os
    import subprocess
    import sys
    env = dict(os.environ, LADYBUG_REPO=core.REPO, PYTHONDONTWRITEBYTECODE='1')
    p = subprocess.Popen([sys.executable, '-c', _WORKER_CODE % core.ROOT], stdin=subprocess.PIPE,
                         stdout=subprocess.PIPE, stderr=subprocess.PIPE, env=env)
    p._payload = json.dumps({'order': order, 'cap': cap}, default=str).encode('utf-8')
    return p


def _finish_order(p):
    import json
    out, err = p.communicate(p._payload, timeout=900)
    if p.returncode != 0:
        return [{'index': 0, 'op': 'import', 'input': {}, 'required': 'process runs',
                 'observed': err.decode('utf-8', 'replace')[-300:], 'sig': {'exception': 'worker'}}]
    return json.loads(out.decode('utf-8'))['fails']


def _run_order(order, cap=1):
    return _finish_order(_spawn_order(order, cap))


def _shrink_order(order, idx, budget=10):
    failing, prefix = order[idx], order[:idx]

    def still(pre):
        fs = _run_order(pre + [failing], cap=len(pre) + 1)
        return any(f['index'] == len(pre) for f in fs)

    if still([]):
        return [failing]
    budget -= 1
    chunk = max(1, len(prefix) // 2)
    while budget > 0 and prefix:
        i, removed = 0, False
        while i < len(prefix) and budget > 0:
            trial = prefix[:i] + prefix[i + chunk:]
            budget -= 1
            if still(trial):
                prefix, removed = trial, True
            else:
                i += chunk
        if chunk == 1 and not removed:
            break
        chunk = max(1, chunk // 2)
    return prefix + [failing]


def _rarity(case):
    """Sort key: rare classes first (refusing histories, categorised, zero bounds, single values)."""
    op, inp = case
    s = repr(inp)
    refusing = op in ('lhistory', 'crhistory') and ("'bad'" in s or '"bad"' in s)
    single = op == 'legend' and len(set(inp.get('vals', [0, 1]))) == 1
    cat = inp.get('kind') == 'cat'
    zero = op in ('legend', 'lhistory') and (inp.get('min') == 0 or inp.get('max') == 0)
    return (0 if refusing else 1, 0 if zero else 1, 0 if single else 1, 0 if cat else 1)


def process_orders(ctx, pool):
    rng = ctx.rng
    nproc = 4 if (ctx.searching or not ctx.quick) else 3
    orders = []
    for w in range(nproc):
        o = list(pool)
        rng.shuffle(o)
        if w == 0:
            o.sort(key=_rarity)
            ctx.count('order:rare_first')
        elif w == 1:
            o.sort(key=lambda cs: tuple(1 - x for x in _rarity(cs)))
            ctx.count('order:common_first')
        else:
            ctx.count('order:shuffled')
        orders.append(o)
    procs = [(_spawn_order(o), o) for o in orders]
    for p, o in procs:
        fs = _finish_order(p)
        ctx.count('process_order_runs')
        ctx.count('process_order_cases', len(o))
        ctx.case(('process_order', ctx.evaluations))
        if fs and len(ctx.failures) < 200:
            f = fs[0]
            small = _shrink_order(o, f['index']) if f['op'] != 'import' else []
            sig = dict(f.get('sig') or {})
            sig.update({'stage': 'process_order', 'at': f['op'], 'order_dependent': len(small) > 1})
            ctx.fail('process_order', {'order': small}, f['required'], f['observed'], sig)


def check_process_order(inp):
    fs = _run_order([list(x) for x in inp['order']], cap=1)
    if not fs:
        return None
    f = fs[0]
    sig = dict(f.get('sig') or {})
    sig.update({'stage': 'process_order', 'at': f['op']})
    return {'required': f['required'], 'observed': f['observed'], 'sig': sig}


# ---------------------------------------------------------------------------------------------
# round 4: typed graphic containers (data-type defaults), container shapes, aliasing, screen geometry,
# conventions between legend.py / color.py / graphic.py / ladybug_geometry

BUILTIN_KEYS = {
    'ThermalComfort': [1, 0], 'PredictedMeanVote': [-3, -2, -1, 0, 1, 2, 3], 'ThermalCondition': [-1, 0, 1],
    'ThermalConditionFivePoint': [-2, -1, 0, 1, 2], 'ThermalConditionSevenPoint': [-3, -2, -1, 0, 1, 2, 3],
    'ThermalConditionNinePoint': list(range(-4, 5)), 'ThermalConditionElevenPoint': list(range(-5, 6)),
    'UTCICategory': list(range(10)), 'CoreTemperatureCategory': [-2, -1, 0, 1, 2],
    'DiscomfortReason': [-2, -1, 0, 1, 2]}
BUILTIN_ORDINAL = sorted(BUILTIN_KEYS)


def tokn(t):
    return str(t).replace(' ', '_')


def make_dtype(spec):
    """(data_type, unit) of a typed-container case: ['none'] | ['unit', 'C'] | ['plain', 'Temperature'] |
    ['builtin', class name] | ['generic', [[key, text], ...]] | ['fromdict', [[key, text], ...]]
    (the pairs in dictionary insertion order)."""
    kind = spec[0]
    if kind == 'none':
        return None, None
    if kind == 'unit':
        return None, spec[1]
    if kind in ('builtin', 'plain'):
        import ladybug.datatype as dtm
        return dtm.TYPESDICT[spec[1]](), None
    pairs = {}
    for k, t in spec[1]:
        pairs[int(k)] = t
    if kind == 'generic':
        from ladybug.datatype.generic import GenericType
        return GenericType('Cases', 'case', unit_descr=pairs), None
    from ladybug.datatype.base import DataTypeBase
    return DataTypeBase.from_dict({'name': 'Cases', 'data_type': 'GenericType', 'base_unit': 'case',
                                   'unit_descr': pairs}), None


def descr_pairs(spec):
    """The unit description of the case's data type as [(key, text)] in iteration order, or None."""
    dt, _ = make_dtype(spec)
    d = None if dt is None else dt.unit_descr
    return None if d is None else [(k, d[k]) for k in d]


def gtype_line(c):
    ud = c.get('_ud')
    u = 'none' if ud is None else enc_ord([(k, tokn(t)) for k, t in ud])
    return 'gtype %s %s %s' % (rats(c['box']), u, legend_line(c)[len('legend '):])


def impl_gtype(c):
    from ladybug.graphic import GraphicContainer
    from ladybug_geometry.geometry3d.pointvector import Point3D
    from ladybug_geometry.geometry2d.pointvector import Point2D
    box = c['box']
    try:
        dt, unit = make_dtype(c['dt'])
        if c.get('p2d'):                     # branch: Point2D corners are converted
            p0, p1 = Point2D(box[0], box[1]), Point2D(box[2], box[3])
        else:
            p0, p1 = Point3D(box[0], box[1], 0), Point3D(box[2], box[3], 0)
        gc = GraphicContainer(shaped(c['vals'], c.get('shape')), p0, p1, make_par(c), dt, unit)
    except Exception as e:
        return 'err:' + err_name(e)
    return legend_secs(gc.legend, dict((t, tokn(t)) for _, t in (c.get('_ud') or [])))


def _pow2(q):
    q = Fraction(q)
    return q.denominator & (q.denominator - 1) == 0 and q.denominator <= 1024


def _pow2_frac(q):
    q = Fraction(q)
    return q > 0 and q.numerator & (q.numerator - 1) == 0 and q.denominator & (q.denominator - 1) == 0


def typed_expect(c, keys):
    """What the statement expects of a typed container, in plain numbers: (min, max, count | None) or
    the name of the expected refusal.  `keys`: the dictionary keys (None: no dictionary applies)."""
    vals = c['vals']
    mn = c['min'] if c['min'] is not None else min(vals)
    mx = c['max'] if c['max'] is not None else max(vals)
    if mn > mx:
        return 'refused'
    if keys is None:
        return (mn, mx, c['count'] if c['count'] is not None else (1 if mn == mx else 11))
    if not keys and (c['min'] is None or c['max'] is None):
        return 'refused'
    if c['min'] is None:
        mn = min(keys)
    if c['max'] is None:
        mx = max(keys)
    if mn > mx:
        return 'refused'
    if c['count'] is not None:
        return (mn, mx, c['count'])
    if mn in keys and mx in keys:
        return (mn, mx, len([k for k in keys if mn <= k <= mx]))
    return 'bound_not_a_key'


def gen_gtype(ctx, rng):
    """One typed graphic container: every built-in ordinal data type, generic types and
    `DataTypeBase.from_dict` types with dictionaries in any insertion order (ascending, descending,
    shuffled; contiguous or sparse keys; empty; one key), data types without categories, a bare unit,
    no data type; bounds default / a key / not a key / beyond the keys; count default / given; a
    user-given ordinal dictionary and categorised parameters (the data type must then be ignored)."""
    r = rng.random()
    if r < 0.4:
        name = rng.choice(BUILTIN_ORDINAL)
        spec, keys = ['builtin', name], list(BUILTIN_KEYS[name])
        ctx.count('gtype:type:builtin:' + name)
    elif r < 0.88:
        n = rng.choice([0, 1, 2, 2, 3, 3, 4, 5, 7])
        if rng.random() < 0.7:
            st = rng.randrange(-4, 4)
            keys = list(range(st, st + n))
        else:
            keys = rng.sample(range(-4, 10), n)
        order = rng.choice(['asc', 'desc', 'shuffled', 'shuffled'])
        keys.sort(reverse=(order == 'desc'))
        if order == 'shuffled':
            rng.shuffle(keys)
        ctx.count('gtype:dict_order:' + ('asc' if keys == sorted(keys) else
                                         'desc' if keys == sorted(keys, reverse=True) else 'shuffled'))
        ctx.count('gtype:dict_size:%d' % min(n, 4))
        kind = 'generic' if r < 0.72 else 'fromdict'
        spec = [kind, [[k, rng.choice(NAME_POOL) + str(k)] for k in keys]]
        ctx.count('gtype:type:' + kind)
    elif r < 0.93:
        spec, keys = ['plain', rng.choice(['Temperature', 'RelativeHumidity', 'Illuminance'])], None
        ctx.count('branch:gtype:datatype_without_categories')
    elif r < 0.97:
        spec, keys = ['unit', 'C'], None
        ctx.count('branch:gtype:unit_only')
    else:
        spec, keys = ['none'], None
        ctx.count('branch:gtype:no_datatype')
    c = {'kind': 'plain', 'dt': spec, 'cl': rng.random() < 0.35, 'vert': rng.random() < 0.6, 'dc': 2,
         'ils': rng.random() < 0.15, 'sh': None, 'sw': None, 'th': None, 'ord': None, 'names': None,
         'cc': None, 'shape': rng.choice(SHAPES), 'p2d': rng.random() < 0.15}
    if rng.random() < 0.2:
        c['sh'] = rng.choice([0.5, 1, 2])
    c['box'] = rng.choice([(0.0, 0.0, 8.0, 8.0), (0.0, 0.0, 16.0, 4.0), (-4.0, 2.0, 4.0, 34.0),
                           (0.0, 0.0, 0.0, 8.0), (0.0, 0.0, 8.0, 0.0)])
    ctx.count('branch:gtype:height:%s%s' % ('vertical' if c['vert'] else 'horizontal',
                                            '_fallback' if 0.0 in (c['box'][2] - c['box'][0],
                                                                   c['box'][3] - c['box'][1]) else ''))
    pool = sorted(keys) if keys else [0, 1, 2, 3]
    if rng.random() < 0.1:
        # categorised parameters: the data type must leave them alone
        dom = sorted(set(float(rng.choice(pool)) + rng.choice([0, 0.5]) for _ in range(rng.choice([1, 2, 3]))))
        c.update({'kind': 'cat', 'dom': dom, 'cols': gen_colors(rng, len(dom) + 1), 'ils': None, 'cc': rng.random() < 0.3,
                  'vals': [float(rng.choice(pool)) for _ in range(rng.randrange(1, 6))], 'exact': True,
                  'min': None, 'max': None, 'count': None})
        ctx.count('branch:gtype:categorised_kept')
        return c
    ncol = rng.choice([2, 3, 5, 9, 17, None])
    c['cols'] = None if ncol is None else gen_colors(rng, ncol)
    mode = rng.choice(['neither'] * 9 + ['min', 'min', 'max', 'max', 'both', 'both', 'both', 'nonkey', 'nonkey', 'beyond'])
    num = (lambda k: float(k) if rng.random() < 0.5 else int(k))
    c['min'] = c['max'] = None
    if mode in ('min', 'both'):
        c['min'] = num(rng.choice(pool[:max(1, len(pool) - 1)]))
    if mode in ('max', 'both'):
        c['max'] = num(rng.choice([k for k in pool if c['min'] is None or k >= c['min']] or [pool[-1]]))
    if mode == 'nonkey':
        if rng.random() < 0.5:
            c['min'] = pool[0] + rng.choice([0.5, -1, 0.25])
        else:
            c['max'] = pool[-1] + rng.choice([-0.5, 1, 3])
    if mode == 'beyond':
        c['min'] = pool[-1] + 1                      # above the largest key: min > max must be refused
    c['count'] = None if rng.random() < 0.75 else rng.choice([1, 2, 3, 5])
    nv = rng.randrange(1, 7)
    vals = [num(rng.choice(pool)) for _ in range(nv)]
    if rng.random() < 0.2:
        vals.append(rng.choice(pool) + 0.5)
    if rng.random() < 0.15:
        vals = [vals[0]] * rng.randrange(1, 4)       # single-value data (count default -> 1 -> re-aligned)
        ctx.count('gtype:single_value_data')
    if mode == 'beyond':
        vals.append(c['min'] + 2)                    # so that the legend alone is accepted
    c['vals'] = vals
    if rng.random() < 0.1:
        ks = list(set(rng.randrange(-3, 6) for _ in range(rng.randrange(1, 5))))
        rng.shuffle(ks)
        c['ord'] = [(k, 'own' + str(k)) for k in ks]
        ctx.count('branch:gtype:user_dictionary_kept')
    applies = keys is not None and c['ord'] is None
    e = typed_expect(c, keys if applies else None)
    ctx.count('gtype:bounds:' + mode)
    if applies:
        ctx.count('branch:gtype:ordinal:' + (e if isinstance(e, str) else
                                              'count_aligned' if c['count'] is None else 'count_given'))
        if c['min'] is None:
            ctx.count('branch:gtype:min_from_keys')
        if c['max'] is None:
            ctx.count('branch:gtype:max_from_keys')
    c['exact'] = True
    if not isinstance(e, str):
        mn, mx, n = e
        w = Fraction(mx) - Fraction(mn)
        # exact float arithmetic: the colour interval (max - min) / (colours - 1) is a power of two (exact
        # blend factors) and the segment step is dyadic
        c['exact'] = ncol is not None and (w == 0 or (_pow2_frac(w / (ncol - 1)) and
                                                      (n == 1 or _pow2(w / (n - 1)))))
    return c


def compare_gtype(ctx, cases):
    for c in cases:
        try:
            c['_ud'] = descr_pairs(c['dt'])
        except Exception:
            c['_ud'] = None
    compare_legend(ctx, cases, line_fn=gtype_line, impl_fn=impl_gtype, op='gtype')


GTYPE_CORPUS = [
    # the built-in dictionary that is not written in key order, all defaults / one bound given
    {'kind': 'plain', 'dt': ['builtin', 'ThermalComfort'], 'vals': [0, 1, 1, 0], 'cl': False, 'vert': True, 'dc': 2},
    {'kind': 'plain', 'dt': ['builtin', 'ThermalComfort'], 'vals': [0, 1, 1, 0], 'min': 0, 'cl': False, 'vert': True, 'dc': 2},
    {'kind': 'plain', 'dt': ['builtin', 'ThermalComfort'], 'vals': [1, 1], 'max': 1, 'cl': True, 'vert': False, 'dc': 2},
    {'kind': 'plain', 'dt': ['generic', [[0, 'Low'], [2, 'High'], [1, 'Medium']]], 'vals': [0, 1, 2, 2], 'cl': False,
     'vert': True, 'dc': 2},
    {'kind': 'plain', 'dt': ['fromdict', [[3, 'c'], [-1, 'a'], [1, 'b']]], 'vals': [-1, 1, 3], 'cl': False, 'vert': False,
     'dc': 2, 'cols': [[0, 0, 255], [0, 255, 0], [255, 0, 0]]},
    {'kind': 'plain', 'dt': ['builtin', 'PredictedMeanVote'], 'vals': [-0.5, 0, 2.5], 'min': -1, 'max': 1, 'cl': False,
     'vert': True, 'dc': 2},
    {'kind': 'plain', 'dt': ['builtin', 'UTCICategory'], 'vals': [5, 5, 5], 'cl': False, 'vert': True, 'dc': 2},
    {'kind': 'plain', 'dt': ['plain', 'Temperature'], 'vals': [18.5, 30], 'cl': False, 'vert': True, 'dc': 2},
    {'kind': 'plain', 'dt': ['builtin', 'ThermalCondition'], 'vals': [-1, 0, 1], 'cl': False, 'vert': True, 'dc': 2,
     'ord': [[1, 'x'], [0, 'y']]},
    # finding C15-graphic-ordinal-bound-not-a-key
    {'kind': 'plain', 'dt': ['builtin', 'ThermalComfort'], 'vals': [0, 1], 'min': 0.5, 'cl': False, 'vert': True, 'dc': 2},
]


def _gtype_full(inp):
    c = _full_legend_case(inp)
    c.setdefault('box', (0.0, 0.0, 8.0, 8.0))
    c.setdefault('dt', ['none'])
    c['exact'] = False
    return c


def check_gtype(inp):
    """Statement of C15 for a GraphicContainer with a data type: the defaults derive from the data
    type's categories (least / greatest key, one segment per category between the bounds, the
    categories' names as labels) whatever order the dictionary was written in; a user-given
    dictionary and categorised parameters are kept; without categories the container's legend is
    the legend of the values; the general legend clauses hold; the data type is left as it was."""
    from ladybug.legend import Legend
    from ladybug.graphic import GraphicContainer
    from ladybug_geometry.geometry3d.pointvector import Point3D
    c = _gtype_full(inp)
    vals = list(c['vals'])
    sig = {'kind': c['kind'], 'type': c['dt'][0]}

    def fail(clause, req, obs, **kw):
        return {'required': req, 'observed': obs, 'sig': dict(sig, clause=clause, **kw)}

    try:
        dt, unit = make_dtype(c['dt'])
        before = None if dt is None or dt.unit_descr is None else list(dt.unit_descr.items())
    except Exception as e:
        return fail('datatype_raises', 'a data type', 'raises %s: %s' % (type(e).__name__, e))
    try:
        lp = make_par(c)
        alone = Legend(list(vals), lp)
    except AssertionError:
        return None                                   # rejected legend (checked by the correspondence)
    keys = None if before is None else [k for k, _ in before]
    applies = keys is not None and c['kind'] == 'plain' and c['ord'] is None
    e = typed_expect(c, keys if applies else None) if c['kind'] == 'plain' else None
    box = c['box']
    flat = (box[2] - box[0]) == 0 and (box[3] - box[1]) == 0 and c['sh'] is None
    try:
        gc = GraphicContainer(shaped(vals, c.get('shape')), Point3D(box[0], box[1], 0),
                              Point3D(box[2], box[3], 0), lp, dt, unit)
    except Exception as ex:
        if flat or e == 'refused':
            return None
        if e == 'bound_not_a_key':
            return fail('typed_bound_not_a_key', 'a legend whose given bound is kept (segment count not aligned)',
                        'raises %s: %s' % (type(ex).__name__, ex), error=type(ex).__name__)
        return fail('typed_construct', 'a graphic container', 'raises %s: %s' % (type(ex).__name__, ex),
                    error=type(ex).__name__)
    lg, par = gc.legend, gc.legend_parameters
    if before is not None and list(dt.unit_descr.items()) != before:
        return fail('datatype_dictionary_changed', before, list(dt.unit_descr.items()))
    if e == 'refused':
        return fail('typed_bounds_order', 'refused: min above max', (par.min, par.max))
    exp = {}
    if applies and not isinstance(e, str):
        mn, mx, n = e
        exp = {'min': mn, 'max': mx}
        if par.min != mn:
            return fail('typed_default_min' if c['min'] is None else 'typed_given_min', mn, par.min,
                        order='sorted' if keys == sorted(keys) else 'unsorted')
        if par.max != mx:
            return fail('typed_default_max' if c['max'] is None else 'typed_given_max', mx, par.max,
                        order='sorted' if keys == sorted(keys) else 'unsorted')
        if par.segment_count != n:
            return fail('typed_segment_count', n, par.segment_count, given=c['count'] is not None,
                        order='sorted' if keys == sorted(keys) else 'unsorted')
        od = par.ordinal_dictionary
        if od is None or dict(od) != dict(before):
            return fail('typed_dictionary', dict(before), od)
        nums, text = list(lg.segment_numbers), list(lg.segment_text)
        want = [dict(before).get(x, '') if float(x).is_integer() else '' for x in nums]
        if text != want:
            return fail('typed_labels', want, text)
        inside = [k for k in sorted(keys) if mn <= k <= mx]
        if c['count'] is None and inside == list(range(int(mn), int(mx) + 1)) and \
                text != [dict(before)[k] for k in inside]:
            return fail('typed_labels_all', [dict(before)[k] for k in inside], text)
    elif not applies:
        # nothing to derive from the data type: the container's legend is the legend of the values
        a, b = obs_live(lg).split(' | '), obs_live(alone).split(' | ')
        if a != b:
            part = [i for i, (x, y) in enumerate(zip(a, b)) if x != y]
            return fail('untyped_equals_legend', b, a, part=part[0] if part else -1)
        if c['kind'] == 'plain' and c['ord'] is not None and dict(par.ordinal_dictionary) != dict(
                (int(k), t) for k, t in c['ord']):
            return fail('user_dictionary_kept', c['ord'], par.ordinal_dictionary)
    try:
        res = _live_clauses(lg, exp)
    except Exception as ex:
        return fail('legend_raises', 'a legend that can be read', 'raises %s: %s' % (type(ex).__name__, ex),
                    error=type(ex).__name__)
    if res:
        return fail(res[0], res[1], res[2])
    if [_rgb(x) for x in gc.value_colors] != [_rgb(x) for x in lg.value_colors]:
        return fail('graphic_value_colors', [_rgb(x) for x in lg.value_colors], [_rgb(x) for x in gc.value_colors])
    if len(gc) != len(vals) or list(gc.values) != vals:
        return fail('graphic_values', vals, list(gc.values))
    # dictionary form (consumer of the same producers)
    try:
        again = GraphicContainer.from_dict(gc.to_dict())
        a, b = obs_live(again.legend).split(' | '), obs_live(lg).split(' | ')
    except Exception as ex:
        return fail('graphic_dict_raises', 'a container from its dictionary', 'raises %s: %s' % (type(ex).__name__, ex),
                    error=type(ex).__name__)
    a[0], b[0] = ' '.join(a[0].split()[:4]), ' '.join(b[0].split()[:4])
    if a != b and not (c['kind'] == 'cat' and c['names'] is None):
        part = [i for i, (x, y) in enumerate(zip(a, b)) if x != y]
        return fail('graphic_dict_differs', b, a, part=part[0] if part else -1)
    return None


# -- container shapes (kind f): every sequence argument as list, tuple, generator, iter, map


def _range_snapshot(cr, probe):
    out = [tuple(cr.domain), [_rgb(x) for x in cr.colors]]
    for v in probe:
        try:
            out.append(_rgb(cr.color(v)))
        except Exception as e:
            out.append('raises ' + type(e).__name__)
    return out


def check_shapes(inp):
    """The answer of every entry point that takes a sequence does not depend on the container type
    of the argument (list, tuple, generator, `iter`, `map` object)."""
    from ladybug.color import Color, ColorRange
    from ladybug.legend import Legend
    from ladybug.graphic import GraphicContainer
    from ladybug_geometry.geometry3d.pointvector import Point3D
    c = inp['case']

    def fail(entry, shape, req, obs, **kw):
        return {'required': req, 'observed': obs,
                'sig': dict(clause='shape_dependent', entry=entry, shape=shape,
                            shape_class='one_shot' if shape in ('gen', 'iter', 'map') else 'sequence', **kw)}

    if inp['what'] == 'range':
        cols = [Color(*x) for x in c['cols']]
        dom = list(c['dom'])
        lo, hi = min(dom), max(dom)
        probe = [lo, hi, (lo + hi) / 2, lo + (hi - lo) * 0.37, lo - 1.0, hi + 1.0]
        try:
            ref = _range_snapshot(ColorRange(list(cols), list(dom), c['cont']), probe)
        except Exception:
            return None
        known = None
        for shape in SHAPES[1:]:
            for entry in ('ColorRange.colors', 'ColorRange.domain', 'ColorRange.domain.setter',
                          'ColorRange.colors.setter'):
                if 'domain' in entry and shape in ('gen', 'iter', 'map') and not inp.get('domain_one_shot'):
                    continue                     # finding C15-colorrange-domain-one-shot: a few cases per run
                try:
                    if entry == 'ColorRange.colors':
                        cr = ColorRange(shaped(cols, shape), list(dom), c['cont'])
                    elif entry == 'ColorRange.domain':
                        cr = ColorRange(list(cols), shaped(dom, shape), c['cont'])
                    elif entry == 'ColorRange.domain.setter':
                        cr = ColorRange(list(cols), list(reversed(dom)), c['cont'])
                        cr.domain = shaped(dom, shape)
                    else:
                        cr = ColorRange(list(reversed(cols)), list(dom), c['cont'])
                        cr.colors = shaped(cols, shape)
                    got = _range_snapshot(cr, probe)
                except Exception as e:
                    return fail(entry, shape, ref, 'raises %s' % type(e).__name__, symptom='raises')
                if got != ref:
                    f = fail(entry.replace('.setter', '') if 'domain' in entry else entry, shape, ref, got,
                             symptom='domain_empty' if got[0] == () else 'differs')
                    if 'domain' in entry and got[0] == () and shape in ('gen', 'iter', 'map'):
                        known = known or f       # the recorded finding must not hide the other entries
                        continue
                    return f
        return known
    c = _full_legend_case(c)
    vals = list(c['vals'])
    try:
        ref = obs_live(Legend(list(vals), make_par(c, 'list')))
    except AssertionError:
        return None
    p0, p1 = Point3D(0, 0, 0), Point3D(8, 8, 0)
    for shape in SHAPES[1:]:
        try:
            got = obs_live(Legend(shaped(vals, shape), make_par(c, shape)))
        except Exception as e:
            return fail('Legend/LegendParameters', shape, ref, 'raises %s: %s' % (type(e).__name__, e))
        if got != ref:
            return fail('Legend/LegendParameters', shape, ref, got)
        try:
            got = [_rgb(x) for x in GraphicContainer(shaped(vals, shape), p0, p1, make_par(c, shape)).value_colors]
            want = [_rgb(x) for x in GraphicContainer(list(vals), p0, p1, make_par(c, 'list')).value_colors]
        except Exception as e:
            return fail('GraphicContainer.values', shape, 'value colours', 'raises %s: %s' % (type(e).__name__, e))
        if got != want:
            return fail('GraphicContainer.values', shape, want, got)
        # the setters
        try:
            lp = make_par(c, 'list')
            if c['kind'] == 'cat':
                apply_field(lp, 'dom', sorted(c['dom']), shape)
                apply_field(lp, 'cols', c['cols'], shape)
                if c['names'] is not None:
                    apply_field(lp, 'names', c['names'], shape)
            elif c['cols'] is not None:
                apply_field(lp, 'cols', c['cols'], shape)
            got = obs_live(Legend(shaped(vals, shape), lp))
        except Exception as e:
            return fail('LegendParameters.setters', shape, ref, 'raises %s: %s' % (type(e).__name__, e))
        if got != ref:
            return fail('LegendParameters.setters', shape, ref, got)
    return None


# -- aliasing, screen geometry, conventions on one legend


def _px(s, total):
    return int(s[:-2]) if s.endswith('px') else int(float(s[:-1]) * total * 0.01)


def check_extra(inp):
    """Further clauses on one legend: (f) results are not shared - editing a returned list / dictionary
    or building a second legend from the same parameters (or from no parameters) does not change the
    first legend's answers; (g) the mesh spans `cells x segment dimension` in the direction of the
    legend and one segment dimension across, in the legend's own corner; (j) every branch of the
    screen-space label positions and of the colour map has one entry / one band per segment;
    the dictionary forms of the colour range colour alike; (e) a categorised legend with continuous
    colours over two boundaries colours like the plain legend over the same bounds."""
    import json
    from ladybug.color import Color, ColorRange
    from ladybug.legend import Legend, LegendParameters, LegendParametersCategorized
    c = _full_legend_case(inp)
    vals = list(c['vals'])
    sig = {'kind': c['kind'], 'vertical': bool(c['vert']), 'gradient': bool(c['cl'])}

    def fail(clause, req, obs, **kw):
        return {'required': req, 'observed': obs, 'sig': dict(sig, clause=clause, **kw)}

    try:
        lp = make_par(c)
        px = inp.get('px') or {}
        for k, v in px.items():
            setattr(lp, k, v)
        lg = Legend(list(vals), lp)
    except AssertionError:
        return None
    par = lg.legend_parameters
    n = par.segment_count
    cells = n - 1 if par.continuous_legend else n
    try:
        first = obs_live(lg)
        pfirst = obs_par(lp)
        # (f) edits of returned containers
        t = lg.segment_text
        keep = list(t)
        if isinstance(t, list) and t:
            t[0] = 'edited'
            t.append('more')
        if list(lg.segment_text) != keep:
            return fail('alias_segment_text', keep, list(lg.segment_text))
        d = lg.to_dict()
        dp = d['legend_parameters']
        for key in ('colors', 'domain', 'category_names'):
            if isinstance(dp.get(key), list):
                del dp[key][:]
        if isinstance(d.get('values'), list):
            del d['values'][:]
        if obs_live(lg) != first:
            return fail('alias_to_dict', first, obs_live(lg))
        # (f) a second legend from the same parameters, with other data and edited afterwards
        other = Legend([min(vals)] * 2 + [max(vals), min(vals)], lp)
        if not isinstance(other.legend_parameters, LegendParametersCategorized):
            other.legend_parameters.segment_count = n + 3
            other.legend_parameters.colors = [Color(1, 2, 3), Color(4, 5, 6)]
            other.legend_parameters.decimal_count = 4
        other.legend_parameters.vertical = not par.vertical
        other.legend_parameters.continuous_legend = not par.continuous_legend
        if obs_live(lg) != first:
            return fail('second_legend_changes_first', first, obs_live(lg))
        if obs_par(lp) != pfirst:
            return fail('second_legend_changes_parameters', pfirst, obs_par(lp))
        # (f) default parameters are not shared between legends
        a = Legend(list(vals))
        a_first = obs_live(a)
        b = Legend([v + 100 for v in vals] + [min(vals) - 50])
        b.legend_parameters.segment_count = 3
        b.legend_parameters.colors = [Color(9, 9, 9), Color(8, 8, 8)]
        b.legend_parameters.vertical = False
        if obs_live(a) != a_first:
            return fail('default_parameters_shared', a_first, obs_live(a))
        if LegendParameters().segment_count != 11 or len(LegendParameters().colors) != 10:
            return fail('default_parameters_polluted', (11, 10), (LegendParameters().segment_count,
                                                                  len(LegendParameters().colors)))
        # dictionary form of the colour range
        cr = lg.color_range
        cr2 = ColorRange.from_dict(json.loads(json.dumps(cr.to_dict())))
        cr3 = cr.duplicate()
        for v in vals + list(lg.segment_numbers):
            if not (_rgb(cr2.color(v)) == _rgb(cr.color(v)) == _rgb(cr3.color(v))):
                return fail('color_range_copy_differs', _rgb(cr.color(v)), (_rgb(cr2.color(v)), _rgb(cr3.color(v))))
        # (e) siblings
        if c['kind'] == 'cat' and c['cc'] and len(c['dom']) == 2 and min(c['dom']) < max(c['dom']):
            sib = Legend(list(vals), LegendParameters(min(c['dom']), max(c['dom']), None,
                                                      [Color(*x) for x in c['cols']]))
            if [_rgb(x) for x in sib.value_colors] != [_rgb(x) for x in lg.value_colors]:
                return fail('sibling_categorised_plain', [_rgb(x) for x in sib.value_colors],
                            [_rgb(x) for x in lg.value_colors])
        if cells < 1:
            return None
        # (g) mesh extents
        sh, sw = float(par.segment_height), float(par.segment_width)
        m = lg.segment_mesh_scene_2d
        xs, ys = [p.x for p in m.vertices], [p.y for p in m.vertices]
        want = (0.0, sw, 0.0, cells * sh) if par.vertical else (-sw * cells, 0.0, 0.0, sh)
        got = (min(xs), max(xs), min(ys), max(ys))
        tol = 1e-9 * max(1.0, max(abs(x) for x in want))
        if any(abs(g - w) > tol for g, w in zip(got, want)):
            return fail('mesh_extent', want, got)
        m3 = lg.segment_mesh
        if len(m3.vertices) != len(m.vertices) or len(m3.faces) != cells:
            return fail('mesh_3d_counts', (len(m.vertices), cells), (len(m3.vertices), len(m3.faces)))
        pts = lg.segment_text_location_scene_2d
        if len(pts) != n:
            return fail('text_positions_count', n, len(pts))
        for i in range(1, n):
            dx, dy = pts[i].x - pts[i - 1].x, pts[i].y - pts[i - 1].y
            w = (0.0, sh) if par.vertical else (sw, 0.0)
            if abs(dx - w[0]) > tol * 10 or abs(dy - w[1]) > tol * 10:
                return fail('text_positions_step', w, (dx, dy), index=i)
        if not par.vertical and abs(pts[0].x - min(xs)) > tol * 10:
            return fail('text_positions_start', min(xs), pts[0].x)
        # (j) screen space: one label position per segment, evenly spaced, in all four branches
        W, H = inp.get('screen', (800, 600))
        sp = lg.segment_text_location_2d(W, H)
        if len(sp) != n:
            return fail('screen_positions_count', n, len(sp))
        psh, psw = _px(par.segment_height_2d, H), _px(par.segment_width_2d, W)
        for i in range(1, n):
            dx, dy = sp[i].x - sp[i - 1].x, sp[i].y - sp[i - 1].y
            w = (0, -psh) if par.vertical else (psw, 0)
            if (dx, dy) != w:
                return fail('screen_positions_step', w, (dx, dy), index=i)
        # (j) colour map: bands / gradient between black borders
        if psh < 1 or psw < 1:
            return None
        scol = [_rgb(x) for x in lg.segment_colors]
        black = (0, 0, 0)
        if par.continuous_legend and not lg.segment_numbers[0] < lg.segment_numbers[-1]:
            return None                              # zero-width gradient: nothing to sample
        mp = lg.color_map_2d(W, H)
        rows = [[_rgb(x) for x in row] for row in mp]
        if any(x != black for x in rows[0]) or any(x != black for x in rows[-1]):
            return fail('color_map_border', 'black first and last row', (rows[0][:3], rows[-1][:3]))
        inner = rows[1:-1]
        if not par.continuous_legend:
            if par.vertical:
                if len(inner) != n * psh or any(len(r) != psw for r in rows):
                    return fail('color_map_size', (n * psh, psw), (len(inner), len(rows[0])))
                for j, r in enumerate(inner):
                    want_c = scol[n - 1 - j // psh]
                    if psw > 2 and any(x != want_c for x in r[1:-1]):
                        return fail('color_map_band', want_c, r[1:-1][:3], band=j // psh)
            else:
                if len(inner) != psh or any(len(r) != psw * n for r in rows):
                    return fail('color_map_size', (psh, psw * n), (len(inner), len(rows[0])))
                for r in inner[:2]:
                    for j in range(1, psw * n - 1):
                        if r[j] != scol[j // psw]:
                            return fail('color_map_band', scol[j // psw], r[j], band=j // psw)
        else:
            stn, endn = lg.segment_numbers[0], lg.segment_numbers[-1]
            total = (psh if par.vertical else psw) * (n - 1)
            spn = (endn - stn) / total
            if par.vertical:
                seq = [r[1] if len(r) > 2 else None for r in reversed(inner)]
                if not total <= len(seq) <= total + 1 or any(len(r) != psw for r in rows):
                    return fail('color_map_size', (total, psw), (len(seq), len(rows[0])))
            else:
                if len(inner) != psh or any(len(r) != total for r in rows):
                    return fail('color_map_size', (psh, total), (len(inner), len(rows[0])))
                seq = [None] + inner[0][1:-1] + [None]
            if c['kind'] == 'cat' and not (len(c['dom']) == 2 and c['cc']):
                seq = []        # unevenly spaced stops: the sample positions are float-accumulated, no oracle
            for j, got_c in enumerate(seq):
                if got_c is None:
                    continue
                want_c = _rgb(cr.color(stn + j * spn))
                if not cr.continuous_colors:
                    if got_c not in [_rgb(x) for x in cr.colors]:      # a step function: no tolerance at the steps
                        return fail('color_map_gradient', 'a colour of the range', got_c, index=j)
                elif any(abs(g - w) > 1 for g, w in zip(got_c, want_c)):
                    return fail('color_map_gradient', want_c, got_c, index=j)
    except Exception as e:
        return fail('extra_raises', 'the legend answers', 'raises %s: %s' % (type(e).__name__, e),
                    error=type(e).__name__)
    return None


PX_POOL = [None, None, {'segment_height_2d': '4px', 'segment_width_2d': '3px'},
           {'segment_height_2d': '2%', 'segment_width_2d': '1.5%', 'text_height_2d': '2.5%'},
           {'segment_height_2d': '12px', 'segment_width_2d': '1%', 'origin_x': '5%', 'origin_y': '20px'}]


def count_branches(ctx, op, c):
    """Which branches of the anchored functions a generated case reaches (module header: list)."""
    if op == 'range':
        ctx.count('branch:domain:' + ('remap_two_values' if c['cont'] and len(c['dom']) == 2 else
                                      'multi_stop' if c['cont'] else 'segmented'))
        if len(set(c['dom'])) == 1:
            ctx.count('branch:color:' + ('fallthrough_single_boundary' if len(c['dom']) == 1 else
                                         'zero_division_blend' if c['cont'] else 'zero_width_segmented'))
        ctx.count('branch:color:below+above+interval_%s' % ('blend' if c['cont'] else 'segment'))
        return
    cat = c['kind'] == 'cat'
    ctx.count('branch:text:' + (('cat_names_given' if c.get('names') else 'cat_names_generated') if cat else
                                'ordinal' if c.get('ord') is not None else
                                'numeric_marked' if c.get('ils') else 'numeric'))
    ctx.count('branch:points+mesh:%s_%s' % ('vertical' if c['vert'] else 'horizontal',
                                            'gradient' if c['cl'] else 'discrete'))
    ctx.count('branch:color_range:' + ('categorised' if cat else 'plain'))
    if not cat:
        if c.get('min') is None:
            ctx.count('branch:init:min_from_data')
        if c.get('max') is None:
            ctx.count('branch:init:max_from_data')
        if c.get('count') == 1 or (c.get('count') is None and c.get('min') is None and c.get('max') is None
                                   and len(set(c['vals'])) == 1):
            ctx.count('branch:numbers:zero_division_single_segment')
        if not c['vert'] and c.get('sw') is None:
            ctx.count('branch:init:horizontal_default_width')


def _round4_cases(ctx):
    rng = ctx.rng
    big = ctx.searching or not ctx.quick
    for inp in GTYPE_CORPUS:
        yield 'gtype', inp
    yield 'shapes', SHAPES_FINDING_INPUT
    nonkey = 0
    for _ in range(4000 if big else 700):
        c = gen_gtype(ctx, rng)
        c = {k: v for k, v in c.items() if k not in ('exact', '_ud')}
        if c['kind'] == 'plain' and c['count'] is None and c['ord'] is None and c['dt'][0] in (
                'builtin', 'generic', 'fromdict') and (c['min'] is not None or c['max'] is not None):
            ks = BUILTIN_KEYS[c['dt'][1]] if c['dt'][0] == 'builtin' else [k for k, _ in c['dt'][1]]
            if typed_expect(c, ks) == 'bound_not_a_key':
                nonkey += 1
                if nonkey > 6:
                    continue                 # finding C15-graphic-ordinal-bound-not-a-key: a few per run
        yield 'gtype', _jsonable(c)
    for _ in range(1200 if big else 160):
        n = rng.choice([2, 3, 5, 10])
        cont = rng.random() < 0.6
        lo = rng.choice([0.0, 1.0, -3.5, 1e6, 2e-9])
        dom = [lo, lo + rng.choice([1.0, 9.0, 1e-9, 144.0])]
        if not cont:
            dom = sorted(lo + i for i in range(rng.randrange(1, n)))
        yield 'shapes', {'what': 'range', 'domain_one_shot': rng.random() < 0.03,
                         'case': {'cols': [list(x) for x in gen_colors(rng, n)], 'dom': dom, 'cont': cont}}
    for _ in range(1500 if big else 220):
        c = gen_legend(ctx, rng, True)
        yield 'shapes', {'what': 'legend', 'case': _jsonable(c)}
    for i in range(5000 if big else 900):
        c = gen_legend(ctx, rng, rng.random() < 0.6)
        if i % 8 == 0:
            c = gen_legend_defaults(ctx, rng, True)
        c = _jsonable(c)
        count_branches(ctx, 'legend', c)
        c['px'] = rng.choice(PX_POOL)
        if c['px']:
            ctx.count('extra:screen_dims_given')
        if rng.random() < 0.3:
            c['screen'] = [rng.choice([640, 1024, 333]), rng.choice([480, 768, 211])]
        yield 'extra', c


SHAPES_FINDING_INPUT = {'what': 'range', 'domain_one_shot': True, 'case': {'cols': [[0, 0, 0], [255, 255, 255]], 'dom': [0, 10], 'cont': True}}


LEVEL_TEXT = ('Machine-checked Lean 4 theorems (37) over an executable Rat model of ColorRange, Legend and '
              'GraphicContainer: for every colour list, domain and value: stop exactness, every channel between '
              'the neighbouring stop channels, monotone movement in the value (Python round is monotone), '
              'clamping beyond the ends, segmented interval colour, zero-width and one-boundary domains, '
              'duplicated stops (weakly increasing domains: the exact blend on every half-open interval, the '
              'first of equal stops wins, every in-range value is covered), fewer stops than colours, 2-value '
              'domain re-mapped to evenly spaced stops; for every legend: segment numbers min + i(max-min)/(n-1) '
              'with first = min and last = max, all per-segment lists of length n, mesh cells n / n-1, label '
              'content (round(number, decimals) at token level, < > marks, ordinal dictionary), value colours = '
              'map of the colour range, defaults from the resolved bounds, categorised legends use their own '
              'domain/colours/names, a GraphicContainer colours like its own legend; a GraphicContainer with an ordinal '
              'data type takes the least / greatest key and one segment per key whatever order the dictionary was '
              'written in (user dictionaries and categorised parameters are kept); object state machines for '
              'histories on one ColorRange / parameters object / legend: a refused operation leaves the state '
              'unchanged, reads are pure and commute, and after ANY history plain parameters equal the object '
              'built in one go from their final public attributes (no hidden state). The model is compared with '
              'the real classes on exact (bit for bit) and float (near-tie rule) streams and, step by step, on '
              'generated histories (assignments incl. refused ones, rebuilds, copies, dict round trips, reads); '
              'the history oracle and a fresh-interpreter order run judge the real objects independently.')
LEVEL_NOTE = ('Trusted: Lean kernel; axioms propext/Classical.choice/Quot.sound only; the correspondence run '
              '(agreement on generated inputs only); exact-vs-float arithmetic (rounding ties counted, not '
              'proved); ladybug_geometry mesh counts; the hand-copied default colour set; text formatting is '
              'proved at token level (sign, rounded magnitude), its characters are compared only.')
TECHNIQUE = ('Lean 4 proof (induction on the interval search, monotonicity of round-half-even on Rat, linear '
             'arithmetic) about a model tied to color.py/legend.py by differential correspondence')
