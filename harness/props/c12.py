"""C12 — Wea objects carry the irradiance of their source at the right time steps.

Model: lean/Ladybug/Model/Wea.lean (on top of Cal / AP); theorems: lean/Ladybug/Props/C12.lean
(lemmas Proofs/C12Lemmas.lean); driver: drv_c12.  Tie: correspondence (ops below).

The model, the theorems and the oracle describe wea.py WITH fixes/C12_1..3 applied (leap-year
reading of .wea files, minute rounding on the sparse path, leap flag in Wea.from_dict).

Round 3: object state machine Model/WeaObj.lean (lemmas Proofs/C12Obj.lean), histories on one Wea / one EPW
object / one folder and process-order independence: see the section "round 3" below (it lists the consumers of
every producer).

Round 4 (kinds e-j; see the section "round 4" for the list of branches of the anchored functions and the stratum that
reaches each): `cli_ap` = the translator given analysis periods as TEXT (1- and 2-digit hours mixed, overnight, wrapping dates,
padded / upper-case / blank-rich forms, the leap-year EPW with `*`, refused texts), checked against an independent reading of the
text + the EPW rows and against the library calls with the period built from NUMBERS; filters with the period built from text /
string arguments / floats / repr / dict / duplicate and with sequence arguments as tuple / generator / iter / map; `siblings` = every
observable and every filter on the four sibling classes (continuous, discontinuous, immutable twins) holding the same data;
results kept across later calls and edited in place (hist, siblings); `file_shapes` = .wea files with tabs / blanks / CRLF / signs /
padded fields / decimal and exponent numbers; `shapes` = constructors fed tuples / lists, arguments edited afterwards, dictionaries
handed out edited, Location numbers as text; numeric-edge values (mode 2); clear skies and EPW interpolation at time steps that are not
binary fractions of an hour, .stat files (missing optical depths refused), Zhang-Huang with pressure / DISC; get_irradiance_value(_for_hoy)
at every sampled step of annual Weas (known finding C12-get-for-hoy-float-index); Model/WeaCli.lean + ops `cliap`, `hoyidx`.

Round 6 (three classes of subtle maintenance change):
  * strictness of a range bound (closed vs half-open): period requests whose first / last day sits exactly ON the first / last day of a
    partial continuous source (plain and year-wrapping), one day inside, one day outside (clipped): `_sub_matrix` (every run), `_sub_period`
    (random filters, siblings); Model/WeaCli.lean `subsetAP` (= HourlyContinuousCollection._get_analysis_period_subset, observed on the public
    result of filter_by_analysis_period, op `apsub`), theorems C12_subset_*.
  * a time lag given in hours where the series is indexed in steps: Zhang-Huang inputs of a sub-hourly timestep in EVERY run (oracle op sky/zh,
    every step); `zhLagIndex` + op `zhlag` (the series the sky model receives), theorems C12_zh_lag_*.  The other shifts of the anchored code
    (half-hour shift of hourly data, DAYSIM shift of timestep / 2 positions) were already run at hourly and sub-hourly timesteps in every run.
  * a branch chosen from a summary of the data (row count, length) instead of the data: year-sized Weas that are not 1 Jan - 31 Dec (a whole
    year from another first day, wrapping the year end; the same one day short) through file and dictionary round trips and through the
    from_file model (`read:year_count_*`); theorem C12_file_year_sized_by_rows.
"""
import io
import json
import os
import random
import re
import shutil
import struct
import tempfile
import atexit
from datetime import datetime, timedelta
from decimal import Decimal
from fractions import Fraction

from harness import core
from harness.core import compare_batch, err_name, run_oracle_cases

PROP = 'C12'
PROOF_MODULES = ['Ladybug.Props.C12']
GREP_MODULES = ['Ladybug.Py', 'Ladybug.Model.Cal', 'Ladybug.Model.AP', 'Ladybug.Model.Wea', 'Ladybug.Model.WeaObj', 'Ladybug.Model.WeaCli',
                'Ladybug.Proofs.C12Lemmas', 'Ladybug.Proofs.C12Files', 'Ladybug.Proofs.C12Obj', 'Ladybug.Drv.C12',
                'Ladybug.DrvCore']
RULE = ('correspondence: _get_datetimes / public datetimes of annual Weas at boundary + random indices for the '
        '12 timesteps x leap x enforce_on_hour; header numbers of random locations (both longitude signs, '
        'integer/fractional/negative zones); to_file_string lines of whole-day (non-wrapping, wrapping, '
        'annual) and sparse Weas with id values and x.5/negative values; from_file on generated files '
        '(annual, partial, windowed, sparse, wrong timestep / leap argument, 29 Feb, hour 24, unsorted, '
        'duplicates, empty), all 1440 (hour, minute) pairs through the sparse path; from_dict on hand-made '
        'dictionaries (keys missing, flag mismatch); to_dict; from_daysim_file shift; to_constant_value / '
        'count_timesteps.  oracle: property statement on the real code (time axis vs stdlib calendar, '
        'file and dict round trips of directly built and of filtered Weas, every filter vs an independent '
        'selection, EPW cells by row, clear-sky / Zhang-Huang alignment, CLI bytes vs library composition). '
        'Round 3: `hist` = ONE Wea object under a generated history (enforce_on_hour / location / collection setters with '
        'accepted, immutable-twin and refused candidates - wrong class, shorter, other period, other timestep, other '
        'collection class, wrong data type -, in-place value edits, operations that fail half-way, a second Wea of the other '
        'year kind alive in the same process, reads in any order: duplicate, file round trip through ONE re-used path, '
        'dictionary read twice, .hrs file, derived irradiance at the public sun positions, get_irradiance_value, filters); '
        'after EVERY step every observable is compared with the state the user established (stdlib oracle) and, in the '
        'correspondence, with the object state machine of Model/WeaObj.lean step by step; `epw_hist` = one EPW object '
        '(IP/SI conversions, annual / listed / empty / single-hour / refused exports, from_epw_file in between) against the raw '
        'file rows; `cli_hist` = several translator calls in ONE folder (two different EPWs, the same EPW edited in place, '
        'stale side file, refused calls first) against the library calls made elsewhere; `order` = the same pool of cases in '
        '3-4 fresh Python processes in different orders (rare classes first / reversed / shuffled), a failure is shrunk to '
        'the case alone or to the order prefix. '
        'Round 4: `cliap` (correspondence) = period texts in 6 written forms x digit-count / overnight / wrapping classes x matching and '
        'non-matching (timestep, leap) of the data, and malformed texts, against Model/WeaCli.lean; `hoyidx` = index of get_irradiance_value_for_hoy; '
        'oracle ops cli_ap, siblings, file_shapes, shapes (see the module docstring); every sequence argument also as tuple and one-shot iterable '
        '(a one-shot iterable may be refused, never answered wrongly); branch counters `branch:*`. '
        'Round 6: `apsub` (period a partial continuous source is filtered with, requests on / next to the boundary days of plain and wrapping sources), '
        '`zhlag` (position of the value of three hours earlier, hourly and sub-hourly), year-sized files that do not start on 1 Jan; oracle: boundary-day matrix of '
        'sub-period filters in every run, sub-hourly Zhang-Huang inputs in every run, year-sized wrapping Weas through file / dict round trips. '
        'non-trivial = the implementation returns a value; distinct = distinct (op, input)')
TRUSTED_BASE = [
    'modelled, not verified: CPython %-formatting (%.2f/%.3f half-even on the exact binary value, %d truncation), '
    'float()/int() of the written tokens, str.split; the IEEE product float(tok)*60 is formed by the driver '
    'and checked for all 1440 (hour, minute) pairs on every run (theorem C12_sparse_minute_robust leaves a '
    'margin of 0.47 minutes)',
    'collection filters (C02) and interpolate_to_timestep (C13) are parameters of the model: Wea filters are '
    'modelled as one value-independent index selection applied to both collections; their composition on the '
    'real code is checked by the oracle only',
    'validate_analysis_period (C13) is used through its effect on the (datetime, value) pairs only (sorted, '
    'duplicates rejected); the repaired header period of sparse files is not compared',
    'city names are whitespace-free words joined by single blanks (the header parser normalises white space)',
    'click option parsing, CliRunner, Sunpath (C05) and the sky models (C10) are used as given',
    'the character-level reading of a period text (AnalysisPeriod.from_string) is the C04 model AP.fromString, executable and compared on '
    'every run (op cliap), proved only from the token level on; a leading `+` of a number is accepted by Python int() and not by the model '
    '(fed by the oracle only)',
    'object state machine (Model/WeaObj.lean): the Wea object is modelled as public state + the two slots _timestep / '
    '_is_leap_year; collections are (class, header period, datetimes, values); is_collection_aligned as in '
    'datacollection.py (continuous: header periods, discontinuous: datetimes only); the EPW object (unit state) and the '
    'file system state of the CLI translators are NOT modelled in Lean: histories over them are checked by the oracle on '
    'the real code only; EPW.to_wea is modelled on the (SI) cells of the two columns',
    'round 6: subsetAP models the day / hour clipping of _get_analysis_period_subset only (tied through the header period of the public filter result); '
    'the slice arithmetic of the continuous filter stays a C02 parameter, checked by the oracle; zhLagIndex is tied by observing the arguments '
    'from_zhang_huang_solar hands to ladybug.wea.zhang_huang_solar_split (skipped, counted `zhlag:not_observable`, if the constructor stops '
    'handing over whole series); the sky model values themselves are oracle-only',
]
ASSUMPTIONS = ['CPython datetime arithmetic is the reference calendar for the oracle',
               'fixes/C12_1_from_file_leap_year.patch, C12_2_sparse_minute_round.patch, '
               'C12_3_from_dict_leap_flag.patch are applied to the checked tree']

VALID_TS = [1, 2, 3, 4, 5, 6, 10, 12, 15, 20, 30, 60]
_TMP = None


def _tmpdir():
    global _TMP
    if _TMP is None:
        _TMP = tempfile.mkdtemp(prefix='c12_')
        atexit.register(shutil.rmtree, _TMP, True)
    return _TMP


_CNT = [0]


def _tmpfile(suffix='.wea'):
    _CNT[0] += 1
    return os.path.join(_tmpdir(), 'f%d%s' % (_CNT[0], suffix))


def _fbits(x):
    return '%016x' % struct.unpack('<Q', struct.pack('<d', float(x)))[0]


def _b(x):
    return '1' if x else '0'


def _hours(leap):
    return 8784 if leap else 8760


def _ref(leap, moy):
    return datetime(2016 if leap else 2017, 1, 1) + timedelta(minutes=moy)


def _doy0(leap, month, day):
    return (datetime(2016 if leap else 2017, month, day) - datetime(2016 if leap else 2017, 1, 1)).days


def _lb_dt(leap, moy):
    from ladybug.dt import DateTime
    r = _ref(leap, moy)
    return DateTime(r.month, r.day, r.hour, r.minute, leap)


def _show_dt(d):
    return '%d-%d-%d-%d-%s' % (d.month, d.day, d.hour, d.minute, _b(d.leap_year))


_EDGE_VALS = [0.0, 0.5, 1.5, 2.5, -0.5, -1.5, 0.999999999999, 1e-12, -1e-12, 1e16, 123456789012.0, float(2 ** 53), 999.5,
              1000.4999999999999, 3.0000000000000004, 2.9999999999999996, -2.9999999999999996, 1e15 + 0.5]


def _vals(mode, n):
    if mode == 0:
        return list(range(n)), [n + i for i in range(n)]
    if mode == 2:           # round 4 (numeric edges): exact halves, tiny / huge magnitudes, values one ulp off an integer
        e = _EDGE_VALS
        return [e[i % len(e)] for i in range(n)], [e[(7 * i + 3) % len(e)] for i in range(n)]
    return [(2 * i - 13) / 2.0 for i in range(n)], [(37 - 3 * i) / 4.0 for i in range(n)]


def _loc(city='Test City', lat=41.98, lon=-87.92, tz=-6, elev=201.0):
    from ladybug.location import Location
    return Location(city, '-', 'USA', lat, lon, tz, elev)


def _headers(ap):
    from ladybug.header import Header
    from ladybug.datatype.energyflux import DirectNormalIrradiance, DiffuseHorizontalIrradiance
    return (Header(DirectNormalIrradiance(), 'W/m2', ap, {'city': 'x'}),
            Header(DiffuseHorizontalIrradiance(), 'W/m2', ap, {'city': 'x'}))


def _build_cont(ts, leap, stm, std, endm, endd, mode=0, onhour=False, loc=None):
    """A continuous Wea built directly from collections (no Wea constructor under test involved)."""
    from ladybug.wea import Wea
    from ladybug.analysisperiod import AnalysisPeriod
    from ladybug.datacollection import HourlyContinuousCollection
    ap = AnalysisPeriod(stm, std, 0, endm, endd, 23, ts, leap)
    n = len(ap)
    a, b = _vals(mode, n)
    h1, h2 = _headers(ap)
    w = Wea(loc or _loc(), HourlyContinuousCollection(h1, a), HourlyContinuousCollection(h2, b))
    if onhour:
        w.enforce_on_hour = True
    return w


def _build_disc(ts, leap, moys, mode=0, onhour=False, loc=None, ap=None):
    from ladybug.wea import Wea
    from ladybug.analysisperiod import AnalysisPeriod
    from ladybug.datacollection import HourlyDiscontinuousCollection
    ap = ap or AnalysisPeriod(timestep=ts, is_leap_year=leap)
    dts = [_lb_dt(leap, m) for m in moys]
    a, b = _vals(mode, len(moys))
    h1, h2 = _headers(ap)
    w = Wea(loc or _loc(), HourlyDiscontinuousCollection(h1, a, dts),
            HourlyDiscontinuousCollection(h2, b, dts))
    if onhour:
        w.enforce_on_hour = True
    return w


def _md(leap, doy0):
    r = _ref(leap, doy0 * 1440)
    return r.month, r.day


def _rand_period(rng, leap):
    """(stm, std, endm, endd, kind) of a whole-day period, boundary biased."""
    nd = 366 if leap else 365
    r = rng.random()
    if r < 0.25:
        a = rng.choice([0, 57, 58, 59, 30, 364 if not leap else 365, nd - 3])
        a = min(a, nd - 1)
        b = min(nd - 1, a + rng.choice([0, 1, 2, 3]))
    elif r < 0.45:                                     # wrapping
        a = nd - 1 - rng.choice([0, 1, 2])
        b = rng.choice([0, 1, 2])
    elif r < 0.55:
        a = rng.randrange(nd)
        b = rng.randrange(nd)
        if a > b and (a - b) < 3:
            a, b = b, a
        if a > b:                                       # long wrapping periods are big: shorten
            a, b = nd - 1 - rng.randrange(3), rng.randrange(3)
        if b - a > 6:
            b = a + rng.randrange(6)
    else:
        a = rng.randrange(nd)
        b = min(nd - 1, a + rng.randrange(4))
    (stm, std), (endm, endd) = _md(leap, a), _md(leap, b)
    return stm, std, endm, endd, ('wrap' if a > b else 'plain')


def _period_moys(ts, leap, stm, std, endm, endd):
    """Grid minutes of the whole-day period stm/std .. endm/endd (cyclic), from the calendar."""
    step = 60 // ts
    a, b = _doy0(leap, stm, std), _doy0(leap, endm, endd)
    nd = 366 if leap else 365
    days = list(range(a, b + 1)) if a <= b else list(range(a, nd)) + list(range(0, b + 1))
    return [d * 1440 + k * step for d in days for k in range(24 * ts)]


def _rand_sparse(rng, ts, leap, n=None):
    step = 60 // ts
    total = _hours(leap) * ts
    n = n or rng.choice([1, 2, 3, 5, 8, 20])
    r = rng.random()
    if r < 0.3:                                        # hour window over a few days
        d0 = rng.choice([0, 57, 58, 59, rng.randrange(360)])
        h0 = rng.randrange(1, 12)
        h1 = rng.randrange(h0, 23)
        nd = rng.choice([1, 2, 3])
        out = [(d0 + d) * 1440 + h * 60 + k * step for d in range(nd) for h in range(h0, h1 + 1)
               for k in range(ts if h < h1 else 1)]
        out = [m for m in out if m < total * step]
        if len(out) >= 1:
            return out
    idx = set()
    anchors = [0, 1, total - 1, total - 2, 59 * 24 * ts, 59 * 24 * ts - 1, 60 * 24 * ts - 1, 58 * 24 * ts]
    while len(idx) < n:
        idx.add(rng.choice(anchors) if rng.random() < 0.3 else rng.randrange(total))
    return sorted(i * step for i in idx)


def _lines_of(leap, ts, moys, onhour, v1, v2):
    """Data lines as the format defines them (stdlib only)."""
    sh = 30 if (ts == 1 and not onhour) else 0
    out = []
    for m, a, b in zip(moys, v1, v2):
        r = _ref(leap, m + sh)
        milli = int(Decimal('%.3f' % (r.hour + r.minute / 60.0)) * 1000)
        out.append((r.month, r.day, milli, int(a), int(b)))
    return out


_HDR = 'place Test City\nlatitude 41.98\nlongitude 87.92\ntime_zone 90\nsite_elevation 201.0\n' \
       'weather_data_file_units 1\n'


def _write_lines(lines, header=_HDR):
    p = _tmpfile()
    with open(p, 'w') as f:
        f.write(header)
        for mo, da, mi, a, b in lines:
            f.write('%d %d %d.%03d %d %d\n' % (mo, da, mi // 1000, mi % 1000, a, b))
    return p


def _show_ap(ap):
    return '%d %d %d %d %d %d %d %s' % (ap.st_time.month, ap.st_time.day, ap.st_time.hour, ap.end_time.month,
                                        ap.end_time.day, ap.end_time.hour, ap.timestep, _b(ap.is_leap_year))


def _show_w(w, sort_disc):
    dts = w.direct_normal_irradiance.datetimes
    rows = list(zip(dts, w.direct_normal_irradiance.values, w.diffuse_horizontal_irradiance.values))
    if w.is_continuous:
        body = ' '.join('%s %d %d' % (_show_dt(d), a, b) for d, a, b in rows)
        return ('ok cont %s %d %s' % (_show_ap(w.analysis_period), len(rows), body)).rstrip()
    if sort_disc:
        rows.sort(key=lambda r: r[0].moy)
    body = ' '.join('%s %d %d' % (_show_dt(d), a, b) for d, a, b in rows)
    return ('ok disc %d %s' % (len(rows), body)).rstrip()


def _canon_ws(s):
    return ' '.join(s.split())


# ---------------------------------------------------------------------------------------------
# correspondence


def _axis_indices(rng, ts, leap, k=30):
    n = _hours(leap) * ts
    fixed = [0, 1, 2, ts - 1, ts, 24 * ts - 1, 24 * ts, 58 * 24 * ts, 59 * 24 * ts - 1, 59 * 24 * ts,
             60 * 24 * ts - 1, 60 * 24 * ts, n - 2, n - 1]
    idx = [i for i in fixed if 0 <= i < n] + [rng.randrange(n) for _ in range(k)]
    return idx


def correspondence(ctx):
    from ladybug.wea import Wea
    from ladybug.location import Location
    rng = ctx.rng
    ts_list = VALID_TS if not ctx.quick else [1, 2, 3, 4, 6] + rng.sample([5, 10, 12], 1)

    # --- _get_datetimes
    cases = []
    for ts in ts_list + ([7] if ctx.quick else [7, 8]):
        for leap in (False, True):
            if ts in (7, 8) and leap:
                continue
            n = _hours(leap) * ts
            idx = _axis_indices(rng, ts, leap)
            cases.append((ts, leap, [i for i in idx if i < n]))
            ctx.count('getdt:ts=%d' % ts)
    cache = {}

    def impl_getdt(c):
        ts, leap, idx = c
        key = (ts, leap)
        if key not in cache:
            cache.clear()
            cache[key] = Wea._get_datetimes(ts, leap)
        return 'ok ' + ' '.join(_show_dt(cache[key][i]) for i in idx)

    compare_batch(ctx, 'getdt', cases, lambda c: 'getdt %d %s %s' % (c[0], _b(c[1]), ' '.join(map(str, c[2]))),
                  impl_getdt, key=lambda c: (c[0], c[1], tuple(c[2])))
    cache.clear()

    # --- public datetimes of annual Weas
    cases = []
    for ts in (ts_list if not ctx.quick else [1, 2] + rng.sample(ts_list[2:], 2)) + [7, 9]:
        for leap in (False, True):
            for onhour in ((False, True) if ts in (1, 2) else (rng.random() < 0.5,)):
                idx = _axis_indices(rng, ts, leap, 20)
                cases.append((ts, leap, onhour, idx))
                ctx.count('axis:onhour=%s' % onhour)
    wcache = {}

    def impl_axis(c):
        ts, leap, onhour, idx = c
        key = (ts, leap)
        if key not in wcache:
            wcache.clear()
            n = _hours(leap) * ts
            wcache[key] = Wea.from_annual_values(_loc(), [0] * n, [0] * n, ts, leap)
        w = wcache[key]
        w.enforce_on_hour = onhour
        dts = w.datetimes
        return 'ok %d ' % len(dts) + ' '.join(_show_dt(dts[i]) for i in idx)

    compare_batch(ctx, 'axis', cases,
                  lambda c: 'axis %d %s %s %s' % (c[0], _b(c[1]), _b(c[2]), ' '.join(map(str, c[3]))),
                  impl_axis, key=lambda c: (c[0], c[1], c[2], tuple(c[3])))
    wcache.clear()

    # --- from_annual_values length check
    cases = []
    for ts in (1, 2, 4, 7):
        for leap in (False, True):
            n = _hours(leap) * ts
            for n1, n2 in ((n, n), (n, n - 1), (n - 1, n), (n + 1, n + 1), (_hours(not leap) * ts, _hours(not leap) * ts),
                           (0, 0)):
                cases.append((ts, leap, n1, n2))

    def impl_annual(c):
        ts, leap, n1, n2 = c
        w = Wea.from_annual_values(_loc(), [0] * n1, [0] * n2, ts, leap)
        return 'ok %d %s' % (len(w.direct_normal_irradiance.datetimes), _b(w.is_annual))

    compare_batch(ctx, 'annual', cases, lambda c: 'annual %d %s %d %d' % (c[0], _b(c[1]), c[2], c[3]), impl_annual)

    # --- header numbers
    cases = []
    zones = [-12, -9.5, -6, -5.5, -3.5, -1, 0, 1, 3.5, 5.5, 5.75, 8, 9.5, 12.75, 14, 16.0 / 3]
    for _ in range(ctx.n(300, 5000)):
        r = rng.random()
        lat = rng.choice([0.0, 90.0, -90.0, 41.985, 0.125, -0.005, 0.004]) if r < 0.25 else round(rng.uniform(-90, 90), rng.choice([1, 2, 3, 6]))
        lon = rng.choice([0.0, 180.0, -180.0, 122.395, -0.004, 0.005]) if r < 0.25 else round(rng.uniform(-180, 180), rng.choice([1, 2, 3, 6]))
        tz = rng.choice(zones) if rng.random() < 0.8 else round(rng.uniform(-12, 14), 2)
        elev = rng.choice([0.0, -0.04, 0.05, 0.25, 8848.86, -430.5]) if rng.random() < 0.3 else round(rng.uniform(-400, 5000), 2)
        cases.append((lat, lon, tz, elev))
        ctx.count('header:tz_%s' % ('int' if float(tz).is_integer() else 'frac'))
        ctx.count('header:lon_%s' % ('east' if lon > 0 else 'west' if lon < 0 else 'zero'))

    def hdr_numbers(text):
        ls = text.split('\n')
        return (int(Decimal(ls[1].split()[-1]) * 100), int(Decimal(ls[2].split()[-1]) * 100),
                int(ls[3].split()[-1]), int(Decimal(ls[4].split()[-1]) * 10))

    def impl_header(c):
        w = _build_disc(1, False, [0, 60], loc=Location('A', '-', '-', c[0], c[1], c[2], c[3]))
        return 'ok %d %d %d %d' % hdr_numbers(w.header)

    compare_batch(ctx, 'header', cases, lambda c: 'header %s %s %s %s' % tuple(_fbits(x) for x in c), impl_header,
                  key=lambda c: tuple(repr(x) for x in c))

    # --- _parse_wea_header
    cases = []
    for _ in range(ctx.n(300, 5000)):
        lat = rng.choice([0, 9000, -9000, 9001, -9001]) if rng.random() < 0.2 else rng.randrange(-9500, 9500)
        lon = rng.choice([0, 18000, -18000, 18001, -18001]) if rng.random() < 0.2 else rng.randrange(-18500, 18500)
        tz = rng.choice([0, 180, -210, 181, -211, 82, -82, 90, -90, 195]) if rng.random() < 0.4 else rng.randrange(-230, 200)
        elev = rng.randrange(-5000, 90000)
        cases.append((lat, lon, tz, elev))

    def impl_parsehdr(c):
        text = 'place A B\nlatitude %s\nlongitude %s\ntime_zone %d\nsite_elevation %s\nweather_data_file_units 1\n' % (
            Decimal(c[0]) / 100, Decimal(c[1]) / 100, c[2], Decimal(c[3]) / 10)
        loc = Wea._parse_wea_header(io.StringIO(text), 'x')
        return 'ok %r %r %r %r' % (loc.latitude, loc.longitude, loc.time_zone, loc.elevation)

    def canon_hdr(s):
        if not s.startswith('ok '):
            return s
        return 'ok ' + ' '.join('%.9f' % (float(Fraction(t)) + 0.0) for t in s.split()[1:])

    compare_batch(ctx, 'parsehdr', cases, lambda c: 'parsehdr %d %d %d %d' % c, impl_parsehdr, canon=canon_hdr)

    # --- to_file_string
    cases = []
    budget = ctx.n(25000, 200000)
    used = 0
    while used < budget:
        ts = rng.choice([1, 1, 2, 3, 4, 6]) if rng.random() < 0.7 else rng.choice(VALID_TS)
        leap = rng.random() < 0.5
        onhour = rng.random() < 0.3
        mode = rng.choice([0, 1])
        if rng.random() < 0.5:
            stm, std, endm, endd, kind = _rand_period(rng, leap)
            n = len(_period_moys(ts, leap, stm, std, endm, endd))
            if n > ctx.n(2500, 20000):
                continue
            cases.append(('cont', ts, leap, onhour, mode, (stm, std, endm, endd)))
            ctx.count('write:cont_' + kind)
        else:
            moys = _rand_sparse(rng, ts, leap)
            n = len(moys)
            cases.append(('disc', ts, leap, onhour, mode, moys))
            ctx.count('write:disc')
        used += n
        ctx.count('write:ts=%d' % ts)
    cases.append(('cont', 1, False, False, 0, (1, 1, 12, 31)))
    cases.append(('cont', 2, True, False, 1, (1, 1, 12, 31)))

    def line_write(c):
        if c[0] == 'cont':
            return 'write cont %d %s %s %d %d %d %d %d' % ((c[1], _b(c[2]), _b(c[3]), c[4]) + tuple(c[5]))
        return 'write disc %d %s %s %d %d %s' % (c[1], _b(c[2]), _b(c[3]), c[4], len(c[5]), ' '.join(map(str, c[5])))

    def impl_write(c):
        if c[0] == 'cont':
            w = _build_cont(c[1], c[2], c[5][0], c[5][1], c[5][2], c[5][3], c[4], c[3])
        else:
            w = _build_disc(c[1], c[2], c[5], c[4], c[3])
        text = w.to_file_string()
        if not text.startswith(w.header):
            return 'header-missing'
        body = text[len(w.header):].split('\n')
        if body[-1] != '':
            return 'no-final-newline'
        toks = []
        for ln in body[:-1]:
            t = ln.split(' ')
            toks.append('%d %d %d %d %d' % (int(t[0]), int(t[1]), int(Decimal(t[2]) * 1000), int(t[3]), int(t[4])))
            if len(t[2].split('.')[-1]) != 3:
                return 'bad-decimals'
        return ('ok %d ' % len(toks) + ' '.join(toks)).rstrip()

    compare_batch(ctx, 'write', cases, line_write, impl_write, canon=_canon_ws, key=lambda c: json.dumps(c))

    # --- from_file
    cases = []
    budget = ctx.n(7500, 170000)
    used = 0

    def add_read(ts, leap, lines, tag):
        cases.append((ts, leap, lines))
        ctx.count('read:' + tag)

    while used < budget:
        ts = rng.choice([1, 1, 2, 3, 4, 6]) if rng.random() < 0.7 else rng.choice(VALID_TS)
        leap = rng.random() < 0.5
        onhour = rng.random() < 0.2
        r = rng.random()
        if r < 0.35:
            stm, std, endm, endd, kind = _rand_period(rng, leap)
            moys = _period_moys(ts, leap, stm, std, endm, endd)
            if len(moys) > ctx.n(2500, 20000):
                continue
            tag = 'cont_' + kind
        else:
            moys = _rand_sparse(rng, ts, leap)
            tag = 'sparse'
        n = len(moys)
        v1 = [rng.randrange(0, 1200) for _ in range(n)] if rng.random() < 0.5 else list(range(n))
        v2 = [n + i for i in range(n)]
        lines = _lines_of(leap, ts, moys, onhour, v1, v2)
        q = rng.random()
        rts, rleap = ts, leap
        if q < 0.08:
            rleap = not leap
            tag += '|leap_arg_flipped'
        elif q < 0.16:
            rts = rng.choice([t for t in VALID_TS if t != ts] + [7, 0])
            tag += '|ts_arg_wrong'
        elif q < 0.22 and n > 3:
            k = rng.randrange(1, n - 1)
            del lines[k]                                  # a hole: continuous -> sparse
            tag += '|hole'
        elif q < 0.26 and n > 3:
            rng.shuffle(lines)
            tag += '|shuffled'
        elif q < 0.30 and n > 2:
            lines.insert(rng.randrange(n), lines[rng.randrange(n)])
            tag += '|dup'
        elif q < 0.33:
            mo, da, mi, a, b = lines[rng.randrange(n)]
            lines[rng.randrange(n)] = rng.choice([(13, da, mi, a, b), (mo, 32, mi, a, b), (2, 30, mi, a, b),
                                                  (mo, da, 24000, a, b), (mo, da, 24500, a, b), (0, da, mi, a, b)])
            tag += '|bad_line'
        add_read(rts, rleap, lines, tag)
        used += n
    add_read(1, False, [], 'empty')
    add_read(2, True, [], 'empty')
    # every (hour, minute) through the sparse path: one day at 1-minute steps with one hole
    for leap in ((rng.random() < 0.5,) if ctx.quick else (False, True)):
        day = 59 if leap else 100
        moys = [day * 1440 + k for k in range(1440) if k != 777]
        add_read(60, leap, _lines_of(leap, 60, moys, False, [k % 1000 for k in moys], [k % 997 for k in moys]),
                 'all_minutes')
    for ts in ([1] if ctx.quick else [1, 2, 3, 4]):       # annual files
        for leap in ((True,) if ctx.quick else (False, True)):
            moys = [k * (60 // ts) for k in range(_hours(leap) * ts)]
            add_read(ts, leap, _lines_of(leap, ts, moys, False, list(range(len(moys))), list(range(len(moys)))),
                     'annual')
    # round 6 (branch chosen from a summary): files with exactly the row count of a whole year whose rows are NOT 1 Jan .. 31 Dec -
    # a whole year that starts on another day (wraps the year end) and one that misses its last day (one day short of the count)
    for ts in ([1] if ctx.quick else [1, 2, 3]):
        for leap in ((rng.random() < 0.5,) if ctx.quick else (False, True)):
            nd = 366 if leap else 365
            d0 = rng.choice([1, nd - 1, 181, 59, rng.randrange(1, nd)])
            (m0, da0), (m1, da1) = _md(leap, d0), _md(leap, d0 - 1)
            moys = _period_moys(ts, leap, m0, da0, m1, da1)
            add_read(ts, leap, _lines_of(leap, ts, moys, False, list(range(len(moys))), [len(moys) + i for i in range(len(moys))]),
                     'year_count_wrapping_full_year')
            if not ctx.quick:
                (m2, da2) = _md(leap, (d0 - 2) % nd)
                moys = _period_moys(ts, leap, m0, da0, m2, da2)
                add_read(ts, leap, _lines_of(leap, ts, moys, False, list(range(len(moys))), list(range(len(moys)))),
                         'year_count_minus_one_day')

    def impl_read(c):
        ts, leap, lines = c
        p = _write_lines(lines)
        try:
            w = Wea.from_file(p, ts, leap)
        finally:
            os.remove(p)
        return _show_w(w, True)

    compare_batch(ctx, 'read', cases,
                  lambda c: ('read %d %s %d ' % (c[0], _b(c[1]), len(c[2]))
                             + ' '.join('%d %d %d %d %d' % l for l in c[2])).rstrip(),
                  impl_read, canon=_canon_ws, key=lambda c: json.dumps(c))

    # --- from_dict
    cases = []
    for _ in range(ctx.n(90, 1200)):
        ts = rng.choice([1, 1, 2, 3, 4, 6, 60])
        leap = rng.random() < 0.5
        r = rng.random()
        if r < 0.06:                                     # annual: no datetimes key
            if ctx.quick and ctx.counters.get('dict:annual', 0) >= 2:
                continue
            ts = rng.choice([1, 1, 2])
            n = _hours(leap) * ts
            dn = rng.choice([n, n, n - 1, n + 24 * ts])
            cases.append((rng.choice([ts, ts, None]) if ts == 1 else ts, rng.choice([leap, None]) if not leap else leap,
                          None, dn, rng.choice([dn, dn, dn - 1])))
            ctx.count('dict:annual')
            continue
        if r < 0.5:
            stm, std, endm, endd, kind = _rand_period(rng, leap)
            moys = _period_moys(ts, leap, stm, std, endm, endd)
            if len(moys) > 1500:
                continue
            tag = 'cont_' + kind
        else:
            moys = _rand_sparse(rng, ts, leap)
            tag = 'sparse'
        flag = leap
        q = rng.random()
        if q < 0.12:
            flag = not leap                               # arrays carry another flag than is_leap_year
            tag += '|flag_mismatch'
        arrs = []
        for m in moys:
            rr = _ref(flag, m) if m < (527040 if flag else 525600) else _ref(flag, 0)
            arrs.append([rr.month, rr.day, rr.hour, rr.minute] + ([1] if flag else []))
        n = len(arrs)
        dn, dh = n, n
        if 0.12 <= q < 0.2:
            dn = rng.choice([n - 1, n + 1])
            dh = rng.choice([dn, n])
            tag += '|len_mismatch'
        if 0.2 <= q < 0.24:
            arrs = []
            tag += '|empty_datetimes'
        if 0.24 <= q < 0.28 and arrs:
            arrs[rng.randrange(len(arrs))] = rng.choice([[2, 30, 0, 0], [13, 1, 0, 0], [1, 1, 24, 0], [1, 1]])
            tag += '|bad_array'
        cases.append((ts, leap, arrs, dn, dh))
        ctx.count('dict:' + tag)
    # round 6 (branch chosen from a summary): a dictionary with the value count of a whole year whose datetimes start on another day than 1 Jan
    for leap in ((rng.random() < 0.5,) if ctx.quick else (False, True)):
        nd = 366 if leap else 365
        d0 = rng.choice([1, nd - 1, 181, rng.randrange(1, nd)])
        (m0, da0), (m1, da1) = _md(leap, d0), _md(leap, d0 - 1)
        arrs = []
        for m in _period_moys(1, leap, m0, da0, m1, da1):
            rr = _ref(leap, m)
            arrs.append([rr.month, rr.day, rr.hour, rr.minute] + ([1] if leap else []))
        cases.append((1, leap, arrs, len(arrs), len(arrs)))
        ctx.count('dict:year_count_wrapping_full_year')

    def impl_dict(c):
        ts, leap, arrs, dn, dh = c
        d = {'type': 'Wea', 'location': _loc().to_dict(), 'direct_normal_irradiance': list(range(dn)),
             'diffuse_horizontal_irradiance': [1000000 + i for i in range(dh)]}
        if ts is not None:
            d['timestep'] = ts
        if leap is not None:
            d['is_leap_year'] = leap
        if arrs is not None:
            d['datetimes'] = arrs
        return _show_w(Wea.from_dict(d), False)

    def line_dict(c):
        ts, leap, arrs, dn, dh = c
        head = 'dict %s %s ' % ('N' if ts is None else ts, 'N' if leap is None else _b(leap))
        if arrs is None:
            return head + 'N %d %d' % (dn, dh)
        return (head + '%d %s' % (len(arrs), ' '.join('-'.join(map(str, a)) for a in arrs))).rstrip() + ' %d %d' % (dn, dh)

    compare_batch(ctx, 'dict', cases, line_dict, impl_dict, canon=_canon_ws, key=lambda c: json.dumps(c))

    # --- to_dict (datetimes key)
    cases = []
    for _ in range(ctx.n(60, 1000)):
        ts = rng.choice([1, 2, 3, 4])
        leap = rng.random() < 0.5
        if rng.random() < 0.5:
            stm, std, endm, endd, kind = _rand_period(rng, leap)
            if len(_period_moys(ts, leap, stm, std, endm, endd)) > 3000:
                continue
            cases.append(('cont', ts, leap, (stm, std, endm, endd)))
        else:
            cases.append(('disc', ts, leap, _rand_sparse(rng, ts, leap)))
    cases.append(('cont', 1, False, (1, 1, 12, 31)))
    cases.append(('cont', 2, True, (1, 1, 12, 31)))

    def impl_todict(c):
        w = _build_cont(c[1], c[2], *c[3]) if c[0] == 'cont' else _build_disc(c[1], c[2], c[3])
        d = w.to_dict()
        if d['timestep'] != c[1] or d['is_leap_year'] != c[2] or d['type'] != 'Wea':
            return 'bad-keys'
        if 'datetimes' not in d:
            return 'ok N'
        return 'ok %d %s' % (len(d['datetimes']), ' '.join('-'.join(str(int(x)) for x in a) for a in d['datetimes']))

    compare_batch(ctx, 'todict', cases,
                  lambda c: ('todict cont %d %s %d %d %d %d' % ((c[1], _b(c[2])) + tuple(c[3]))) if c[0] == 'cont' else
                  ('todict disc %d %s %d %s' % (c[1], _b(c[2]), len(c[3]), ' '.join(map(str, c[3])))),
                  impl_todict, canon=_canon_ws, key=lambda c: json.dumps(c))

    # --- from_daysim_file
    cases = []
    for ts, leap in ([(1, False), (2, False), (3, True), (6, False), (5, False)] if ctx.quick else
                     [(t, l) for t in (1, 2, 3, 4, 5, 6, 10, 12) for l in (False, True)]):
        n = _hours(leap) * ts
        idx = sorted(set([0, 1, ts // 2 - 1, ts // 2, ts // 2 + 1, ts, n - 1, n - ts // 2, n - ts // 2 - 1]
                         + [rng.randrange(n) for _ in range(20)]))
        cases.append((ts, leap, n, [i for i in idx if 0 <= i < n]))
    cases.append((2, False, 8760 * 2 - 1, [0]))
    cases.append((7, False, 8760 * 7, [0]))

    def impl_daysim(c):
        ts, leap, n, idx = c
        p = _tmpfile()
        with open(p, 'w') as f:
            f.write(_HDR)
            f.write(''.join('1 1 %.3f %d %d\n' % (((i + 0.5) / max(ts, 1)) % 24, i, i) for i in range(n)))
        try:
            w = Wea.from_daysim_file(p, ts, leap)
        finally:
            os.remove(p)
        vals = w.direct_normal_irradiance.values
        if tuple(vals) != tuple(w.diffuse_horizontal_irradiance.values):
            return 'columns-differ'
        return 'ok ' + ' '.join('%d' % vals[i] for i in idx)

    compare_batch(ctx, 'daysim', cases,
                  lambda c: 'daysim %d %s %d %s' % (c[0], _b(c[1]), c[2], ' '.join(map(str, c[3]))), impl_daysim,
                  key=lambda c: json.dumps(c))

    # --- to_constant_value / count_timesteps
    cases = []
    for _ in range(ctx.n(80, 1500)):
        n = rng.choice([0, 1, 2, 5, 30])
        body = []
        for i in range(n):
            toks = ['%d' % rng.randrange(1, 13), '%d' % rng.randrange(1, 29), '%.3f' % rng.uniform(0, 24),
                    '%d' % rng.randrange(1000), '%d' % rng.randrange(1000)]
            q = rng.random()
            if q < 0.06:
                toks = toks[:rng.choice([0, 1])]
            elif q < 0.12:
                toks = toks[3:]
            elif q < 0.2:
                toks.append('extra')
            body.append((toks, rng.choice([' ', '  ', '\t'])))
        cases.append((rng.choice([1000, 0, -5, 7]), body))

    def impl_const(c):
        v, body = c
        p = _tmpfile()
        with open(p, 'w') as f:
            f.write(_HDR)
            for toks, sep in body:
                f.write(sep.join(toks) + '\n')
        try:
            text = Wea.to_constant_value(p, v)
            cnt = Wea.count_timesteps(p)
        finally:
            os.remove(p)
        if not text.startswith(_HDR) or cnt != len(body):
            return 'header-or-count-wrong'
        lines = text[len(_HDR):].split('\n')
        return ('ok ' + ' '.join(ln + ' |' for ln in lines[:-1])).rstrip()

    compare_batch(ctx, 'const', cases,
                  lambda c: ('const %d ' % c[0] + ' '.join(' '.join(t) + ' |' for t, _ in c[1])).rstrip(),
                  impl_const, canon=_canon_ws, key=lambda c: json.dumps(c))
    # --- hour -> minute conversion of filter_by_hoys (observed through the step an annual Wea returns)
    cases = []
    for ts in ([3, rng.choice([5, 6, 10, 12])] if ctx.quick else [3, 5, 6, 10, 12, 15, 20]):
        step = 60 // ts
        n = 8760 * ts
        hs = []
        for _ in range(ctx.n(40, 400)):
            k = rng.choice([rng.randrange(n), 24 * ts + rng.randrange(24 * ts)])
            m = k * step
            h = rng.choice([m / 60.0, m / 60.0, (m // 60) + (m % 60) / 60.0, m / 60.0 + 1e-9, m / 60.0 - 1e-9,
                            m / 60.0 + 0.4 / 60, max(0.0, m / 60.0 - 0.4 / 60)])
            hs.append(h)
            ctx.count('hoymoy:minute_%02d' % (m % 60))
        cases.append((ts, hs))
    def impl_hoymoy(c):
        # observed on a discontinuous Wea holding exactly the targeted steps (the continuous
        # collections only accept hours that are bit-equal to their own `hoys`)
        ts, hs = c
        moys = sorted(set(int(round(h * 60)) for h in hs))
        w = _build_disc(ts, False, moys)
        out = []
        for h in hs:
            r = w.filter_by_hoys([h])
            a, b = r.direct_normal_irradiance, r.diffuse_horizontal_irradiance
            if len(a.datetimes) != 1 or a.datetimes != b.datetimes or a.values[0] + len(moys) != b.values[0]:
                return 'not-one-aligned-step'
            out.append(str(a.datetimes[0].moy))
        return 'ok ' + ' '.join(out)

    compare_batch(ctx, 'hoymoy', cases, lambda c: 'hoymoy ' + ' '.join(_fbits(h) for h in c[1]), impl_hoymoy,
                  key=lambda c: (c[0], tuple(repr(h) for h in c[1])))
    cases = [0, 5, 6, 7, 8766]
    compare_batch(ctx, 'count', cases, lambda c: 'count %d' % c, lambda c: 'ok %d' % _count_file(c))
    # --- EPW.to_wea on the typed cells of an asset EPW (annual, listed hours, single hour, hour outside the year)
    from ladybug.epw import EPW
    fn = rng.choice(['chicago.epw', 'long_beach_2021.epw', 'mannheim.epw'])
    tmp_epw = os.path.join(_tmpdir(), 'corr_' + fn)
    shutil.copy(_asset('epw', fn), tmp_epw)
    e0 = EPW(tmp_epw)
    cells = [list(e0.direct_normal_radiation.values), list(e0.diffuse_horizontal_radiation.values)]
    if all(float(x).is_integer() for x in cells[0] + cells[1]):
        n = len(cells[0])
        # (window offset, window length, listed hours); window 0..n = the whole year
        cases = [(1400, 50, list(range(1400, 1450))), (0, n, []), (0, 1, [0]), (n - 1, 1, [n - 1]), (3000, 200, [3100, n]),
                 (4000, 300, sorted(rng.sample(range(4000, 4300), 6)))]
        if not ctx.quick:
            cases += [(0, n, sorted(rng.sample(range(n), 40))) for _ in range(20)] + [(0, n, [n + 5]), (0, 10, [5, 4, 3, 3])]

        def head(c):
            off, k = c[0], c[1]
            return 'epwwea %s %d %d %s ' % (_b(e0.is_leap_year), off, k, ' '.join(
                str(int(x)) for x in cells[0][off:off + k] + cells[1][off:off + k]))

        def impl_epwwea(c):
            out = e0.to_wea(_tmpfile(), list(c[2]))
            text = open(out).read()
            os.remove(out)
            hdr, body, nl = _parse_wea_text(text)
            if hdr != e0._get_wea_header() or not nl:
                return 'header-or-newline-wrong'
            return ('ok %d ' % len(body) + ' '.join('%d %d %d %d %d' % b for b in body)).rstrip()

        compare_batch(ctx, 'epwwea', cases, lambda c: (head(c) + ' '.join(map(str, c[2]))).rstrip(), impl_epwwea, canon=_canon_ws,
                      key=lambda c: fn + json.dumps(c))
        ctx.count('epwwea:' + fn)
    # --- histories on one object: the state machine of Model/WeaObj.lean, step by step
    cases = []
    for op, inp in _hist_cases(ctx):
        cases.append(inp)
    cases.append(dict(_STALE_TS_CASE))
    traces = {}

    def line_hist(c):
        key = json.dumps(c, sort_keys=True)
        if key not in traces:
            try:
                traces[key] = _hist_trace(c)
            except Exception as e:
                traces[key] = (traces.get(key, ('hist bad',))[0], 'err:' + err_name(e) + ' ' + str(e)[:80])
        return traces[key][0]

    compare_batch(ctx, 'hist', cases, line_hist, lambda c: traces[json.dumps(c, sort_keys=True)][1], canon=_canon_ws,
                  key=lambda c: json.dumps(c, sort_keys=True))
    # --- round 4: the translator's period TEXT (Model/WeaCli.lean): _load_analysis_period_str + filter_by_analysis_period
    from ladybug.cli._helper import _load_analysis_period_str
    cases = []
    fixed = ['6/21 to 9/21 between 8 and 16 @1', '3/1 to 3/10 between 22 and 6 @1', '12/21 to 1/5 between 0 and 23 @1',
             '1/1 to 1/31 between 9 and 17 @1', '06/21TO09/21BETWEEN08AND16@1', '2/28 to 3/1 between 5 and 5 @2*',
             '1/1 to 1/2 between 8 and 24 @1', '1/1 to 6/31 between 0 and 23 @1', '6/31 to 7/1 between 0 and 23 @1',
             '1/1 to 1/2 between 8 and 16 @7', '1/1 to 1/2 from 8 and 16 @1', '1/1 to 1/2 between 8.0 and 16 @1', ' * ']
    for text in fixed:
        p2 = _parse_ap_text(text)
        cases.append((text, p2[1] if p2 else 1, p2[2] if p2 else False))
    for k in range(ctx.n(30, 400)):
        leap = rng.random() < 0.4
        nd = 366 if leap else 365
        a = rng.randrange(nd)
        b = rng.choice([a, min(nd - 1, a + rng.randrange(1, 9)), rng.randrange(nd), (a + 2) % nd])
        (sm, sd), (em, ed) = _md(leap, a), _md(leap, b)
        sh, eh = _rand_hours(rng)
        ts = rng.choice([1, 1, 1, 2, 3, 4]) if ctx.quick else rng.choice([1, 1, 2, 3, 4, 5, 6, 10, 12])
        shape = rng.randrange(6)
        text = _ap_text([sm, sd, sh, em, ed, eh], ts, leap, shape)
        r = rng.random()
        wts, wleap = ts, leap
        if r < 0.05:
            wts = 2 if ts == 1 else 1                          # a period of another timestep than the data
        elif r < 0.10:
            wleap = not leap                                   # ... of the other year kind
        elif r < 0.14:
            text = _ap_text([sm, 31, sh, em, 31, eh], ts, leap, shape)     # a day some months do not have
        elif r < 0.17:
            text = text.replace('@', '#')
        ctx.count('cliap:hours_%s_digits_%d_%d' % ('overnight' if sh > eh else 'day', len(str(sh)), len(str(eh))))
        ctx.count('cliap:shape_%d' % shape)
        text = text.replace('+', '')           # (AP.pyInt? of the C04 model = String.toInt? takes no leading `+`; the oracle op cli_ap feeds it)
        cases.append((text, wts, wleap))
    weas = {}

    def impl_cliap(c):
        text, ts, leap = c
        try:
            ap = _load_analysis_period_str(text)
        except Exception as e:
            return 'err:' + err_name(e)
        if (ts, leap) not in weas:
            weas.clear()
            n = _hours(leap) * ts
            weas[(ts, leap)] = Wea.from_annual_values(_loc(), list(range(n)), list(range(n)), ts, leap)
        try:
            r = weas[(ts, leap)].filter_by_analysis_period(ap)
        except Exception as e:
            return 'err:%s %s' % (err_name(e), _show_ap(ap))
        moys = [d.moy for d in r.direct_normal_irradiance.datetimes]
        return 'ok %s %s %s %d %s' % (_show_ap(ap), _b(ap.is_overnight), _b(ap.is_reversed), len(moys), ' '.join(map(str, moys)))

    # --- round 4: the index get_irradiance_value_for_hoy forms on an annual Wea (float product, truncated)
    hcases = []
    for ts in [1, 15] + rng.sample([2, 3, 4, 5, 6, 10, 12], 2) + ([20, 30] if not ctx.quick else []):
        n = 8760 * ts
        ks = [0, 1, ts, n - 1, n - 2] + [rng.randrange(n) for _ in range(25)] + ([131069, 131068] if ts == 15 else [])
        hs = [(60 * k // ts) / 60.0 for k in ks] + [rng.uniform(0, 8759.9) for _ in range(5)] + [k / float(ts) for k in ks[:8]]
        hcases.append((ts, hs))
        ctx.count('hoyidx:ts=%d' % ts)

    def impl_hoyidx(c):
        ts, hs = c
        n = 8760 * ts
        w = Wea.from_annual_values(_loc(), list(range(n)), list(range(n)), ts)
        return 'ok ' + ' '.join(str(int(w.get_irradiance_value_for_hoy(h)[0])) for h in hs)

    compare_batch(ctx, 'hoyidx', hcases, lambda c: 'hoyidx %d %s' % (c[0], ' '.join(_fbits(h) for h in c[1])), impl_hoyidx,
                  key=lambda c: json.dumps(c))
    cases.sort(key=lambda c: (c[1], c[2]))
    compare_batch(ctx, 'cliap', cases, lambda c: 'cliap %d %s %s' % (c[1], _b(c[2]), ' '.join(str(ord(ch)) for ch in c[0])),
                  impl_cliap, canon=_canon_ws, key=lambda c: json.dumps(c))
    weas.clear()
    _corr_round6(ctx)


def _corr_round6(ctx):
    """Round 6: `apsub` = the period a continuous (partial) collection is really filtered with (Model/WeaCli.lean subsetAP), observed on the
    public result of filter_by_analysis_period; `zhlag` = the position of the dry bulb value of three hours earlier that
    Wea.from_zhang_huang_solar hands to the sky model (zhLagIndex), observed on the arguments the sky model receives."""
    from ladybug.wea import Wea
    from ladybug.analysisperiod import AnalysisPeriod
    from ladybug.datacollection import HourlyContinuousCollection
    rng = ctx.rng
    cases = []
    for k in range(ctx.n(60, 600)):
        ts = rng.choice([1, 1, 2, 3, 4, 6, 12])
        leap = rng.random() < 0.5
        nd = 366 if leap else 365
        wrap = k % 2 == 1
        if wrap:
            a, b = nd - 1 - rng.choice([0, 1, 2, 10]), rng.choice([0, 1, 2, 20])
        else:
            a = rng.choice([0, 57, 58, 59, rng.randrange(nd - 40)])
            b = min(nd - 1, a + rng.choice([0, 1, 2, 5, 12]))
        window = False                                          # continuous Weas hold whole days (a window makes them discontinuous)
        ssh, seh = 0, 23
        per = list(_md(leap, a)) + list(_md(leap, b))
        days = _source_days(leap, per)
        L = len(days)
        if k % 7 == 0:
            sub, tag = _sub_period(rng, leap, per)
        else:                                                   # the exact boundary days, one inside, one outside
            i = min(L - 1, rng.choice([0, 0, 1, L - 1, L - 1, max(0, L - 2), rng.randrange(L)]))
            j = min(L - 1, rng.choice([i, L - 1, L - 1, 0 if i == 0 else i, rng.randrange(i, L)]))
            da, db = days[i], days[j]
            tag = '%s_to_%s' % ('first' if i == 0 else 'last' if i == L - 1 else 'inner', 'first' if j == 0 else 'last' if j == L - 1 else 'inner')
            r = rng.random()
            out_before = days[0] - 1 if (days[0] - 1 >= 0 and (not wrap or days[0] - 1 > days[-1])) else None
            out_after = days[-1] + 1 if (days[-1] + 1 <= nd - 1 and (not wrap or days[-1] + 1 < days[0])) else None
            if r < 0.15 and out_before is not None:
                da, tag = out_before, 'outside_to_' + tag.split('_to_')[1]
            elif r < 0.3 and out_after is not None:
                db, tag = out_after, tag.split('_to_')[0] + '_to_outside'
            sub = list(_md(leap, da)) + list(_md(leap, db))
        if window:
            rsh = rng.choice([0, ssh, ssh + 1, max(0, ssh - 1)])
            reh = rng.choice([23, seh, seh - 1, min(23, seh + 1)])
        else:
            rsh, reh = rng.choice([(0, 23), (0, 23), (8, 17), (0, 12), (5, 5), (13, 23)])
        ctx.count('apsub:%s_source_%s%s' % ('wrapping' if wrap else 'plain', tag, '_window' if window else ''))
        cases.append([per[0], per[1], ssh, per[2], per[3], seh, ts, int(leap), sub[0], sub[1], rsh, sub[2], sub[3], reh, ts, int(leap)])

    def impl_apsub(c):
        src = AnalysisPeriod(c[0], c[1], c[2], c[3], c[4], c[5], c[6], bool(c[7]))
        req = AnalysisPeriod(c[8], c[9], c[10], c[11], c[12], c[13], c[14], bool(c[15]))
        h1, _h2 = _headers(src)
        coll = HourlyContinuousCollection(h1, list(range(len(src))))
        return 'ok ' + _show_ap(coll.filter_by_analysis_period(req).header.analysis_period)

    compare_batch(ctx, 'apsub', cases, lambda c: 'apsub ' + ' '.join(map(str, c)), impl_apsub, canon=_canon_ws, key=lambda c: json.dumps(c))

    # zhlag: the series of `three hours earlier` as the sky model receives it, for values that are their own position
    import ladybug.wea as weamod
    from ladybug.header import Header
    from ladybug.datatype.fraction import Fraction as Frac, RelativeHumidity
    from ladybug.datatype.temperature import Temperature
    from ladybug.datatype.speed import Speed
    zcases = []
    for ts in [1, rng.choice([2, 3]), rng.choice([4, 6, 12])] + ([5, 10, 20] if not ctx.quick else []):
        leap = rng.random() < 0.5
        stm, std, endm, endd, kind = _rand_period(rng, leap)
        if rng.random() < 0.5:
            endm, endd = stm, std                          # one day: for 12 and more steps per hour the lag reaches back across half the series
        ctx.count('zhlag:ts=%d' % ts)
        zcases.append([ts, int(leap), stm, std, endm, endd])
    orig = getattr(weamod, 'zhang_huang_solar_split', None)
    seen = {}

    def impl_zhlag(c):
        ts, leap = c[0], bool(c[1])
        ap = AnalysisPeriod(c[2], c[3], 0, c[4], c[5], 23, ts, leap)
        n = len(ap)
        mk = lambda t, u, v: HourlyContinuousCollection(Header(t, u, ap), v)
        got = []

        def spy(alt, doys, cc, rh, db, db3, *rest, **kw):
            got.append(list(db3))
            return orig(alt, doys, cc, rh, db, db3, *rest, **kw)
        weamod.zhang_huang_solar_split = spy
        try:
            Wea.from_zhang_huang_solar(_loc(), mk(Frac(), 'fraction', [0.5] * n), mk(RelativeHumidity(), '%', [50.0] * n),
                                       mk(Temperature(), 'C', [i / 1000.0 for i in range(n)]), mk(Speed(), 'm/s', [2.0] * n))   # the value names its position (milli-degrees: a temperate series)
        finally:
            weamod.zhang_huang_solar_split = orig
        if len(got) != 1 or len(got[0]) != n:
            seen[json.dumps(c)] = None
            return None
        return 'ok ' + ' '.join(str(int(round(x * 1000))) for x in got[0])

    if orig is not None:
        drv = ctx.driver()
        lines = ['zhlag %d %d %s' % (c[0], len(_period_moys(c[0], bool(c[1]), *c[2:])), ' '.join(map(str, range(len(_period_moys(c[0], bool(c[1]), *c[2:]))))))
                 for c in zcases]
        outs = drv.run(lines)
        for c, line, mo in zip(zcases, lines, outs):
            try:
                io = impl_zhlag(c)
            except Exception as e:
                io = 'err:' + err_name(e)
            if io is None:                                  # the constructor does not hand a whole series to the sky model: not observable here
                ctx.count('zhlag:not_observable')             # (the oracle op `sky`/zh checks the values at every step)
                continue
            ctx.compared += 1
            ctx.count('op:zhlag')
            ctx.case(('zhlag', json.dumps(c)), nontrivial=not io.startswith('err:'))
            if _canon_ws(mo) != _canon_ws(io):
                ctx.disagree('zhlag', {'case': c, 'line': line[:200]}, mo[:300], io[:300])
    else:
        ctx.count('zhlag:not_observable')


def _count_file(n):
    from ladybug.wea import Wea
    p = _tmpfile()
    with open(p, 'w') as f:
        f.write('x\n' * n)
    try:
        return Wea.count_timesteps(p)
    finally:
        os.remove(p)


# ---------------------------------------------------------------------------------------------
# property oracle: the statement of C12 evaluated on the real code, independent of the model


def _ts_class(ts):
    return 'hourly' if ts == 1 else 'sub-hourly'


def _coll_rows(w):
    return [(d.month, d.day, d.hour, d.minute, bool(d.leap_year), a, b) for d, a, b in
            zip(w.direct_normal_irradiance.datetimes, w.direct_normal_irradiance.values,
                w.diffuse_horizontal_irradiance.values)]


def _expected_rows(leap, moys, v1, v2):
    out = []
    for m, a, b in zip(moys, v1, v2):
        r = _ref(leap, m)
        out.append((r.month, r.day, r.hour, r.minute, leap, a, b))
    return out


def _first_diff(a, b):
    if len(a) != len(b):
        return 'lengths %d vs %d' % (len(a), len(b))
    for i, (x, y) in enumerate(zip(a, b)):
        if x != y:
            return 'position %d: required %s observed %s' % (i, x, y)
    return None


def _check_aligned(w):
    a, b = w.direct_normal_irradiance, w.diffuse_horizontal_irradiance
    if tuple(a.datetimes) != tuple(b.datetimes) or len(a.values) != len(b.values) or len(a.values) != len(a.datetimes):
        return 'collections not aligned: %d/%d values, %d/%d datetimes' % (
            len(a.values), len(b.values), len(a.datetimes), len(b.datetimes))
    return None


def _make_wea(inp):
    """Build the Wea an oracle case describes, directly from collections."""
    loc = _loc(*inp['loc']) if inp.get('loc') else _loc()
    if inp['kind'] in ('annual', 'partial'):
        w = _build_cont(inp['ts'], inp['leap'], *inp['period'], mode=inp.get('mode', 0),
                        onhour=inp.get('onhour', False), loc=loc)
    else:
        w = _build_disc(inp['ts'], inp['leap'], inp['moys'], inp.get('mode', 0), inp.get('onhour', False), loc=loc)
    if inp.get('imm'):                                   # the immutable twins of the two collections
        from ladybug.wea import Wea
        w2 = Wea(w.location, w.direct_normal_irradiance.to_immutable(), w.diffuse_horizontal_irradiance.to_immutable())
        w2.enforce_on_hour = w.enforce_on_hour
        return w2
    return w


def _moys_of(inp):
    if inp['kind'] in ('annual', 'partial'):
        return _period_moys(inp['ts'], inp['leap'], *inp['period'])
    return list(inp['moys'])


def _trunc(x):
    return int(x)


def _ap_pred_moys(sm, sd, sh, em, ed, eh, ts, leap):
    """Steps an analysis period describes (statement of C04, brute force)."""
    n = 1440 * (366 if leap else 365)
    step = 60 // ts
    s = _doy0(leap, sm, sd) * 1440 + sh * 60
    e = _doy0(leap, em, ed) * 1440 + eh * 60

    def in_window(mod):
        if sh <= eh:
            return sh * 60 <= mod <= eh * 60 or (sh == 0 and eh == 23)
        return mod >= sh * 60 or mod <= eh * 60

    spans = [(s, e + 59)] if s <= e else [(s, n - 1), (0, e + 59)]
    out = []
    for a, b in spans:
        first = -(-a // step) * step
        out.extend(m for m in range(first, b + 1, step) if in_window(m % 1440))
    return out


def _expected_positions(w, f, ts, leap):
    """Source positions the filter spec `f` selects (independent of the filter code)."""
    src = [d.moy for d in w.direct_normal_irradiance.datetimes]
    pos = {m: i for i, m in enumerate(src)}
    kind = f['kind']
    if kind == 'period':
        return [pos[m] for m in _ap_pred_moys(*(f['args'] + [ts, leap])) if m in pos]
    if kind in ('moys', 'hoys'):
        return [pos[m] for m in f['moys'] if m in pos]
    if kind == 'hoys_ap':               # the float hours AnalysisPeriod.hoys reports for a period
        return [pos[m] for m in _ap_pred_moys(*(f['args'] + [ts, leap])) if m in pos]
    if kind == 'pattern':
        pat = f['pattern']
        return [i for i in range(len(src)) if pat[i % len(pat)]]
    if kind == 'sun_up':
        from ladybug.sunpath import Sunpath
        sp = Sunpath.from_location(w.location)
        sp.is_leap_year = leap
        sh = 30 if (ts == 1 and not w.enforce_on_hour) else 0
        return [i for i, m in enumerate(src)
                if sp.calculate_sun_from_date_time(_lb_dt(leap, m + sh)).altitude > f['min_alt']]
    raise ValueError(kind)


def _apply_filter(w, f, ts, leap):
    """Apply filter spec `f` with the real code; return (filtered Wea, expected source positions)."""
    from ladybug.analysisperiod import AnalysisPeriod
    want = _expected_positions(w, f, ts, leap)
    kind = f['kind']
    shape = f.get('argshape')
    if kind == 'period':
        return w.filter_by_analysis_period(_mk_period(f['args'], ts, leap, f.get('via'), f.get('shape', 0))), want
    if kind == 'moys':
        return w.filter_by_moys(_shape_arg(f['moys'], shape)), want
    if kind == 'hoys':
        return w.filter_by_hoys(_shape_arg([m / 60.0 for m in f['moys']], shape)), want
    if kind == 'hoys_ap':
        hoys = list(_mk_period(f['args'], ts, leap, f.get('via'), f.get('shape', 0)).hoys)
        if f.get('shuffle'):
            random.Random(f['shuffle']).shuffle(hoys)
        return w.filter_by_hoys(_shape_arg(hoys, shape)), want
    if kind == 'pattern':
        return w.filter_by_pattern(_shape_arg(f['pattern'], shape)), want
    return w.filter_by_sun_up(f['min_alt']), want


def _check_file_rt(w, ts, leap, sig, path=None):
    """Write `w`, read it back with (ts, leap) and compare location, time steps, values.
    (`path`: write to this path again and again - a reader must not remember an earlier content.)"""
    from ladybug.wea import Wea
    p = path or _tmpfile()
    try:
        path = w.write(p)
        if path != (p if p.lower().endswith('.wea') else p + '.wea') or not os.path.isfile(path):
            return {'required': 'write returns the path of the .wea file it wrote', 'observed': path, 'sig': dict(sig, what='written path')}
        p = path
        try:
            r = Wea.from_file(path, ts, leap)
        except Exception as e:
            return {'required': 'file reads back', 'observed': 'raises %s: %s' % (type(e).__name__, str(e)[:120].replace('\n', ' ')),
                    'sig': dict(sig, what='read raises ' + type(e).__name__)}
        cnt = Wea.count_timesteps(path)
    finally:
        if os.path.exists(p):
            os.remove(p)
    if cnt != len(w):
        return {'required': len(w), 'observed': cnt, 'sig': dict(sig, what='count_timesteps')}
    al = _check_aligned(r)
    if al:
        return {'required': 'aligned', 'observed': al, 'sig': dict(sig, what='aligned')}
    want = [(mo, da, h, mi, lp, _trunc(a), _trunc(b)) for mo, da, h, mi, lp, a, b in _coll_rows(w)]
    got = _coll_rows(r)
    chrono = all(x[:4] < y[:4] for x, y in zip(want, want[1:]))
    if not w.is_continuous and not chrono:
        # sparse rows that are not in calendar order (e.g. filtered from a period that wraps the year end):
        # a .wea file has no year, the reader returns them in calendar order - same rows as a set
        # (theorem C12_file_sparse_sorted)
        want, got = sorted(want), sorted(got)
    d = _first_diff(want, got)
    if d:
        return {'required': 'same time steps and truncated values', 'observed': d, 'sig': dict(sig, what='rows')}
    if r.timestep != w.timestep or r.is_leap_year != w.is_leap_year:
        return {'required': (w.timestep, w.is_leap_year), 'observed': (r.timestep, r.is_leap_year),
                'sig': dict(sig, what='timestep/leap')}
    if w.is_continuous and not r.is_continuous:
        return {'required': 'continuous', 'observed': 'discontinuous', 'sig': dict(sig, what='continuity')}
    if w.is_continuous and r.analysis_period != w.analysis_period:
        return {'required': str(w.analysis_period), 'observed': str(r.analysis_period), 'sig': dict(sig, what='period')}
    if not w.enforce_on_hour and (w.is_continuous or chrono) and tuple(r.datetimes) != tuple(w.datetimes):
        return {'required': 'same public datetimes', 'observed': _first_diff(list(map(str, w.datetimes)), list(map(str, r.datetimes))),
                'sig': dict(sig, what='datetimes')}
    lw, lr = w.location, r.location
    tzdeg = -lw.time_zone * 15
    want_loc = (' '.join(lw.city.split()), round(lw.latitude, 2), round(lw.longitude, 2), round(lw.elevation, 1))
    got_loc = (lr.city, round(lr.latitude, 2), round(lr.longitude, 2), round(lr.elevation, 1))
    if any(abs(a - b) > 1e-9 if isinstance(a, float) else a != b for a, b in zip(want_loc, got_loc)):
        return {'required': want_loc, 'observed': got_loc, 'sig': dict(sig, what='location')}
    if abs(lr.time_zone - lw.time_zone) > 1e-9:
        return {'required': lw.time_zone, 'observed': lr.time_zone,
                'sig': dict(sig, what='time_zone', zone='whole-degree' if float(tzdeg).is_integer() else 'fractional-degree')}
    return None


def check_case(op, inp):
    from ladybug.wea import Wea
    from ladybug.analysisperiod import AnalysisPeriod
    if op == 'axis':
        ts, leap, onhour = inp['ts'], inp['leap'], inp['onhour']
        n = _hours(leap) * ts
        sig = {'ts': _ts_class(ts), 'leap': leap, 'onhour': onhour}
        w = Wea.from_annual_values(_loc(), list(range(n)), list(range(n, 2 * n)), ts, leap)
        w.enforce_on_hour = onhour
        sh = 30 if (ts == 1 and not onhour) else 0
        dts = w.datetimes
        hoys = w.hoys
        if len(dts) != n or len(hoys) != n or not w.is_annual or not w.is_continuous:
            return {'required': n, 'observed': len(dts), 'sig': dict(sig, what='length')}
        idx = range(n) if n <= 9000 or inp.get('full') else sorted(set(inp['idx']))
        for i in idx:
            r = _ref(leap, 60 * i // ts + sh)
            d = dts[i]
            if (d.month, d.day, d.hour, d.minute, d.leap_year) != (r.month, r.day, r.hour, r.minute, leap) or \
                    abs(hoys[i] - (60 * i // ts + sh) / 60.0) > 1e-9:
                return {'required': 'step %d at %s' % (i, r.strftime('%d %b %H:%M')), 'observed': '%s (hoy %r)' % (d, hoys[i]),
                        'sig': dict(sig, what='step')}
            if w.direct_normal_irradiance[i] != i or w.diffuse_horizontal_irradiance[i] != n + i:
                return {'required': (i, n + i), 'observed': (w.direct_normal_irradiance[i], w.diffuse_horizontal_irradiance[i]),
                        'sig': dict(sig, what='value')}
        for i in (idx if n > 9000 else list(idx)[::7] + [n - 1]):
            # round 4: the value asked for AT the hour of the year of a step is the value of that step (fractional hours too)
            try:
                g = w.get_irradiance_value_for_hoy(hoys[i])
            except Exception as e:
                g = 'raises ' + type(e).__name__
            if g != (i, n + i):
                below = g == (i - 1, n + i - 1) and int(hoys[i] * ts) == i - 1      # float product hoy * timestep just below the step index
                return {'required': 'get_irradiance_value_for_hoy(%r) = values of step %d %r' % (hoys[i], i, (i, n + i)), 'observed': g,
                        'sig': dict(sig, what='get_for_hoy float product below the step' if below else 'get_irradiance_value_for_hoy')}
            m0 = 60 * i // ts
            if m0 % 60 == 0:
                r0 = _ref(leap, m0)
                try:
                    g = w.get_irradiance_value(r0.month, r0.day, r0.hour)
                except Exception as e:
                    g = 'raises ' + type(e).__name__
                if g != (i, n + i):
                    return {'required': 'get_irradiance_value%r = values of step %d' % ((r0.month, r0.day, r0.hour), i), 'observed': g,
                            'sig': dict(sig, what='get_irradiance_value')}
        if not onhour:
            g = Wea._get_datetimes(ts, leap)
            if len(g) != n or any(g[i] != dts[i] for i in idx):
                return {'required': '_get_datetimes == datetimes', 'observed': 'differ', 'sig': dict(sig, what='_get_datetimes')}
        return None
    if op == 'file_rt':
        sig = {'kind': inp['kind'], 'leap': inp['leap'], 'ts': _ts_class(inp['ts'])}
        w = _make_wea(inp)
        # the written text itself: values truncated toward zero, one line per step
        a, b = _vals(inp.get('mode', 0), len(w))
        moys = _moys_of(inp)
        lines = _lines_of(inp['leap'], inp['ts'], moys, inp.get('onhour', False), a, b)
        text = w.to_file_string()
        want_body = ''.join('%d %d %d.%03d %d %d\n' % (mo, da, mi // 1000, mi % 1000, x, y) for mo, da, mi, x, y in lines)
        if text != w.header + want_body:
            got = text[len(w.header):].split('\n')
            return {'required': 'lines month day hour.mmm trunc(dni) trunc(dhi)',
                    'observed': _first_diff(want_body.split('\n'), got), 'sig': dict(sig, what='text')}
        return _check_file_rt(w, inp['ts'], inp['leap'], sig)
    if op == 'dict_rt':
        sig = {'kind': inp['kind'], 'leap': inp['leap'], 'ts': _ts_class(inp['ts'])}
        w = _make_wea(inp)
        try:
            r = Wea.from_dict(json.loads(json.dumps(w.to_dict())))
        except Exception as e:
            return {'required': 'dict reads back', 'observed': 'raises %s: %s' % (type(e).__name__, str(e)[:120]),
                    'sig': dict(sig, what='read raises ' + type(e).__name__)}
        d = _first_diff(_coll_rows(w), _coll_rows(r))
        if d:
            return {'required': 'same rows', 'observed': d, 'sig': dict(sig, what='rows')}
        if (r.timestep, r.is_leap_year, r.is_continuous, r.is_annual) != (w.timestep, w.is_leap_year, w.is_continuous, w.is_annual):
            return {'required': (w.timestep, w.is_leap_year, w.is_continuous, w.is_annual),
                    'observed': (r.timestep, r.is_leap_year, r.is_continuous, r.is_annual), 'sig': dict(sig, what='flags')}
        if w.is_continuous and r.analysis_period != w.analysis_period:
            return {'required': str(w.analysis_period), 'observed': str(r.analysis_period), 'sig': dict(sig, what='period')}
        if r.location != w.location or (not w.enforce_on_hour and tuple(r.datetimes) != tuple(w.datetimes)):
            return {'required': 'same location and datetimes', 'observed': 'differ', 'sig': dict(sig, what='location/datetimes')}
        return None
    if op == 'dict_leap':
        # a dictionary that declares a leap year is read as leap-year data
        arrs = [[_ref(True, m).month, _ref(True, m).day, _ref(True, m).hour, _ref(True, m).minute] for m in inp['moys']]
        d = {'type': 'Wea', 'location': _loc().to_dict(), 'timestep': inp['ts'], 'is_leap_year': True,
             'datetimes': arrs, 'direct_normal_irradiance': list(range(len(arrs))),
             'diffuse_horizontal_irradiance': list(range(len(arrs)))}
        sig = {'what': 'is_leap_year kept'}
        try:
            r = Wea.from_dict(d)
        except Exception as e:
            return {'required': 'reads', 'observed': 'raises %s' % type(e).__name__, 'sig': sig}
        if r.is_leap_year is not True:
            return {'required': True, 'observed': r.is_leap_year, 'sig': sig}
        return None
    if op == 'filter':
        ts, leap = inp['ts'], inp['leap']
        f = inp['filter']
        sig = {'filter': f['kind'], 'leap': leap, 'ts': _ts_class(ts), 'source': inp['kind']}
        w = _make_wea(inp)
        n = len(w)
        if f.get('via') or f.get('argshape'):
            sig['form'] = '%s/%s' % (f.get('via') or 'num', f.get('argshape') or 'list')
        try:
            r, want = _apply_filter(w, f, ts, leap)
        except AssertionError as e:
            if 'at least one value' in str(e) and not _expected_positions(w, f, ts, leap):
                return None                                   # an empty selection is rejected by the collections
            if f.get('argshape') in _ONE_SHOT:
                return None                                   # a one-shot iterable may be refused (documented: a list), never answered wrongly
            return {'required': 'filter returns', 'observed': 'raises AssertionError: %s' % str(e)[:100],
                    'sig': dict(sig, what='raises AssertionError')}
        except Exception as e:
            if f.get('argshape') in _ONE_SHOT:
                return None
            return {'required': 'filter returns', 'observed': 'raises %s: %s' % (type(e).__name__, str(e)[:100]),
                    'sig': dict(sig, what='raises ' + type(e).__name__)}
        al = _check_aligned(r)
        if al:
            return {'required': 'aligned', 'observed': al, 'sig': dict(sig, what='aligned')}
        src = _coll_rows(w)
        got = _coll_rows(r)
        want_rows = [src[i] for i in want]
        if len(set(r[:5] for r in got)) != len(got):
            return {'required': 'each selected step once', 'observed': '%d rows, %d distinct steps' % (len(got), len(set(r[:5] for r in got))),
                    'sig': dict(sig, what='step twice')}
        if f['kind'] in ('moys', 'hoys', 'hoys_ap'):
            want_rows, got = sorted(want_rows), sorted(got)      # order of list filters is C02's (request vs source)
        d = _first_diff(want_rows, got)
        if d:
            return {'required': 'exactly the selected steps with the values of their source positions',
                    'observed': d, 'sig': dict(sig, what='rows')}
        for row in got:                                       # both values come from one source position
            if row[6] != row[5] + n:
                return {'required': 'dhi id = dni id + %d' % n, 'observed': row, 'sig': dict(sig, what='pairing')}
        # round 4: the Wea that was filtered is what it was (rows, period) and answers the same request again the same way
        if _coll_rows(w) != src:
            return {'required': 'the filtered Wea keeps its rows', 'observed': _first_diff(src, _coll_rows(w)), 'sig': dict(sig, what='source rows changed')}
        if inp['kind'] in ('annual', 'partial'):
            exp_ap = tuple(inp['period'][:2]) + (0,) + tuple(inp['period'][2:]) + (23, ts, leap)
            for c in (w.direct_normal_irradiance, w.diffuse_horizontal_irradiance):
                a = c.header.analysis_period
                got_ap = (a.st_month, a.st_day, a.st_hour, a.end_month, a.end_day, a.end_hour, a.timestep, bool(a.is_leap_year))
                if got_ap != exp_ap:
                    return {'required': 'the filtered Wea keeps its period %s' % (exp_ap,), 'observed': got_ap, 'sig': dict(sig, what='source period changed')}
        if f.get('argshape') not in _ONE_SHOT and f['kind'] != 'sun_up':
            try:
                r2, _w = _apply_filter(w, f, ts, leap)
                got2 = _coll_rows(r2)
            except Exception as e:
                got2 = 'raises %s' % type(e).__name__
            if got2 != _coll_rows(r):
                return {'required': 'the same request answered the same way a second time', 'observed': got2 if isinstance(got2, str) else _first_diff(_coll_rows(r), got2),
                        'sig': dict(sig, what='second call differs')}
        if inp.get('then_write') and len(r) >= 1 and f['kind'] not in ('moys', 'hoys', 'hoys_ap'):
            return _check_file_rt(r, ts, leap, dict(sig, kind='filtered'))
        return None
    if op == 'epw':
        return _check_epw(inp)
    if op == 'cli':
        return _check_cli(inp)
    if op == 'const':
        w = _make_wea(inp)
        p = _tmpfile()
        try:
            path = w.write(p)
            text = Wea.to_constant_value(path, inp['value'])
            src = open(path).read()
        finally:
            if os.path.exists(p):
                os.remove(p)
        sig = {'what': 'to_constant_value'}
        a, b = src.split('\n'), text.split('\n')
        if len(a) != len(b) or a[:6] != b[:6]:
            return {'required': 'same header and line count', 'observed': (len(a), len(b)), 'sig': sig}
        v = str(int(inp['value']))
        for x, y in zip(a[6:-1], b[6:-1]):
            if y.split(' ') != x.split(' ')[:3] + [v, v]:
                return {'required': x.split(' ')[:3] + [v, v], 'observed': y, 'sig': sig}
        return None
    if op == 'daysim':
        ts, leap = inp['ts'], inp['leap']
        n = _hours(leap) * ts
        sig = {'what': 'daysim shift', 'ts': _ts_class(ts)}
        # DAYSIM convention: line k is the interval ending at (k + 1) * 60/ts minutes, stamped at its middle
        step = 60.0 / ts
        p = _tmpfile()
        with open(p, 'w') as f:
            f.write(_HDR)
            for k in range(n):
                mid = (k + 0.5) * step
                r = _ref(leap, int(mid) % (n * 60 // ts))
                f.write('%d %d %.3f %d %d\n' % (r.month, r.day, (mid % 1440) / 60.0, k, n + k))
        try:
            w = Wea.from_daysim_file(p, ts, leap)
        finally:
            os.remove(p)
        sh = ts // 2 if ts != 1 else 0
        a = w.direct_normal_irradiance.values
        b = w.diffuse_horizontal_irradiance.values
        for i in inp['idx']:
            want = (i - sh) % n
            if a[i] != want or b[i] != n + want:
                return {'required': 'step %d holds line %d' % (i, want), 'observed': (a[i], b[i]), 'sig': sig}
        return None
    if op == 'sky':
        return _check_sky(inp)
    if op == 'hist':
        return _check_hist(inp)
    if op == 'epw_hist':
        return _check_epw_hist(inp)
    if op == 'cli_hist':
        return _check_cli_hist(inp)
    if op == 'order':
        return _check_order(inp)
    if op == 'cli_ap':
        return _check_cli_ap(inp)
    if op == 'siblings':
        return _check_siblings(inp)
    if op == 'file_shapes':
        return _check_file_shapes(inp)
    if op == 'shapes':
        return _check_shapes(inp)
    raise ValueError('unknown op ' + op)


def _epw_rows(path):
    rows = []
    with open(path, errors='ignore') as f:
        lines = f.read().split('\n')
    loc = lines[0].split(',')
    for ln in lines[8:]:
        t = ln.split(',')
        if len(t) > 15:
            rows.append((int(t[1]), int(t[2]), int(t[3]), float(t[14]), float(t[15])))
    return loc, rows


def _asset(kind, name):
    return os.path.join(core.REPO, 'tests', 'assets', kind, name)


def _check_epw(inp):
    from ladybug.wea import Wea
    from ladybug.epw import EPW
    path = _asset('epw', inp['file'])
    ts = inp['ts']
    sig = {'what': 'epw', 'ts': _ts_class(ts), 'file': inp['file']}
    loc, rows = _epw_rows(path)
    leap = len(rows) == 8784
    n = len(rows)
    w = Wea.from_epw_file(path, ts)
    al = _check_aligned(w)
    if al:
        return {'required': 'aligned', 'observed': al, 'sig': dict(sig, what='aligned')}
    if len(w) != n * ts or w.timestep != ts or w.is_leap_year != leap or not w.is_annual:
        return {'required': (n * ts, ts, leap), 'observed': (len(w), w.timestep, w.is_leap_year), 'sig': dict(sig, what='shape')}
    if (w.location.city, w.location.latitude, w.location.longitude, w.location.time_zone, w.location.elevation) != \
            (loc[1], float(loc[6]), float(loc[7]), float(loc[8]), float(loc[9])):
        return {'required': loc, 'observed': str(w.location), 'sig': dict(sig, what='location')}
    dts = w.datetimes
    sh = 30 if ts == 1 else 0
    for i in inp['idx']:
        if i >= n * ts:
            continue
        r = _ref(leap, 60 * i // ts + sh)
        d = dts[i]
        if (d.month, d.day, d.hour, d.minute) != (r.month, r.day, r.hour, r.minute):
            return {'required': str(r), 'observed': str(d), 'sig': dict(sig, what='step')}
    if ts == 1:
        e0 = EPW(path)                      # the typed cells (integer fields are rounded on import: C01)
        c1, c2 = e0.direct_normal_radiation.values, e0.diffuse_horizontal_radiation.values
        for i, (mo, da, hr, dn, dh) in enumerate(rows):
            if abs(c1[i] - dn) <= 0.5 and abs(c2[i] - dh) <= 0.5:
                dn, dh = c1[i], c2[i]
            d = dts[i]
            # EPW row stamped hour h (1..24) covers the hour ending at h: its middle is (h - 1):30
            if (d.month, d.day, d.hour, d.minute) != (mo, da, hr - 1, 30) and not (leap is False and (mo, da) == (2, 29)):
                return {'required': (mo, da, hr - 1, 30), 'observed': str(d), 'sig': dict(sig, what='row stamp')}
            if w.direct_normal_irradiance[i] != dn or w.diffuse_horizontal_irradiance[i] != dh:
                return {'required': (dn, dh), 'observed': (w.direct_normal_irradiance[i], w.diffuse_horizontal_irradiance[i]),
                        'sig': dict(sig, what='cell')}
        # EPW.to_wea writes the same file
        if inp.get('to_wea'):
            tmp_epw = os.path.join(_tmpdir(), 'copy_' + inp['file'])
            shutil.copy(path, tmp_epw)
            e1 = EPW(tmp_epw)
            out = e1.to_wea(_tmpfile())
            got = open(out).read()
            os.remove(out)
            if got != w.to_file_string():
                return {'required': 'EPW.to_wea == Wea.from_epw_file(...).to_file_string()',
                        'observed': _first_diff(w.to_file_string().split('\n'), got.split('\n')), 'sig': dict(sig, what='to_wea')}
            hoys = inp.get('hoys')
            if hoys:
                out = e1.to_wea(_tmpfile(), hoys)
                got = open(out).read()
                os.remove(out)
                want = w.header + ''.join(
                    '%d %d %.3f %d %d\n' % (rows[h][0], rows[h][1], rows[h][2] - 1 + 0.5, c1[h], c2[h]) for h in hoys)
                if got != want:
                    return {'required': 'lines of the requested hours', 'observed': _first_diff(want.split('\n'), got.split('\n')),
                            'sig': dict(sig, what='to_wea hoys')}
    else:
        # sub-hourly: the interpolated collection, zero where the sun is down at that step
        from ladybug.sunpath import Sunpath
        from ladybug.analysisperiod import AnalysisPeriod
        from ladybug.datacollection import HourlyContinuousCollection
        e = EPW(path)
        h1, h2 = _headers(AnalysisPeriod(is_leap_year=leap))
        # typed cells (integer fields are rounded on import: C01), checked against the raw rows
        c1, c2 = list(e.direct_normal_radiation.values), list(e.diffuse_horizontal_radiation.values)
        if any(abs(c1[k] - rows[k][3]) > 0.5 or abs(c2[k] - rows[k][4]) > 0.5 for k in range(n)):
            return {'required': 'EPW cells of the same row', 'observed': 'differ', 'sig': dict(sig, what='cell')}
        dn = HourlyContinuousCollection(h1, c1).interpolate_to_timestep(ts)
        dh = HourlyContinuousCollection(h2, c2).interpolate_to_timestep(ts)
        sp = Sunpath.from_location(e.location)
        for i in inp['idx']:
            if i >= n * ts:
                continue
            up = sp.calculate_sun_from_date_time(_lb_dt(leap, 60 * i // ts)).altitude >= 0
            want = (dn[i], dh[i]) if up else (0, 0)
            got = (w.direct_normal_irradiance[i], w.diffuse_horizontal_irradiance[i])
            if got != want:
                return {'required': want, 'observed': got, 'sig': dict(sig, what='interpolated cell')}
    return None


_NOTE = ("Note: timesteps greater than 1 on epw-generated Weas \nare suitable for thermal models but are not recommended \n"
         "for daylight models.\n")


def _check_cli(inp):
    from click.testing import CliRunner
    from ladybug.cli.translate import translate
    from ladybug.wea import Wea
    from ladybug.analysisperiod import AnalysisPeriod
    sig = {'what': 'cli', 'cmd': inp['cmd'], 'out': inp['out']}
    tmp_epw = os.path.join(_tmpdir(), 'cli_' + inp['file'])
    src = _asset(inp['assets'], inp['file'])
    shutil.copy(src, tmp_epw)
    runner = CliRunner()
    outp = _tmpfile('.out') if inp['out'] == 'file' else None
    if inp['cmd'] == 'epw-to-wea':
        args = ['epw-to-wea', tmp_epw]
        if inp.get('ap') is not None:
            args += ['--analysis-period', inp['ap']]
        if inp.get('ts') is not None:
            args += ['--timestep', str(inp['ts'])]
        ts = inp.get('ts') or 1
        w = Wea.from_epw_file(tmp_epw, ts)
        if inp.get('ap') not in (None, '', 'None'):
            w = w.filter_by_analysis_period(AnalysisPeriod.from_string(inp['ap']))
        want = w.to_file_string()
    else:
        args = ['wea-to-constant', tmp_epw]
        if inp.get('value') is not None:
            args += ['--value', str(inp['value'])]
        v = 1000 if inp.get('value') is None else inp['value']
        if inp['assets'] == 'wea':
            want = Wea.to_constant_value(tmp_epw, v)
        else:
            p2 = Wea.from_epw_file(tmp_epw).write(_tmpfile())
            want = Wea.to_constant_value(p2, v)
            os.remove(p2)
    if outp:
        args += ['--output-file', outp]
    res = runner.invoke(translate, args)
    if res.exit_code != 0:
        return {'required': 'exit 0', 'observed': 'exit %s: %s' % (res.exit_code, (res.output or '')[-200:]), 'sig': dict(sig, what='cli exit')}
    got = open(outp).read() if outp else res.output
    if outp:
        os.remove(outp)
    side = os.path.join(_tmpdir(), 'epw_to_wea.wea')
    if os.path.exists(side):
        os.remove(side)
    if got != want:
        if not outp and got == _NOTE + want:
            return {'required': 'stdout is the .wea text', 'observed': 'the interpolation note is printed into the stream before the header',
                    'sig': dict(sig, what='stdout-note-prefix')}
        return {'required': 'same bytes as the library composition', 'observed': _first_diff(want.split('\n'), got.split('\n')),
                'sig': dict(sig, what='cli bytes')}
    return None


def _check_sky(inp):
    from ladybug.wea import Wea
    from ladybug.sunpath import Sunpath
    from ladybug.skymodel import ashrae_clear_sky, ashrae_revised_clear_sky
    ts, leap = inp['ts'], inp['leap']
    loc = _loc(*inp['loc']) if inp.get('loc') else _loc()
    n = _hours(leap) * ts
    sig = {'what': 'sky ' + inp['model'], 'ts': _ts_class(ts), 'leap': leap}
    sp = Sunpath.from_location(loc)
    sp.is_leap_year = leap
    adj = 30 if ts == 1 else 0
    u17 = bool(inp.get('use_2017'))
    taub, taud = inp.get('taub'), inp.get('taud')
    if inp['model'] == 'ashrae':
        w = Wea.from_ashrae_clear_sky(loc, inp.get('clearness', 1), ts, leap)
    elif inp['model'] == 'revised':
        w = Wea.from_ashrae_revised_clear_sky(loc, _shape_arg(taub, inp.get('taushape')), _shape_arg(taud, inp.get('taushape')), ts, leap, u17)
    elif inp['model'] == 'stat':
        # the optical depths of the file, read here from its two tab-separated lines
        path = _asset('stat', inp['file'])
        taub = taud = None
        with open(path, errors='ignore') as f:
            for ln in f:
                t = [x.strip() for x in ln.split('\t') if x.strip()]
                if t and t[0] == 'taub (beam)' and len(t) == 13:
                    taub = [None if x == 'N_A' else float(x) for x in t[1:]]
                if t and t[0] == 'taud (diffuse)' and len(t) == 13:
                    taud = [None if x == 'N_A' else float(x) for x in t[1:]]
        try:
            w = Wea.from_stat_file(path, ts, leap, u17)
        except ValueError:
            if taub is None or taud is None or None in taub or None in taud:
                return None                                 # missing optical depths are refused
            return {'required': 'reads', 'observed': 'ValueError', 'sig': dict(sig, what='stat refused')}
        if taub is None or taud is None or None in taub or None in taud:
            return {'required': 'a .stat file with missing optical depths is refused', 'observed': 'a Wea', 'sig': dict(sig, what='stat accepted')}
        loc = w.location
        sp = Sunpath.from_location(loc)
        sp.is_leap_year = leap
    else:
        return _check_zh(inp, loc)
    if len(w) != n or _check_aligned(w) or not w.is_annual or w.is_leap_year != leap:
        return {'required': n, 'observed': len(w), 'sig': dict(sig, what='shape')}
    dts = w.datetimes
    for i in inp['idx']:
        m = 60 * i // ts + adj
        r = _ref(leap, m)
        if (dts[i].month, dts[i].day, dts[i].hour, dts[i].minute) != (r.month, r.day, r.hour, r.minute):
            return {'required': str(r), 'observed': str(dts[i]), 'sig': dict(sig, what='step')}
        alt = sp.calculate_sun_from_date_time(_lb_dt(leap, m)).altitude
        if inp['model'] == 'ashrae':
            a, b = ashrae_clear_sky([alt], r.month, inp.get('clearness', 1))
        else:
            a, b = ashrae_revised_clear_sky([alt], taub[r.month - 1], taud[r.month - 1], u17)
        got = (w.direct_normal_irradiance[i], w.diffuse_horizontal_irradiance[i])
        if abs(got[0] - a[0]) > 1e-9 or abs(got[1] - b[0]) > 1e-9:
            return {'required': (a[0], b[0]), 'observed': got, 'sig': dict(sig, what='value at step')}
    return None


def _check_zh(inp, loc):
    from ladybug.wea import Wea
    from ladybug.sunpath import Sunpath
    from ladybug.skymodel import zhang_huang_solar_split
    from ladybug.analysisperiod import AnalysisPeriod
    from ladybug.header import Header
    from ladybug.datacollection import HourlyContinuousCollection
    from ladybug.datatype.fraction import Fraction as Frac, RelativeHumidity
    from ladybug.datatype.temperature import Temperature
    from ladybug.datatype.speed import Speed
    ts, leap = inp['ts'], inp['leap']
    sig = {'what': 'sky zhang-huang', 'ts': _ts_class(ts), 'leap': leap}
    ap = AnalysisPeriod(*(inp['period'][:2] + [0] + inp['period'][2:] + [23, ts, leap]))
    n = len(ap)
    rnd = random.Random(inp['seed'])
    cc = [rnd.random() for _ in range(n)]
    rh = [rnd.uniform(10, 100) for _ in range(n)]
    db = [rnd.uniform(-10, 35) for _ in range(n)]
    ws = [rnd.uniform(0, 10) for _ in range(n)]
    mk = lambda t, u, v: HourlyContinuousCollection(Header(t, u, ap), v)
    pr = [rnd.uniform(80000, 103000) for _ in range(n)] if inp.get('pressure') else None
    disc = bool(inp.get('use_disc'))
    if pr is not None or disc:
        from ladybug.datatype.pressure import AtmosphericStationPressure
        w = Wea.from_zhang_huang_solar(loc, mk(Frac(), 'fraction', cc), mk(RelativeHumidity(), '%', rh),
                                       mk(Temperature(), 'C', db), mk(Speed(), 'm/s', ws),
                                       mk(AtmosphericStationPressure(), 'Pa', pr) if pr is not None else None, disc)
    else:
        w = Wea.from_zhang_huang_solar(loc, mk(Frac(), 'fraction', cc), mk(RelativeHumidity(), '%', rh),
                                       mk(Temperature(), 'C', db), mk(Speed(), 'm/s', ws))
    if len(w) != n or _check_aligned(w) or w.analysis_period != ap:
        return {'required': n, 'observed': len(w), 'sig': dict(sig, what='shape')}
    sp = Sunpath.from_location(loc)
    sp.is_leap_year = leap
    moys = _period_moys(ts, leap, *inp['period'])
    cdts = w.direct_normal_irradiance.datetimes
    alts = [sp.calculate_sun_from_date_time(_lb_dt(leap, m)).altitude for m in moys]
    a, b = zhang_huang_solar_split(alts, [m // 1440 + 1 for m in moys], cc, rh, db,
                                   [db[i - 3 * ts] for i in range(n)], ws, pr if pr is not None else [101325] * n, disc)
    for i in range(n):
        if cdts[i].moy != moys[i]:
            return {'required': moys[i], 'observed': cdts[i].moy, 'sig': dict(sig, what='step')}
        got = (w.direct_normal_irradiance[i], w.diffuse_horizontal_irradiance[i])
        if abs(got[0] - a[i]) > 1e-9 or abs(got[1] - b[i]) > 1e-9:
            return {'required': (a[i], b[i]), 'observed': got, 'sig': dict(sig, what='value at step')}
    return None


# ---------------------------------------------------------------------------------------------
# round 4: input shapes, sibling classes, aliasing of results, conventions between modules, numeric edges, rare branches
#
# Branches of the anchored functions and the counted stratum that reaches each (`branch:…` in evidence):
#   from_dict        no `datetimes` key / key None (annual) · whole-day period (continuous) · hour window (discontinuous,
#                    period kept) · count mismatch (discontinuous, annual header) · leap flag re-applied to the first/last array
#   from_file        continuous · hour window · sparse; inside the discontinuous branch timestep == 1 (hour = int) / else (rounded minute)
#   from_daysim_file timestep != 1 (shift) / == 1
#   from_epw_file    timestep == 1 / != 1 (interpolation, sun below the horizon -> 0); leap EPW / common-year EPW
#   clear skies      ashrae / revised (use_2017 False|True) / from_stat_file (missing taus refused: antartica.stat)
#   zhang-huang      atmospheric_pressure None / given; use_disc False / True
#   datetimes        timestep == 1 and not on-hour (+30) / else
#   get_irradiance_value(_for_hoy)  annual (index arithmetic) / not annual (search) / not found (ValueError)
#   write            path with / without `.wea`; write_hours
#   filter_by_analysis_period (collections, used through Wea)  continuous whole-day slice: plain / through the year end;
#                    hour window -> filter_by_moys; discontinuous source: re-ordered by the period
#   AnalysisPeriod (helper of C04) built from numbers / from text (from_string: 1- and 2-digit fields mixed, padded,
#                    upper case, `*`) / from string arguments / floats / repr round trip / dict / duplicate;
#                    is_overnight (st_hour > end_hour) / not; is_reversed (wraps the year end) / not
#   epw_to_wea       analysis_period None / '' / 'None' / text; output_file None / path string / file object (click); via click
#   wea_to_constant  EPW input (side file) / .wea input
#   EPW.to_wea       hoys None / [] / listed; path without `.wea`
#   unreachable through the public API: the python-2 `izip`/`readmode='rb'` import branch.

_ONE_SHOT = ('gen', 'iter', 'map')
_AP_RE = re.compile(r'^ *\+?(\d+) */ *\+?(\d+) *to *\+?(\d+) */ *\+?(\d+) *between *\+?(\d+) *and *\+?(\d+) *@ *\+?(\d+) *(\*?) *$', re.I)


def _shape_arg(seq, shape):
    """The same data in another container: list (default), tuple, and the one-shot iterables."""
    if not shape or shape == 'list':
        return list(seq)
    if shape == 'tuple':
        return tuple(seq)
    if shape == 'gen':
        return (x for x in list(seq))
    if shape == 'iter':
        return iter(list(seq))
    if shape == 'map':
        return map(lambda x: x, list(seq))
    raise ValueError(shape)


def _ap_text(args, ts, leap, shape=0):
    """Text forms of one analysis period (sm, sd, sh, em, ed, eh): what a user may type for the same numbers."""
    sm, sd, sh, em, ed, eh = args
    star = '*' if leap else ''
    if shape == 1:                                        # two-digit fields
        return '%02d/%02d to %02d/%02d between %02d and %02d @%02d%s' % (sm, sd, em, ed, sh, eh, ts, star)
    if shape == 2:                                        # upper case, no blanks
        return '%d/%dTO%d/%dBETWEEN%dAND%d@%d%s' % (sm, sd, em, ed, sh, eh, ts, star)
    if shape == 3:                                        # blanks everywhere
        return '  %d / %d  to  %d / %d   between  %d  and  %d  @ %d%s ' % (sm, sd, em, ed, sh, eh, ts, star)
    if shape == 4:                                        # one hour padded, the other not; explicit signs
        return '%d/%02d to %02d/%d between %02d and +%d @%d%s' % (sm, sd, em, ed, sh, eh, ts, star)
    if shape == 5:                                        # mixed case, only the END hour padded
        return '%d/%d To %d/%d Between %d And %02d @%d%s' % (sm, sd, em, ed, sh, eh, ts, star)
    return '%d/%d to %d/%d between %d and %d @%d%s' % (sm, sd, em, ed, sh, eh, ts, star)


def _parse_ap_text(text):
    """Independent reading of an analysis-period text: ([sm, sd, sh, em, ed, eh], ts, leap) | None (not a period)."""
    m = _AP_RE.match(text)
    if not m:
        return None
    sm, sd, em, ed, sh, eh, ts = [int(g) for g in m.groups()[:7]]
    leap = m.group(8) == '*'
    days = [31, 29 if leap else 28, 31, 30, 31, 30, 31, 31, 30, 31, 30, 31]
    if not (1 <= sm <= 12 and 1 <= em <= 12 and 1 <= sd <= days[sm - 1] and 1 <= ed <= days[em - 1]
            and 0 <= sh <= 23 and 0 <= eh <= 23 and ts in VALID_TS):
        return None
    return [sm, sd, sh, em, ed, eh], ts, leap


def _mk_period(args, ts, leap, via=None, shape=0):
    """One analysis period built the ways a caller may build it; every way must denote the same steps."""
    from ladybug.analysisperiod import AnalysisPeriod
    args = list(args)
    if not via or via == 'num':
        return AnalysisPeriod(*(args + [ts, leap]))
    if via == 'text':
        return AnalysisPeriod.from_string(_ap_text(args, ts, leap, shape))
    if via == 'strargs':
        return AnalysisPeriod(*([str(a) for a in args] + [ts, leap]))
    if via == 'float':
        return AnalysisPeriod(*([float(a) for a in args] + [ts, leap]))
    if via == 'repr':
        return AnalysisPeriod.from_string(repr(AnalysisPeriod(*(args + [ts, leap]))))
    if via == 'dict':
        return AnalysisPeriod.from_dict(json.loads(json.dumps(AnalysisPeriod(*(args + [ts, leap])).to_dict())))
    if via == 'dup':
        return AnalysisPeriod(*(args + [ts, leap])).duplicate()
    raise ValueError(via)


_AP_VIAS = ['text', 'text', 'text', 'strargs', 'float', 'repr', 'dict', 'dup']


def _rand_hours(rng):
    """(st_hour, end_hour) with every digit-count / order class: 1-1, 1-2, 2-2 digits, overnight of each, whole day, one hour."""
    r = rng.random()
    if r < 0.3:
        return rng.choice([(8, 16), (9, 17), (5, 10), (2, 11), (9, 10), (1, 23), (0, 12), (7, 19)])      # 1 digit .. 2 digits
    if r < 0.5:
        return rng.choice([(22, 6), (23, 0), (18, 5), (12, 2), (10, 9), (20, 3), (19, 7)])               # overnight, 2 digits .. 1 digit
    if r < 0.6:
        return rng.choice([(10, 15), (13, 23), (11, 12), (21, 10), (6, 2), (9, 8)])
    if r < 0.75:
        return (0, 23)
    if r < 0.85:
        h = rng.randrange(24)
        return (h, h)
    return (rng.randrange(24), rng.randrange(24))


def _check_cli_ap(inp):
    """epw-to-wea with an analysis period given as TEXT: the written steps are those the text denotes (read independently
    of AnalysisPeriod), with the cells of the EPW rows, and the bytes are those of the library calls with a period built
    from NUMBERS."""
    from click.testing import CliRunner
    from ladybug.cli.translate import translate, epw_to_wea
    from ladybug.wea import Wea
    from ladybug.analysisperiod import AnalysisPeriod
    import contextlib
    import logging
    text, ts = inp['text'], inp.get('ts') or 1
    parsed = _parse_ap_text(text)
    sig = {'what': 'cli period text', 'via': inp['via'], 'file': inp['file']}
    if parsed:
        a = parsed[0]
        sig.update(hours='overnight' if a[2] > a[5] else 'day', digits='%d-%d' % (len(str(a[2])), len(str(a[5]))),
                   dates='wrap' if (a[0], a[1]) > (a[3], a[4]) else 'plain', padded=bool(re.search(r'(^|[^0-9])0\d', text)))
    work = tempfile.mkdtemp(prefix='c12_ap_')
    try:
        epw = os.path.join(work, inp['file'])
        shutil.copy(_asset('epw', inp['file']), epw)
        loc, rows = _epw_rows(epw)
        leap = len(rows) == 8784
        outp = os.path.join(work, 'out.wea') if inp['out'] in ('file', 'path') else None
        logging.disable(logging.CRITICAL)
        try:
            with contextlib.redirect_stdout(io.StringIO()):
                if inp['via'] == 'cli':
                    long = inp.get('opt', 'long') == 'long'
                    args = ['epw-to-wea', epw, '--analysis-period' if long else '-ap', text]
                    if inp.get('ts') is not None:
                        args += ['--timestep' if long else '-t', str(inp['ts'])]
                    if outp:
                        args += ['--output-file' if long else '-f', outp]
                    res = CliRunner().invoke(translate, args)
                    ok = res.exit_code == 0
                    got = (open(outp).read() if outp else res.output) if ok else None
                    err = 'exit code %s' % res.exit_code
                else:
                    try:
                        got = epw_to_wea(epw, text, ts, outp)
                        if outp:
                            got = open(outp).read()
                        ok, err = True, None
                    except Exception as e:
                        ok, got, err = False, None, '%s: %s' % (type(e).__name__, str(e)[:100].replace('\n', ' '))
        finally:
            logging.disable(logging.NOTSET)
        acceptable = parsed is not None and parsed[1] == ts and parsed[2] == leap
        if text in ('', 'None'):
            # `_load_analysis_period_str`: the empty text and the word None mean "the whole year"
            if not ok:
                return {'required': 'the translator takes %r as "no period"' % text, 'observed': err, 'sig': dict(sig, what='cli no-period text refused')}
            if inp['via'] == 'cli' and not outp and got.startswith(_NOTE):
                got = got[len(_NOTE):]
            want = Wea.from_epw_file(epw, ts).to_file_string()
            if got != want:
                return {'required': 'the annual file', 'observed': _first_diff(want.split('\n'), got.split('\n')), 'sig': dict(sig, what='cli no-period bytes')}
            return None
        if not acceptable:
            # not a period / a period of another timestep or year kind than the data: refused, or answered for nothing else
            if ok and parsed is None:
                return {'required': 'a text that is not an analysis period is refused', 'observed': (got or '')[:80],
                        'sig': dict(sig, what='cli accepts bad period')}
            return None
        if not ok:
            return {'required': 'the translator accepts "%s"' % text, 'observed': err, 'sig': dict(sig, what='cli period refused')}
        if inp['via'] == 'cli' and not outp and got.startswith(_NOTE):
            got = got[len(_NOTE):]                          # known finding C12-cli-stdout-note (reported by the `cli` op)
        args6 = parsed[0]
        want_moys = _ap_pred_moys(*(args6 + [ts, leap]))
        if not want_moys:
            return None
        # (1) independent: the steps of the text, the cells of the rows
        lib = Wea.from_epw_file(epw, ts) if ts != 1 else None
        if ts == 1:
            c1, c2 = [r[3] for r in rows], [r[4] for r in rows]
            tol = 0 if all(float(x).is_integer() for x in c1 + c2) else 1
            hdr, body = _epw_expected(loc, rows, [m // 60 for m in want_moys], c1, c2)
        else:
            tol = 0
            hdr = _loc_header([loc[1], float(loc[6]), float(loc[7]), float(loc[8]), float(loc[9])])
            v1, v2 = lib.direct_normal_irradiance.values, lib.diffuse_horizontal_irradiance.values
            body = []
            for m in want_moys:
                r = _ref(leap, m)
                i = m * ts // 60
                body.append((r.month, r.day, int(Decimal('%.3f' % (r.hour + r.minute / 60.0)) * 1000), int(v1[i]), int(v2[i])))
        d = _cmp_wea_text(got, hdr, body, tol)
        if d:
            return {'required': 'the %d steps of "%s" with the cells of their EPW rows' % (len(want_moys), text),
                    'observed': '%s: %s' % d, 'sig': dict(sig, what='cli period ' + d[0])}
        # (2) the same bytes as the library calls with the period built from numbers
        lib = lib or Wea.from_epw_file(epw, 1)
        want = lib.filter_by_analysis_period(AnalysisPeriod(*(args6 + [ts, leap]))).to_file_string()
        if got != want:
            return {'required': 'same bytes as Wea.from_epw_file(...).filter_by_analysis_period(AnalysisPeriod%s)' % (tuple(args6 + [ts, leap]),),
                    'observed': _first_diff(want.split('\n'), got.split('\n')), 'sig': dict(sig, what='cli period bytes')}
    finally:
        shutil.rmtree(work, ignore_errors=True)
    return None


def _sibling_weas(inp):
    """The same data on every concrete class a Wea can hold: continuous, discontinuous, and their immutable twins."""
    from ladybug.wea import Wea
    loc = _loc(*inp['loc']) if inp.get('loc') else _loc()
    ts, leap = inp['ts'], inp['leap']
    moys = _period_moys(ts, leap, *inp['period'])
    cont = _build_cont(ts, leap, *inp['period'], mode=inp.get('mode', 0), onhour=inp.get('onhour', False), loc=loc)
    disc = _build_disc(ts, leap, moys, inp.get('mode', 0), inp.get('onhour', False), loc=loc)
    out = [('continuous', cont), ('discontinuous', disc)]
    for name, w in list(out):
        w2 = Wea(w.location, w.direct_normal_irradiance.to_immutable(), w.diffuse_horizontal_irradiance.to_immutable())
        w2.enforce_on_hour = w.enforce_on_hour
        out.append((name + '-immutable', w2))
    return out


def _check_siblings(inp):
    """Every observable and one filter on the four sibling classes holding the same data: each equals the statement's
    answer (hence they agree with each other)."""
    ts, leap = inp['ts'], inp['leap']
    f = inp.get('filter')
    sig0 = {'what': 'siblings', 'ts': _ts_class(ts), 'leap': leap}
    for cname, w in _sibling_weas(inp):
        sig = dict(sig0, cls=cname)
        st = _St(dict(inp, kind='partial'))
        st.cont = cname.startswith('continuous')
        res = _obs_check(w, st)
        if res:
            return {'required': res[1], 'observed': '%s Wea: %s: %s' % (cname, res[0], res[2]), 'sig': dict(sig, what='siblings ' + res[0])}
        if inp.get('reads'):
            for what in inp['reads']:
                r2 = _read_extra(w, st, what, [0, 1, len(st.moys) - 1])
                if r2:
                    return {'required': r2[1], 'observed': '%s Wea: %s: %s' % (cname, r2[0], r2[2]), 'sig': dict(sig, what='siblings ' + str(r2[0]))}
        if not f:
            continue
        sig['filter'] = f['kind']
        try:
            r, want = _apply_filter(w, f, ts, leap)
        except AssertionError as e:
            if ('at least one value' in str(e) and not _expected_positions(w, f, ts, leap)) or f.get('argshape') in _ONE_SHOT:
                continue
            return {'required': 'filter returns', 'observed': '%s Wea: AssertionError %s' % (cname, str(e)[:100]),
                    'sig': dict(sig, what='raises AssertionError')}
        except Exception as e:
            if f.get('argshape') in _ONE_SHOT:
                continue
            return {'required': 'filter returns', 'observed': '%s Wea: %s %s' % (cname, type(e).__name__, str(e)[:100]),
                    'sig': dict(sig, what='raises ' + type(e).__name__)}
        al = _check_aligned(r)
        if al:
            return {'required': 'aligned', 'observed': '%s Wea: %s' % (cname, al), 'sig': dict(sig, what='aligned')}
        src = _expected_rows(leap, st.moys, st.v1, st.v2)
        want_rows, got = [src[i] for i in want], _coll_rows(r)
        if f['kind'] in ('moys', 'hoys', 'hoys_ap'):
            want_rows, got = sorted(want_rows), sorted(got)
        d = _first_diff(want_rows, got)
        if d:
            return {'required': 'exactly the selected steps (the same on every class of collection)',
                    'observed': '%s Wea: %s' % (cname, d), 'sig': dict(sig, what='rows')}
        # the result is its own object: editing it leaves the source as it was
        try:
            r.direct_normal_irradiance[0] = -4321.0
            r.diffuse_horizontal_irradiance[len(r) - 1] = -1234.0
        except (TypeError, AttributeError):
            pass
        r.enforce_on_hour = not r.enforce_on_hour
        res = _obs_check(w, st)
        if res:
            return {'required': res[1], 'observed': '%s Wea after its filter result was edited: %s: %s' % (cname, res[0], res[2]),
                    'sig': dict(sig, what='source changed: ' + res[0])}
    return None


def _check_file_shapes(inp):
    """A .wea file whose tokens are written another legal way (tabs, several blanks, CRLF, signs, padded fields,
    decimal / exponent irradiance, more or fewer decimals of the hour) reads as the same steps and values."""
    from ladybug.wea import Wea
    ts, leap, shape = inp['ts'], inp['leap'], inp['shape']
    moys = _moys_of(inp)
    a, b = _vals(inp.get('mode', 0), len(moys))
    sig = {'what': 'file token shapes', 'shape': shape, 'ts': _ts_class(ts), 'leap': leap, 'kind': inp['kind']}
    sh = 30 if ts == 1 else 0
    sep = {'tabs': '\t', 'blanks': '   '}.get(shape, ' ')
    eol = '\r\n' if shape == 'crlf' else '\n'
    hdr = _HDR
    if shape == 'header':
        hdr = ('place   Test \t City  \nlatitude\t41.98\nlongitude   87.92 \ntime_zone \t 90\nsite_elevation  201.0\n'
               'weather_data_file_units   1\n')
    out = [hdr.replace('\n', eol)]
    exp = []
    for m, x, y in zip(moys, a, b):
        r = _ref(leap, m + sh)
        fh = r.hour + r.minute / 60.0
        mo, da, hr = '%d' % r.month, '%d' % r.day, '%.3f' % fh
        v1, v2 = '%d' % x, '%d' % y
        e1, e2 = float(int(x)), float(int(y))
        if shape == 'padded':
            mo, da, hr = '%02d' % r.month, '+%d' % r.day, '%06.3f' % fh
            v1, v2 = '+%d' % abs(int(x)), '%04d' % abs(int(y))
            e1, e2 = float(abs(int(x))), float(abs(int(y)))
        elif shape == 'decimals':
            hr = '%.6f' % fh if (m // 60) % 2 else ('%.4f' % fh)
            v1, v2 = '%.1f' % (int(x) + 0.5), '%.2f' % (int(y) + 0.25)
            e1, e2 = int(x) + 0.5, int(y) + 0.25
        elif shape == 'exponent':
            v1, v2 = '%e' % int(x), '%.3E' % (int(y) * 8)
            e1, e2 = float(v1), float(v2)
        out.append(sep.join([mo, da, hr, v1, v2]) + ('  ' if shape == 'blanks' else '') + eol)
        r0 = _ref(leap, m)
        exp.append((r0.month, r0.day, r0.hour, r0.minute, leap, e1, e2))
    p = _tmpfile()
    with open(p, 'wb') as fobj:
        fobj.write(''.join(out).encode('ascii'))
    try:
        try:
            w = Wea.from_file(p, ts, leap)
            cnt = Wea.count_timesteps(p)
        except Exception as e:
            return {'required': 'the file reads', 'observed': 'raises %s: %s' % (type(e).__name__, str(e)[:100].replace('\n', ' ')),
                    'sig': dict(sig, what='token shapes: raises ' + type(e).__name__)}
    finally:
        os.remove(p)
    if cnt != len(moys):
        return {'required': len(moys), 'observed': cnt, 'sig': dict(sig, what='token shapes: count_timesteps')}
    al = _check_aligned(w)
    if al:
        return {'required': 'aligned', 'observed': al, 'sig': dict(sig, what='token shapes: aligned')}
    d = _first_diff(exp, _coll_rows(w))
    if d:
        return {'required': 'the steps and values of the lines', 'observed': d, 'sig': dict(sig, what='token shapes: rows')}
    lo = w.location
    if (lo.city, lo.latitude, lo.longitude, lo.time_zone, lo.elevation) != ('Test City', 41.98, -87.92, -6, 201.0):
        return {'required': _DEF_LOC, 'observed': str(lo), 'sig': dict(sig, what='token shapes: location')}
    return None


def _check_shapes(inp):
    """Constructors fed the same data in other containers / number forms give the same Wea; containers handed in or
    handed out are not shared with the object."""
    from ladybug.wea import Wea
    from ladybug.location import Location
    ts, leap = inp['ts'], inp['leap']
    n = _hours(leap) * ts
    a, b = _vals(inp.get('mode', 0), n)
    what = inp['what']
    sig = {'what': 'shapes ' + what, 'ts': _ts_class(ts), 'leap': leap}
    exp = _expected_rows(leap, [60 * i // ts for i in range(n)], a, b)
    idx = sorted(set(i for i in inp['idx'] if i < n))

    def rows_at(w):
        r = _coll_rows(w)
        return [r[i] for i in idx] if len(r) == n else r[:3]
    want = [exp[i] for i in idx]
    if what == 'annual_values':
        la, lb = list(a), list(b)
        w = Wea.from_annual_values(_loc(), _shape_arg(la, inp['shape']), _shape_arg(lb, inp['shape']), ts, leap)
        if rows_at(w) != want or len(w) != n:
            return {'required': 'values at their steps', 'observed': _first_diff(want, rows_at(w)), 'sig': dict(sig, what='shapes rows', shape=inp['shape'])}
        la[idx[0]] = -99.0                                  # the caller's list is the caller's
        lb[idx[-1]] = -98.0
        la.append(5)
        if rows_at(w) != want:
            return {'required': 'the Wea keeps its values when the list it was built from is edited', 'observed': _first_diff(want, rows_at(w)),
                    'sig': dict(sig, what='shapes alias: argument')}
        w2 = Wea.from_annual_values(_loc(), list(b), list(a), ts, leap)      # a second object of the same class
        if rows_at(w) != want:
            return {'required': 'unchanged by a second Wea', 'observed': _first_diff(want, rows_at(w)), 'sig': dict(sig, what='shapes alias: second object')}
        del w2
        return None
    if what == 'dict':
        d = {'type': 'Wea', 'location': _loc().to_dict(), 'direct_normal_irradiance': _shape_arg(a, inp['shape']),
             'diffuse_horizontal_irradiance': _shape_arg(b, inp['shape']), 'timestep': ts, 'is_leap_year': leap}
        if inp.get('dts_none'):
            d['datetimes'] = None
        w = Wea.from_dict(d)
        if rows_at(w) != want or not w.is_annual:
            return {'required': 'values at their steps', 'observed': _first_diff(want, rows_at(w)), 'sig': dict(sig, what='shapes rows', shape=inp['shape'])}
        if inp['shape'] == 'list':
            d['direct_normal_irradiance'][idx[0]] = -99.0
            d['diffuse_horizontal_irradiance'].append(1)
            d['location']['city'] = 'Edited'
            if rows_at(w) != want or w.location.city != 'Test City':
                return {'required': 'the Wea keeps its values when the dictionary it was read from is edited',
                        'observed': _first_diff(want, rows_at(w)), 'sig': dict(sig, what='shapes alias: dictionary')}
        out = w.to_dict()
        out2 = w.to_dict()
        for k in ('direct_normal_irradiance', 'diffuse_horizontal_irradiance'):
            if isinstance(out[k], list):
                out[k][idx[0]] = -7.0
        out['location']['latitude'] = 0.0
        out['timestep'] = 99
        if rows_at(w) != want or w.to_dict() != out2 or w.location.latitude != 41.98:
            return {'required': 'a dictionary handed out is a copy', 'observed': 'editing it changes the Wea or its next dictionary',
                    'sig': dict(sig, what='shapes alias: to_dict')}
        return None
    if what == 'location_text':
        # Location accepts numbers as text; the header must carry the numbers
        lo = Location('Test City', '-', 'USA', str(inp['loc'][0]), str(inp['loc'][1]), str(inp['loc'][2]), str(inp['loc'][3]))
        w = Wea.from_annual_values(lo, a, b, ts, leap)
        hdr = _loc_header(['Test City'] + [float(x) for x in inp['loc']])
        if w.header.replace(' -0.00\n', ' 0.00\n') != hdr.replace(' -0.00\n', ' 0.00\n'):
            return {'required': hdr, 'observed': w.header, 'sig': dict(sig, what='shapes header')}
        return None
    raise ValueError(what)


# ---------------------------------------------------------------------------------------------
# round 3: histories on ONE object / in ONE folder / in ONE process
#
# Producers of wea.py and their consumers (every consumer is exercised by `hist`, `epw_hist`, `cli_hist` or
# the single-call ops above; a change that keeps a producer and ONE consumer consistent shows in another):
#   Wea.datetimes (timestep, enforce_on_hour, collection datetimes)
#       -> hoys, to_file_string, write(+ .hrs), filter_by_sun_up, global_horizontal_irradiance,
#          direct_horizontal_irradiance, directional_irradiance, estimate_illuminance_components (ghi), duplicate
#   the pair of collections (setters direct_normal_irradiance / diffuse_horizontal_irradiance, __init__)
#       -> datetimes, to_file_string, to_dict, filter_by_*, get_irradiance_value(_for_hoy), __iter__/__getitem__/__len__,
#          analysis_period, is_continuous, is_annual, duplicate, _aligned_collection (derived collections)
#   location (setter) -> header, to_file_string, to_dict, sun positions of every derived quantity
#   _timestep / _is_leap_year (filled in __init__) -> datetimes, to_dict, get_irradiance_value, sun path leap flag
#   Wea._get_datetimes(timestep, leap) -> from_epw_file(ts > 1), clear-sky constructors
#   Wea.from_epw_file -> epw_to_wea (CLI), wea_to_constant (CLI, EPW input, through the side file epw_to_wea.wea)
#   EPW.direct_normal_radiation / diffuse_horizontal_radiation (+ unit state is_ip) -> EPW.to_wea, Wea.from_epw_file
#   Wea.write / to_file_string -> from_file, count_timesteps, to_constant_value, CLI outputs


def _loc_header(loc):
    """The six header lines the .wea format defines for a location [city, lat, lon, zone, elevation]."""
    city, lat, lon, tz, elev = loc
    return ('place %s\n' % city + 'latitude %.2f\n' % lat + 'longitude %.2f\n' % -lon
            + 'time_zone %d\n' % (-tz * 15) + 'site_elevation %.1f\n' % elev + 'weather_data_file_units 1\n')


_DEF_LOC = ['Test City', 41.98, -87.92, -6, 201.0]


class _St(object):
    """The public state the user has established on one Wea (no hidden slots: this IS the specification)."""

    def __init__(self, inp):
        self.ts, self.leap = inp['ts'], inp['leap']
        self.cont = inp['kind'] in ('annual', 'partial')
        self.period = list(inp['period']) if self.cont else None
        self.moys = _moys_of(inp)
        a, b = _vals(inp.get('mode', 0), len(self.moys))
        self.v1, self.v2 = list(a), list(b)
        self.onhour = bool(inp.get('onhour', False))
        self.loc = list(inp.get('loc') or _DEF_LOC)
        self.imm = bool(inp.get('imm'))

    def shift(self):
        return 30 if (self.ts == 1 and not self.onhour) else 0

    def annual(self):
        return self.cont and len(self.moys) == _hours(self.leap) * self.ts


def _new_vals(which, k, n):
    if which == 'dni':
        return [float((i * 7 + k) % 1013) + (0.5 if k % 2 else 0.0) for i in range(n)]
    return [float((i * 3 + k) % 409 + 2000) - (0.25 if k % 3 == 1 else 0.0) for i in range(n)]


def _cand(st, which, kind, k):
    """A collection to assign to wea.<which>: `ok*` kinds are aligned with the other collection, all others are
    rejected by the setter (wrong class, not aligned, wrong data type)."""
    from ladybug.analysisperiod import AnalysisPeriod
    from ladybug.header import Header
    from ladybug.datacollection import HourlyContinuousCollection, HourlyDiscontinuousCollection, MonthlyCollection
    from ladybug.datatype.energyflux import DirectNormalIrradiance, DiffuseHorizontalIrradiance
    ts, leap = st.ts, st.leap
    n = len(st.moys)
    dtype = DirectNormalIrradiance if which == 'dni' else DiffuseHorizontalIrradiance
    if kind == 'dtype':
        dtype = DiffuseHorizontalIrradiance if which == 'dni' else DirectNormalIrradiance
    if kind == 'type':
        return [None, list(range(n)), 'x', 0, MonthlyCollection(
            Header(dtype(), 'W/m2', AnalysisPeriod()), list(range(12)), list(range(1, 13)))][k % 5]
    vals = _new_vals(which, k, n)
    cont = st.cont
    moys = list(st.moys)
    period = st.period
    if kind == 'class':
        cont = not cont
        if cont:
            period = [1, 1, 12, 31]
            moys = None
    elif kind == 'short':
        if cont and len(_period_days(st)) > 1:
            days = _period_days(st)[:-1]
            period = list(_md(leap, days[0])) + list(_md(leap, days[-1]))
        elif cont:
            ts = 2 if ts != 2 else 4
        elif n > 1:
            moys = moys[:-1]
        else:
            moys = moys + [(moys[-1] + 60) % (_hours(leap) * 60)]
            moys = sorted(set(moys))
    elif kind == 'period':
        if cont and not st.annual():
            days = _period_days(st)
            nd = 366 if leap else 365
            period = list(_md(leap, (days[0] + 1) % nd)) + list(_md(leap, (days[-1] + 1) % nd))
        elif cont:
            period = [1, 1, 12, 30]
        else:
            total = _hours(leap) * 60
            step = 60 // ts
            m = (moys[-1] + step) % total
            while m in moys:
                m = (m + step) % total
            moys = sorted(moys[:-1] + [m])
    elif kind == 'hdr_ts' and not cont:
        ts = 2 if ts == 1 else 2 * ts       # same datetimes under a header of another timestep: ACCEPTED by the code as it is
    elif kind in ('ts', 'hdr_ts'):
        ts = [t for t in (1, 2, 3, 4, 6) if t != ts][k % 4]
        if not cont:
            moys = moys[:-1] if n > 1 else moys + [(moys[0] + 1440) % (_hours(leap) * 60)]
    if cont:
        ap = AnalysisPeriod(period[0], period[1], 0, period[2], period[3], 23, ts, leap)
        if kind != 'ok' and kind != 'ok_imm' and kind != 'dtype':
            vals = (vals * (len(ap) // max(1, len(vals)) + 2))[:len(ap)]
        c = HourlyContinuousCollection(Header(dtype(), 'W/m2', ap, {'k': str(k)}), vals)
    else:
        ap = AnalysisPeriod(timestep=ts, is_leap_year=leap)
        vals = (vals * (len(moys) // max(1, len(vals)) + 2))[:len(moys)]
        c = HourlyDiscontinuousCollection(Header(dtype(), 'W/m2', ap, {'k': str(k)}), vals,
                                          [_lb_dt(leap, m) for m in moys])
    if kind == 'ok_imm':
        c = c.to_immutable()
    return c


def _period_days(st):
    a, b = _doy0(st.leap, st.period[0], st.period[1]), _doy0(st.leap, st.period[2], st.period[3])
    nd = 366 if st.leap else 365
    return list(range(a, b + 1)) if a <= b else list(range(a, nd)) + list(range(0, b + 1))


def _obs_check(w, st):
    """Every observable C12 speaks about, against the established state.  None | (what, required, observed)."""
    n = len(st.moys)
    flags = (len(w), w.timestep, w.is_leap_year, w.is_continuous, w.is_annual, w.enforce_on_hour)
    want = (n, st.ts, st.leap, st.cont, st.annual(), st.onhour)
    if flags != want:
        return 'flags', want, flags
    al = _check_aligned(w)
    if al:
        return 'aligned', 'both collections on the same steps', al
    if st.cont:
        # the period a continuous Wea reports (its time steps are derived from it) is the one it was built with,
        # on both collections - whatever was filtered out of it meanwhile
        exp_ap = (st.period[0], st.period[1], 0, st.period[2], st.period[3], 23, st.ts, st.leap)
        for c in (w.direct_normal_irradiance, w.diffuse_horizontal_irradiance):
            a = c.header.analysis_period
            got_ap = (a.st_month, a.st_day, a.st_hour, a.end_month, a.end_day, a.end_hour, a.timestep, bool(a.is_leap_year))
            if got_ap != exp_ap:
                return 'period of the source', exp_ap, got_ap
    cm = [d.moy for d in w.direct_normal_irradiance.datetimes]
    if cm != st.moys or any(d.leap_year != st.leap for d in w.direct_normal_irradiance.datetimes[:3]):
        return 'collection steps', 'source steps', _first_diff(st.moys, cm)
    v1, v2 = list(w.direct_normal_irradiance.values), list(w.diffuse_horizontal_irradiance.values)
    if v1 != st.v1 or v2 != st.v2:
        return 'values', 'values of the source at their steps', _first_diff(list(zip(st.v1, st.v2)), list(zip(v1, v2)))
    sh = st.shift()
    dts = w.datetimes
    got = [(d.month, d.day, d.hour, d.minute, bool(d.leap_year)) for d in dts]
    exp = []
    for m in st.moys:
        r = _ref(st.leap, m + sh)
        exp.append((r.month, r.day, r.hour, r.minute, st.leap))
    if got != exp:
        return 'datetimes', 'hourly on the half hour unless on-hour, sub-hourly on its own grid', _first_diff(exp, got)
    hoys = w.hoys
    if len(hoys) != n or any(abs(h - (m + sh) / 60.0) > 1e-9 for h, m in zip(hoys, st.moys)):
        return 'hoys', 'hours of the public datetimes', 'differ'
    text = w.to_file_string()
    lines = _lines_of(st.leap, st.ts, st.moys, st.onhour, st.v1, st.v2)
    body = ''.join('%d %d %d.%03d %d %d\n' % (mo, da, mi // 1000, mi % 1000, x, y) for mo, da, mi, x, y in lines)
    hdr = _loc_header(st.loc)
    if w.header.replace(' -0.00\n', ' 0.00\n') != hdr.replace(' -0.00\n', ' 0.00\n'):      # (the sign of a zero is nobody's subject)
        return 'header', hdr, w.header
    hdr = w.header
    if text != hdr + body:
        return 'text', 'header + one line per step', _first_diff((hdr + body).split('\n'), text.split('\n'))
    lo = w.location
    if (lo.city, lo.latitude, lo.longitude, lo.time_zone, lo.elevation) != tuple(st.loc):
        return 'location', st.loc, str(lo)
    return None


def _sun_alts(st, loc=None):
    from ladybug.sunpath import Sunpath
    sp = Sunpath.from_location(_loc(*st.loc))
    sp.is_leap_year = st.leap
    sh = st.shift()
    return [sp.calculate_sun_from_date_time(_lb_dt(st.leap, m + sh)).altitude for m in st.moys]


def _read_extra(w, st, what, arg):
    """Further consumers of the same producers.  None | (what, required, observed)."""
    import math
    from ladybug.wea import Wea
    n = len(st.moys)
    if what == 'dict':
        d = json.loads(json.dumps(w.to_dict()))
        if ('datetimes' in d) == st.annual():
            return 'to_dict', 'datetimes key iff not annual', sorted(d)
        if 'datetimes' in d:
            exp = []
            for m in st.moys:
                r = _ref(st.leap, m)
                exp.append([r.month, r.day, r.hour, r.minute] + ([1] if st.leap else []))
            got = [[int(x) for x in a] for a in d['datetimes']]
            if got != exp:
                return 'to_dict', 'arrays of the collection steps', _first_diff(exp, got)
        keep = json.dumps(d, sort_keys=True)
        exp = _expected_rows(st.leap, st.moys, st.v1, st.v2)
        for again in (0, 1):                               # the same dictionary read twice: the argument is not consumed
            r = Wea.from_dict(d)
            rows = _coll_rows(r)
            if rows != exp or r.timestep != st.ts or r.is_leap_year != st.leap:
                return 'dict round trip' + (' (second read of one dictionary)' if again else ''), 'same rows', _first_diff(exp, rows)
            if json.dumps(d, sort_keys=True) != keep:
                return 'from_dict changes its argument', 'dictionary as passed', 'keys %s' % sorted(d)
        return None
    if what == 'dup':
        d = w.duplicate()
        res = _obs_check(d, st)
        if res:
            return ('duplicate: ' + res[0],) + tuple(res[1:])
        d.enforce_on_hour = not st.onhour                  # the copy is its own object
        d.location = _loc('Elsewhere', -10.0, 20.0, 1, 5.0)
        for c, v in ((d.direct_normal_irradiance, -777), (d.diffuse_horizontal_irradiance, -778)):
            try:                                           # (an immutable twin refuses)
                c[0] = v
                c[len(c) - 1] = v
            except Exception:
                pass
        d.metadata['city'] = 'Elsewhere'
        return None
    if what == 'file':
        # (`noext`: a path without `.wea` - write() appends it and returns the real path)
        res = _check_file_rt(w, st.ts, st.leap, {}, os.path.join(_tmpdir(), 'history_%d%s' % (os.getpid(), '' if arg == 'noext' else '.wea')))
        if res:
            return 'file round trip: ' + str(res['sig'].get('what')), res['required'], res['observed']
        return None
    if what == 'hrs':
        p = _tmpfile()
        try:
            w.write(p, True)
            got = open(p[:-4] + '.hrs').read()
        finally:
            for q in (p, p[:-4] + '.hrs'):
                if os.path.exists(q):
                    os.remove(q)
        hs = [float(x) for x in got.strip().split(',')]
        sh = st.shift()
        if len(hs) != n or any(abs(h - (m + sh) / 60.0) > 1e-9 for h, m in zip(hs, st.moys)):
            return '.hrs file', 'hours of the written steps', got[:80]
        return None
    if what == 'ghi':
        if n > 3000:
            return None
        alts = _sun_alts(st)
        g = w.global_horizontal_irradiance
        dh = w.direct_horizontal_irradiance
        tot = w.directional_irradiance()[0]
        for c in (g, dh, tot):
            if [d.moy for d in c.datetimes] != st.moys or len(c.values) != n:
                return 'derived collection', 'on the steps of the Wea', 'differs'
        for i in range(n):
            s = math.sin(math.radians(alts[i]))
            e1 = st.v2[i] + st.v1[i] * s
            e2 = st.v1[i] * s
            e3 = st.v2[i] + (st.v1[i] * s if alts[i] > 0 else 0)
            if abs(g[i] - e1) > 1e-6 or abs(dh[i] - e2) > 1e-6 or abs(tot[i] - e3) > 1e-6 * max(1, abs(e3)):
                return 'derived irradiance', 'step %d: %r' % (i, (e1, e2, e3)), (g[i], dh[i], tot[i])
        return None
    if what == 'get':
        idx = [i for i in (arg or []) if i < n]
        for i in idx:
            if not st.annual() and st.leap:
                continue                        # DateTime.from_hoy has no leap flag: C08's domain
            if st.annual() and st.ts in (15, 30, 60):
                continue                        # known finding C12-get-for-hoy-float-index (reported by the `axis` op)
            got = w.get_irradiance_value_for_hoy(st.moys[i] / 60.0)
            r = _ref(st.leap, st.moys[i])
            got2 = w.get_irradiance_value(r.month, r.day, r.hour) if st.moys[i] % 60 == 0 else got
            if got != (st.v1[i], st.v2[i]) or got2 != got:
                return 'get_irradiance_value', (st.v1[i], st.v2[i]), (got, got2)
        return None
    if what == 'iter':
        if list(w) != list(zip(st.v1, st.v2)) or (n and w[n - 1] != (st.v1[-1], st.v2[-1])):
            return 'iteration', 'pairs of the two collections', 'differ'
        return None
    if what == 'filter':
        f = arg
        try:
            r, want = _apply_filter(w, f, st.ts, st.leap)
        except AssertionError as e:
            if 'at least one value' in str(e) or f.get('argshape') in _ONE_SHOT:
                return None
            return 'filter ' + f['kind'], 'returns', 'AssertionError ' + str(e)[:80]
        except Exception:
            if f.get('argshape') in _ONE_SHOT:
                return None                      # a one-shot iterable may be refused, never answered wrongly
            raise
        al = _check_aligned(r)
        if al:
            return 'filter aligned', 'aligned', al
        src = _expected_rows(st.leap, st.moys, st.v1, st.v2)
        want_rows, got = [src[i] for i in want], _coll_rows(r)
        if f['kind'] in ('moys', 'hoys', 'hoys_ap'):
            want_rows, got = sorted(want_rows), sorted(got)
        d = _first_diff(want_rows, got)
        if d:
            return 'filter ' + f['kind'], 'exactly the selected steps', d
        # round 4: earlier results of the same object are still what they were (no shared container / header / memo) ...
        kept = st.__dict__.setdefault('kept', [])
        for k, (r0, rows0, f0) in enumerate(kept):
            g0 = _coll_rows(r0)
            if f0['kind'] in ('moys', 'hoys', 'hoys_ap'):
                g0 = sorted(g0)
            if g0 != rows0:
                return 'earlier filter result changed by a later call', 'result %d (%s) as returned' % (k, f0['kind']), _first_diff(rows0, g0)
        if len(kept) < 4:
            kept.append((r, got, f))
        return None
    raise ValueError(what)


def _check_hist(inp):
    """One Wea, a history of setters / refused assignments / in-place edits / reads in any order; after EVERY
    step every observable must be the one of the state the user has established."""
    from ladybug.wea import Wea
    st = _St(inp)
    sig0 = {'ts': _ts_class(st.ts), 'leap': st.leap, 'source': inp['kind']}
    w = _make_wea(dict(inp, loc=st.loc))
    others = []

    def fail(step, opname, what, req, obs, refused):
        sig = dict(sig0, what=what, after=opname[0] if isinstance(opname, list) else opname, refused=refused)
        if isinstance(opname, list) and opname[0] in ('dni', 'dhi', 'try', 'rd'):
            sig['arg'] = str(opname[1])
        return {'required': req, 'observed': 'after step %d %s: %s: %s' % (step, opname, what, obs), 'sig': sig}

    res = _obs_check(w, st)
    if res:
        return fail(-1, 'build', res[0], res[1], res[2], False)
    for k, o in enumerate(inp['ops']):
        name = o[0]
        refused = False
        try:
            if name == 'oh':
                w.enforce_on_hour = o[1]
                st.onhour = bool(o[1])
            elif name == 'loc':
                w.location = _loc(*o[1])
                st.loc = list(o[1])
            elif name == 'loc_bad':
                refused = True
                try:
                    w.location = [None, 'Chicago', {'city': 'x'}, 0][o[1] % 4]
                except AssertionError:
                    pass
            elif name in ('dni', 'dhi'):
                kind, kk = o[1], o[2]
                c = _cand(st, name, kind, kk)
                accept = kind in ('ok', 'ok_imm')
                refused = not accept
                try:
                    if name == 'dni':
                        w.direct_normal_irradiance = c
                    else:
                        w.diffuse_horizontal_irradiance = c
                    took = True
                except (AssertionError, AttributeError, TypeError):
                    took = False
                if took and kind == 'hdr_ts' and name == 'dni' and not st.cont:
                    # accepted (discontinuous alignment compares datetimes only): the Wea of these two collections
                    # has the timestep of the new direct-normal header
                    st.ts = c.header.analysis_period.timestep
                    st.v1 = list(c.values)
                    refused = False
                elif took and (accept or kind == 'dtype'):       # (the data type is not C12's subject)
                    if name == 'dni':
                        st.v1 = list(c.values)
                    else:
                        st.v2 = list(c.values)
                elif accept:
                    return fail(k, o, 'aligned assignment rejected', 'accepted', 'raises', False)
            elif name == 'setval':
                i = o[1] % len(st.moys)
                try:                                   # two user-level edits; an immutable twin refuses its own
                    w.direct_normal_irradiance[i] = o[2]
                    st.v1[i] = o[2]
                except (TypeError, AttributeError):
                    refused = True
                try:
                    w.diffuse_horizontal_irradiance[i] = o[3]
                    st.v2[i] = o[3]
                except (TypeError, AttributeError):
                    refused = True
            elif name == 'try':                          # operations that are refused or fail half-way
                refused = True
                import contextlib
                try:
                  with contextlib.redirect_stdout(io.StringIO()):
                      if o[1] == 'write':
                          blocker = _tmpfile('.blk')
                          open(blocker, 'w').close()
                          w.write(os.path.join(blocker, 'x.wea'), bool(o[2] % 2))
                      elif o[1] == 'get':
                          w.get_irradiance_value_for_hoy([99999, -1, 8760.5][o[2] % 3])
                      elif o[1] == 'get2':
                          w.get_irradiance_value(2, 30, 0)
                      elif o[1] == 'pattern':
                          w.filter_by_pattern([[], [False], None][o[2] % 3])
                      elif o[1] == 'period':
                          from ladybug.analysisperiod import AnalysisPeriod
                          w.filter_by_analysis_period(AnalysisPeriod(1, 1, 0, 12, 31, 23, 5 if st.ts != 5 else 4, st.leap))
                      elif o[1] == 'moys':
                          w.filter_by_moys([10 ** 9, -5])
                      elif o[1] == 'hoys':
                          w.filter_by_hoys(['x'])
                      elif o[1] == 'illum':
                          w.estimate_illuminance_components(w.direct_normal_irradiance.filter_by_pattern([True, False]))
                      elif o[1] == 'from_dict':
                          d = w.to_dict()
                          d['direct_normal_irradiance'] = list(d['direct_normal_irradiance'])[:-1]
                          Wea.from_dict(d)
                except Exception:
                    pass
            elif name == 'other':                        # another Wea of another year kind / timestep in the same process
                st2 = _St(o[1])
                w2 = _make_wea(dict(o[1], loc=st2.loc))
                others.append((w2, st2))
                r2 = _obs_check(w2, st2)
                if r2:
                    return fail(k, o, 'second object: ' + r2[0], r2[1], r2[2], False)
            elif name == 'rd':
                r2 = _read_extra(w, st, o[1], o[2] if len(o) > 2 else None)
                if r2:
                    return fail(k, o, r2[0], r2[1], r2[2], False)
            else:
                raise ValueError('unknown history op %r' % (o,))
        except Exception as e:
            if isinstance(e, ValueError) and 'unknown history op' in str(e):
                raise
            return fail(k, o, 'operation raises ' + type(e).__name__, 'operation succeeds', str(e)[:120].replace('\n', ' '), refused)
        try:
            res = _obs_check(w, st)
        except Exception as e:
            return fail(k, o, 'observation raises ' + type(e).__name__, 'observables readable', str(e)[:120].replace('\n', ' '), refused)
        if res:
            return fail(k, o, res[0], res[1], res[2], refused)
    for w2, st2 in others:                               # the other objects are still what they were
        res = _obs_check(w2, st2)
        if res:
            return fail(len(inp['ops']), 'end', 'second object: ' + res[0], res[1], res[2], False)
    # round 4: the kept filter results are their own objects: check them once more, edit them in place, look at the source again
    for k, (r0, rows0, f0) in enumerate(getattr(st, 'kept', [])):
        g0 = _coll_rows(r0)
        if f0['kind'] in ('moys', 'hoys', 'hoys_ap'):
            g0 = sorted(g0)
        if g0 != rows0:
            return fail(len(inp['ops']), 'end', 'earlier filter result changed by a later call', 'result as returned', _first_diff(rows0, g0), False)
        try:
            r0.direct_normal_irradiance[0] = -4321.0
            r0.diffuse_horizontal_irradiance[len(r0) - 1] = -1234.0
        except (TypeError, AttributeError):
            pass
        r0.enforce_on_hour = not r0.enforce_on_hour
        r0.location = _loc('Elsewhere', -10.0, 20.0, 1, 5.0)
    if getattr(st, 'kept', None):
        res = _obs_check(w, st)
        if res:
            return fail(len(inp['ops']), 'end', 'source changed by editing a filter result: ' + res[0], res[1], res[2], False)
    return None


# known finding C12-setter-stale-timestep (theorem C12_history_stale_timestep_counterexample)
_STALE_TS_CASE = {'kind': 'sparse', 'ts': 1, 'leap': False, 'moys': [85440 + 480, 85440 + 540], 'mode': 0,
                  'ops': [['dni', 'hdr_ts', 2], ['rd', 'file']]}


def _rand_hist_ops(rng, inp, nops):
    st = _St(inp)
    n = len(st.moys)
    small = n <= 600
    ops = []
    locs = [['Sydney Obs', -33.87, 151.21, 10, 39.0], ['Nairobi', -1.32, 36.92, 3, 1624.0], ['Zero', 0.0, 0.0, 0, 0.0],
            ['Reykjavik', 64.13, -21.9, 0, 61.0], ['Suva', -18.13, 178.43, 12, 6.0]]
    bad_kinds = ['short', 'period', 'ts', 'class', 'type', 'dtype']
    for _ in range(nops):
        r = rng.random()
        if r < 0.2:
            ops.append(['oh', rng.choice([True, False, False, 1, 0])])
        elif r < 0.27:
            ops.append(['loc', rng.choice(locs)])
        elif r < 0.31:
            ops.append(['loc_bad', rng.randrange(4)])
        elif r < 0.41:
            ops.append([rng.choice(['dni', 'dhi']), rng.choice(['ok', 'ok', 'ok_imm']), rng.randrange(1000)])
        elif r < 0.56:
            ops.append([rng.choice(['dni', 'dhi']), rng.choice(bad_kinds), rng.randrange(1000)])
        elif r < 0.61:
            ops.append(['setval', rng.randrange(10 ** 6), rng.choice([0, 0.0, 999.5, -3.5, 1]), rng.choice([0, 12.75, 400])])
        elif r < 0.73:
            ops.append(['try', rng.choice(['write', 'get', 'get2', 'pattern', 'period', 'moys', 'hoys', 'illum', 'from_dict']),
                        rng.randrange(6)])
        elif r < 0.77 and small:
            ts2 = rng.choice([t for t in (1, 2, 3, 4) if t != st.ts])
            leap2 = not st.leap
            ops.append(['other', {'kind': 'sparse', 'ts': ts2, 'leap': leap2, 'moys': _rand_sparse(rng, ts2, leap2, 5), 'mode': 1,
                                  'onhour': rng.random() < 0.3}])
        else:
            what = rng.choice(['dict', 'dup', 'file', 'hrs', 'ghi', 'get', 'iter', 'filter'] if small else ['dup', 'iter', 'get', 'hrs'])
            if what == 'get':
                ops.append(['rd', 'get', [rng.randrange(n) for _ in range(4)] + [0, n - 1]])
            elif what == 'filter':
                f = _rand_filter(rng, st.ts, st.leap, st.moys, st.annual(), not st.cont)
                _rand_forms(rng, f)
                if f['kind'] == 'moys' and st.cont:
                    f['moys'] = [m for m in f['moys'] if m in set(st.moys)] or [st.moys[0]]
                if f['kind'] == 'period' and not st.annual():
                    f['args'][0:2] = st.period[0:2] if st.cont else [1, 1]
                    f['args'][3:5] = st.period[2:4] if st.cont else [12, 31]
                ops.append(['rd', 'filter', f])
            elif what == 'file' and rng.random() < 0.3:
                ops.append(['rd', 'file', 'noext'])
            else:
                ops.append(['rd', what])
    return ops


def _hist_cases(ctx):
    rng = ctx.rng
    # fixed histories: the orders that expose a slot which a setter / a refused assignment does not keep in step
    base3 = {'kind': 'partial', 'ts': 3, 'leap': False, 'period': [6, 21, 6, 22], 'mode': 0}
    base1 = {'kind': 'partial', 'ts': 1, 'leap': True, 'period': [2, 28, 3, 1], 'mode': 1}
    sparse = {'kind': 'sparse', 'ts': 2, 'leap': False, 'moys': [0, 30, 90, 86400, 525570], 'mode': 0}
    yield 'hist', dict(base3, ops=[['oh', True], ['oh', False], ['rd', 'dup'], ['rd', 'file'], ['oh', 0]])
    yield 'hist', dict(base1, ops=[['oh', True], ['rd', 'ghi'], ['oh', False], ['rd', 'ghi'], ['rd', 'hrs'], ['oh', 1], ['rd', 'dup'],
                                   ['rd', 'file']])
    yield 'hist', dict(base1, ops=[['dni', 'short', 1], ['dhi', 'short', 2], ['dni', 'period', 3], ['dhi', 'ts', 4], ['dni', 'class', 5],
                                   ['dhi', 'type', 1], ['dni', 'dtype', 6], ['rd', 'file'], ['dni', 'ok', 7], ['dhi', 'ok_imm', 8],
                                   ['rd', 'dict'], ['loc_bad', 1], ['loc', ['Zero', 0.0, 0.0, 0, 0.0]], ['rd', 'file']])
    yield 'hist', dict(sparse, ops=[['dhi', 'short', 1], ['dni', 'period', 2], ['dhi', 'class', 3], ['try', 'write', 1], ['try', 'get', 0],
                                    ['rd', 'filter', {'kind': 'pattern', 'pattern': [True, False]}], ['dni', 'ok', 4], ['rd', 'file'],
                                    ['setval', 0, 0, 0], ['rd', 'dict']])
    yield 'hist', {'kind': 'annual', 'ts': 2, 'leap': True, 'period': [1, 1, 12, 31], 'mode': 0,
                   'ops': [['oh', False], ['dni', 'short', 1], ['rd', 'get', [0, 1, 2832, 17567]], ['oh', True], ['dhi', 'ok', 3]]}
    for i in range(ctx.n(20, 220) * (3 if ctx.searching else 1)):
        ts = rng.choice([1, 1, 2, 3, 4, 6]) if rng.random() < 0.75 else rng.choice(VALID_TS)
        leap = rng.random() < 0.5
        r = rng.random()
        if r < 0.08 and ts <= 2:
            inp = {'kind': 'annual', 'ts': ts, 'leap': leap, 'period': [1, 1, 12, 31]}
            nops = 4
        elif r < 0.6:
            stm, std, endm, endd, kind = _rand_period(rng, leap)
            if len(_period_moys(ts, leap, stm, std, endm, endd)) > 1200:
                continue
            inp = {'kind': 'partial', 'ts': ts, 'leap': leap, 'period': [stm, std, endm, endd]}
            nops = rng.choice([4, 8, 12])
            ctx.count('hist:period_' + kind)
        else:
            inp = {'kind': 'sparse', 'ts': ts, 'leap': leap, 'moys': _rand_sparse(rng, ts, leap)}
            nops = rng.choice([4, 8, 12])
            if len(inp['moys']) == 1:
                ctx.count('hist:single_step')
        inp.update(mode=rng.choice([0, 1]), onhour=rng.random() < 0.25)
        if rng.random() < 0.2:
            inp['imm'] = True
            ctx.count('hist:immutable_twin')
        if rng.random() < 0.3:
            inp['loc'] = rng.choice([['Sydney Obs', -33.87, 151.21, 10, 39.0], ['Zero', 0.0, 0.0, 0, 0.0], ['Quito', -0.18, -78.47, -5, 2850.0]])
        inp['ops'] = _rand_hist_ops(rng, inp, nops)
        for o in inp['ops']:
            ctx.count('hist:op_' + o[0] + ('_' + str(o[1]) if o[0] in ('dni', 'dhi', 'try', 'rd') else ''))
        ctx.count('hist:%s_%s_%s' % (inp['kind'], _ts_class(ts), 'leap' if leap else 'plain'))
        yield 'hist', inp



# --- correspondence of histories: the object state machine of Model/WeaObj.lean vs one real object ---------------


def _hdr_numbers(text):
    ls = text.split('\n')
    return (int(Decimal(ls[1].split()[-1]) * 100), int(Decimal(ls[2].split()[-1]) * 100),
            int(ls[3].split()[-1]), int(Decimal(ls[4].split()[-1]) * 10))


def _hist_idx(n):
    return sorted(set(i for i in (0, 1, 2, n // 3, n // 2, n - 2, n - 1) if 0 <= i < n))


def _digest(status, w, idx):
    n = len(w.direct_normal_irradiance.values)
    try:
        dts = w.datetimes
        dpart = ' '.join(_show_dt(dts[i]) if i < len(dts) else 'err:index' for i in idx)
    except Exception as e:
        dpart = 'err:' + err_name(e)
    try:
        body = w.to_file_string()[len(w.header):].split('\n')
        toks = []
        for i in idx:
            t = body[i].split(' ')
            toks.append('%d %d %d %d %d' % (int(t[0]), int(t[1]), int(Decimal(t[2]) * 1000), int(t[3]), int(t[4])))
        lpart = ' '.join(toks)
    except Exception as e:
        lpart = 'err:' + err_name(e)
    al = tuple(w.diffuse_horizontal_irradiance.datetimes) == tuple(w.direct_normal_irradiance.datetimes)
    return '%s %d %d %s %s %s %d %d %d %d D %s L %s A %s' % (
        (status, n, w.timestep, _b(w.is_leap_year), _b(w.is_continuous), _b(w.enforce_on_hour)) + _hdr_numbers(w.header)
        + (dpart, lpart, _b(al)))


def _src_tokens(c):
    """`c ts leap stM stD endM endD` | `d ts leap m moy…` of a real collection."""
    ap = c.header.analysis_period
    if c._collection_type == 'HourlyContinuous':
        return 'c %d %s %d %d %d %d' % (ap.timestep, _b(ap.is_leap_year), ap.st_month, ap.st_day, ap.end_month, ap.end_day)
    moys = [d.moy for d in c.datetimes]
    return ('d %d %s %d %s' % (ap.timestep, _b(ap.is_leap_year), len(moys), ' '.join(map(str, moys)))).rstrip()


def _hist_trace(inp):
    """Run the history on one real Wea; -> (model request line, response in the model's format)."""
    from ladybug.wea import Wea
    from ladybug.datacollection import HourlyContinuousCollection, HourlyDiscontinuousCollection
    st = _St(inp)
    w = _make_wea(dict(inp, loc=st.loc))
    idx = _hist_idx(len(st.moys))
    req = ['hist %d %s %s' % (inp.get('mode', 0), _b(st.onhour), ' '.join(_fbits(x) for x in st.loc[1:])),
           _src_tokens(w.direct_normal_irradiance), 'I', ' '.join(map(str, idx)), 'O']
    out = [_digest('built', w, idx)]
    for o in inp['ops']:
        name = o[0]
        status = 'obs'
        if name == 'oh':
            w.enforce_on_hour = o[1]
            req.append('oh %s' % _b(bool(o[1])))
            status = 'done'
        elif name == 'loc':
            w.location = _loc(*o[1])
            req.append('loc ' + ' '.join(_fbits(x) for x in o[1][1:]))
            status = 'done'
        elif name == 'loc_bad':
            req.append('locbad')
            try:
                w.location = [None, 'Chicago', {'city': 'x'}, 0][o[1] % 4]
                status = 'done'
            except AssertionError:
                status = 'refused'
        elif name in ('dni', 'dhi'):
            # the candidate is described from the state the history has reached so far (as `_check_hist` builds it)
            st.moys = [d.moy for d in w.direct_normal_irradiance.datetimes]
            c = _cand(st, name, o[1], o[2])
            iscoll = isinstance(c, (HourlyContinuousCollection, HourlyDiscontinuousCollection))
            if iscoll:
                req.append('%s 1 %s %d %d %s' % (name, _b(o[1] != 'dtype'), o[2], len(c.values), _src_tokens(c)))
            else:
                req.append('%s 0 1 %d 0 c 1 0 1 1 1 1' % (name, o[2]))
            try:
                if name == 'dni':
                    w.direct_normal_irradiance = c
                else:
                    w.diffuse_horizontal_irradiance = c
                status = 'done'
            except (AssertionError, AttributeError, TypeError):
                status = 'refused'
        elif name == 'setval':
            i = o[1] % len(st.moys)
            a, b = w.direct_normal_irradiance[i], w.diffuse_horizontal_irradiance[i]
            took = 0
            try:                                   # two user-level edits; an immutable twin refuses its own
                w.direct_normal_irradiance[i] = o[2]
                a = o[2]
                took += 1
            except (TypeError, AttributeError):
                pass
            try:
                w.diffuse_horizontal_irradiance[i] = o[3]
                b = o[3]
                took += 1
            except (TypeError, AttributeError):
                pass
            if took:
                req.append('setval %d %s %s' % (i, Fraction(a), Fraction(b)))
                status = 'done'
            else:
                req.append('rd')
        else:
            req.append('rd')
        out.append(_digest(status, w, idx))
    return ' '.join(req), 'ok ' + ' | '.join(out)


# --- EPW object histories: unit state, refused exports, repeated exports ---------------------------------


def _epw_expected(loc, rows, hoys, c1, c2):
    hdr = _loc_header([loc[1], float(loc[6]), float(loc[7]), float(loc[8]), float(loc[9])])
    body = [(rows[h][0], rows[h][1], (rows[h][2] - 1) * 1000 + 500, c1[h], c2[h]) for h in hoys]
    return hdr, body


def _parse_wea_text(text):
    ls = text.split('\n')
    hdr = '\n'.join(ls[:6]) + '\n'
    body = []
    for ln in ls[6:]:
        if ln == '':
            continue
        t = ln.split(' ')
        body.append((int(t[0]), int(t[1]), int(Decimal(t[2]) * 1000), int(t[3]), int(t[4])))
    return hdr, body, ls[-1] == ''


def _cmp_wea_text(text, hdr, body, tol):
    ghdr, gbody, nl = _parse_wea_text(text)
    if ghdr != hdr:
        return 'header', _first_diff(hdr.split('\n'), ghdr.split('\n'))
    if len(gbody) != len(body) or not nl:
        return 'line count', 'lengths %d vs %d' % (len(body), len(gbody))
    for i, (a, b) in enumerate(zip(body, gbody)):
        if a[:3] != b[:3]:
            return 'time columns', 'line %d: required %s observed %s' % (i, a, b)
        if abs(a[3] - b[3]) > tol or abs(a[4] - b[4]) > tol:
            return 'irradiance', 'line %d: required %s observed %s' % (i, a, b)
    return None


def _check_epw_hist(inp):
    """One EPW object: unit conversions, exports (annual / listed hours / refused), reads of the columns, in any
    order; every export must carry the W/m2 irradiance of the file rows at the right steps."""
    from ladybug.epw import EPW
    from ladybug.wea import Wea
    src = _asset('epw', inp['file'])
    path = os.path.join(_tmpdir(), 'h_%d_%s' % (_CNT[0], inp['file']))
    _CNT[0] += 1
    shutil.copy(src, path)
    loc, rows = _epw_rows(path)
    n = len(rows)
    sig0 = {'what': 'epw history', 'file': inp['file']}
    e = EPW(path)
    c1 = [r[3] for r in rows]
    c2 = [r[4] for r in rows]
    converted = False
    is_ip = False
    # cells that are whole numbers are written as they are; other cells are rounded on import (C01) and truncated by %d
    tol0 = 0 if all(float(x).is_integer() for x in c1 + c2) else 1
    try:
        for k, o in enumerate(inp['ops']):
            name = o[0]
            if name == 'ip':
                e.convert_to_ip()
                converted = is_ip = True
            elif name == 'si':
                e.convert_to_si()
                is_ip = False
            elif name == 'cols':
                e.direct_normal_radiation.values[0], e.diffuse_horizontal_radiation.datetimes[0]
            elif name in ('to_wea', 'to_wea_bad'):
                hoys = o[1]
                out = _tmpfile('' if (len(o) > 2 and o[2]) else '.wea')
                try:
                    p = e.to_wea(out, hoys)
                    raised = None
                except Exception as ex:
                    raised = ex
                    p = None
                if name == 'to_wea_bad':
                    if raised is None and p and os.path.exists(p):
                        os.remove(p)
                else:
                    if raised is not None:
                        return {'required': 'export succeeds', 'observed': 'step %d %s raises %s: %s' % (k, o, type(raised).__name__, raised),
                                'sig': dict(sig0, what='to_wea raises', ip=is_ip)}
                    text = open(p).read()
                    os.remove(p)
                    if not p.endswith('.wea'):
                        return {'required': '.wea path', 'observed': p, 'sig': dict(sig0, what='path')}
                    hdr, body = _epw_expected(loc, rows, hoys or range(n), c1, c2)
                    d = _cmp_wea_text(text, hdr, body, tol0 + (1 if converted else 0))
                    if d:
                        return {'required': 'rows of the EPW in W/m2 at hour - 0.5', 'observed': 'step %d %s: %s: %s' % (k, o, d[0], d[1]),
                                'sig': dict(sig0, what='to_wea ' + d[0], ip=is_ip)}
                if e.is_ip != is_ip:
                    return {'required': 'unit system kept (ip=%s)' % is_ip, 'observed': 'is_ip=%s after step %d %s' % (e.is_ip, k, o),
                            'sig': dict(sig0, what='unit state', ip=is_ip)}
            elif name == 'from_epw':
                w = Wea.from_epw_file(path)
                hdr, body = _epw_expected(loc, rows, range(n), c1, c2)
                d = _cmp_wea_text(w.to_file_string(), hdr, body, tol0)
                if d:
                    return {'required': 'rows of the EPW', 'observed': 'step %d from_epw_file: %s: %s' % (k, d[0], d[1]),
                            'sig': dict(sig0, what='from_epw_file ' + d[0])}
            else:
                raise ValueError('unknown epw history op %r' % (o,))
    finally:
        if os.path.exists(path):
            os.remove(path)
    return None


def _epw_hist_cases(ctx):
    rng = ctx.rng
    files = ['chicago.epw', 'tokyo.epw', 'mannheim.epw']
    some = sorted(rng.sample(range(8760), 6))
    noon = [h for h in range(4000, 4024)]
    yield 'epw_hist', {'file': rng.choice(files), 'ops': [['ip'], ['to_wea', None], ['to_wea', noon], ['to_wea_bad', [5, 10 ** 6]],
                                                            ['to_wea', some, 1], ['si'], ['to_wea', [0]], ['from_epw']]}
    for _ in range(ctx.n(1, 8)):
        ops = []
        for _ in range(rng.choice([3, 5, 7])):
            r = rng.random()
            if r < 0.2:
                ops.append(['ip'])
            elif r < 0.3:
                ops.append(['si'])
            elif r < 0.4:
                ops.append(['cols'])
            elif r < 0.55:
                ops.append(['to_wea_bad', rng.choice([[3, 8760], [-9000], [0, 'x'], [10 ** 6]])])
            elif r < 0.65:
                ops.append(['from_epw'])
            else:
                hoys = rng.choice([None, [], [0], [8759], sorted(rng.sample(range(8760), 5)), list(range(3000, 3030))])
                ops.append(['to_wea', hoys, rng.randrange(2)])
        for o in ops:
            ctx.count('epw_hist:op_' + o[0])
        yield 'epw_hist', {'file': rng.choice(files), 'ops': ops}


# --- histories in one folder (the CLI translators leave files next to their input) --------------------------


def _edit_epw(path, k):
    """Edit an EPW copy in place: another place / position in the LOCATION line and other irradiance cells."""
    with open(path, errors='ignore') as f:
        lines = f.read().split('\n')
    t = lines[0].split(',')
    t[1] = 'Edited%d' % k
    t[6] = '%.2f' % (-33.0 + k % 7)
    t[7] = '%.2f' % (18.0 + k % 5)
    t[8] = '%.1f' % (2.0)
    t[9] = '%.1f' % (40.0 + k % 3)
    lines[0] = ','.join(t)
    for i in range(8, len(lines)):
        c = lines[i].split(',')
        if len(c) > 15 and (i + k) % 11 == 0:
            c[14] = str((int(float(c[14])) + 17 + k) % 1000)
            c[15] = str((int(float(c[15])) + 5 + k) % 500)
            lines[i] = ','.join(c)
    with open(path, 'w') as f:
        f.write('\n'.join(lines))


def _check_cli_hist(inp):
    """Several translator calls in ONE folder (different inputs, edited inputs, refused calls, files left behind by
    earlier calls): each output equals the library calls made on a private copy elsewhere."""
    from click.testing import CliRunner
    from ladybug.cli.translate import translate, epw_to_wea, wea_to_constant
    from ladybug.wea import Wea
    from ladybug.analysisperiod import AnalysisPeriod
    work = tempfile.mkdtemp(prefix='c12_cli_')
    lib = tempfile.mkdtemp(prefix='c12_lib_')
    sig0 = {'what': 'cli history'}
    try:
        for k, s in enumerate(inp['steps']):
            sig = dict(sig0, cmd=s['cmd'], via=s['via'], step='first' if k == 0 else 'later')
            target = os.path.join(work, s['file'])
            if not os.path.exists(target) and not s.get('missing'):
                shutil.copy(_asset(s['assets'], s.get('src') or s['file']), target)
            if s.get('edit') is not None:
                _edit_epw(target, s['edit'])
            if s.get('stale'):                      # a file an earlier run (any program) left in the folder
                with open(os.path.join(work, 'epw_to_wea.wea'), 'w') as f:
                    f.write(_loc_header(['Stale Place', 1.0, 2.0, 3, 4.0]) + '1 1 0.500 1 1\n1 1 1.500 2 2\n')
            if s.get('truncate'):                   # an input the translator must refuse
                with open(target, errors='ignore') as f:
                    txt = f.read().split('\n')
                with open(target, 'w') as f:
                    f.write('\n'.join(txt[:8 + 100]) + '\n')
            outp = os.path.join(work, 'out_%d.txt' % k) if s['out'] in ('file', 'path') else None
            # the library calls, in another folder, on a copy of what the input is NOW
            want = None
            if not s.get('missing') and not s.get('truncate'):
                priv = os.path.join(lib, 'in_%d_%s' % (k, s['file']))
                shutil.copy(target, priv)
                if s['cmd'] == 'epw-to-wea':
                    lw = Wea.from_epw_file(priv, s.get('ts') or 1)
                    if s.get('ap') not in (None, '', 'None'):
                        lw = lw.filter_by_analysis_period(AnalysisPeriod.from_string(s['ap']))
                    want = lw.to_file_string()
                else:
                    v = 1000 if s.get('value') is None else s['value']
                    if s['assets'] == 'wea':
                        want = Wea.to_constant_value(priv, v)
                    else:
                        p2 = Wea.from_epw_file(priv).write(os.path.join(lib, 'lib_%d.wea' % k))
                        want = Wea.to_constant_value(p2, v)
                        # and against the rows of the file itself: place line and one line per row
                        loc, rows = _epw_rows(priv)
                        if want.split('\n')[0] != 'place ' + loc[1] or len(want.split('\n')) != len(rows) + 7:
                            return {'required': 'place %s, %d lines' % (loc[1], len(rows)), 'observed': want[:60],
                                    'sig': dict(sig, what='library composition')}
            import logging
            logging.disable(logging.CRITICAL)
            try:
                if s['via'] == 'cli':
                    args = [s['cmd'], target]
                    if s['cmd'] == 'epw-to-wea':
                        if s.get('ap') is not None:
                            args += ['--analysis-period', s['ap']]
                        if s.get('ts') is not None:
                            args += ['--timestep', str(s['ts'])]
                    elif s.get('value') is not None:
                        args += ['--value', str(s['value'])]
                    if outp:
                        args += ['--output-file', outp]
                    res = CliRunner().invoke(translate, args)
                    ok = res.exit_code == 0
                    got = (open(outp).read() if outp and os.path.exists(outp) else res.output) if ok else None
                else:
                    if s['cmd'] == 'epw-to-wea':
                        got = epw_to_wea(target, s.get('ap'), s.get('ts') or 1, outp)
                    else:
                        got = wea_to_constant(target, 1000 if s.get('value') is None else s['value'], outp)
                    if outp:
                        got = open(outp).read()
                    ok = True
                    if not ok and res.exception is not None and not isinstance(res.exception, SystemExit):
                        raise res.exception
            except Exception as e:
                ok, got = False, None
                err = '%s: %s' % (type(e).__name__, str(e)[:100])
                sig['error'] = type(e).__name__
            else:
                err = 'exit code 1'
            finally:
                logging.disable(logging.NOTSET)
            if want is None:
                continue                               # a refused call: only what follows matters
            if not ok:
                return {'required': 'call %d succeeds' % k, 'observed': err, 'sig': dict(sig, what='call fails')}
            if got != want:
                if s['via'] == 'cli' and not outp and got == _NOTE + want:
                    continue                           # known finding C12-cli-stdout-note (reported by the `cli` op)
                return {'required': 'call %d (%s %s) gives the bytes of the library calls' % (k, s['cmd'], s['file']),
                        'observed': _first_diff(want.split('\n'), (got or '').split('\n')), 'sig': dict(sig, what='cli bytes')}
    finally:
        shutil.rmtree(work, ignore_errors=True)
        shutil.rmtree(lib, ignore_errors=True)
    return None


def _cli_hist_cases(ctx):
    rng = ctx.rng
    epws = _EPWS[:3]

    def step(cmd, file, assets='epw', **kw):
        d = {'cmd': cmd, 'via': rng.choice(['func', 'cli']), 'file': file, 'assets': assets, 'out': rng.choice(['return', 'file'])}
        d.update(kw)
        if d['via'] == 'cli' and d['out'] == 'return':
            d['out'] = 'stdout'
        return d
    utf8 = ['chicago.epw', 'tokyo.epw']                  # mannheim.epw holds a latin-1 byte: known finding C12-cli-constant-non-utf8-epw
    a, b = rng.sample(utf8, 2)
    # two different EPWs, then the first again after an edit, with a refused call and a stale side file in between
    yield 'cli_hist', {'steps': [step('wea-to-constant', a, value=rng.choice([0, 700])), step('wea-to-constant', b, value=250),
                                 step('wea-to-constant', a, edit=rng.randrange(100), value=None)]}
    yield 'cli_hist', {'steps': [step('wea-to-constant', 'missing.epw', missing=True), step('wea-to-constant', b, stale=True, value=5),
                                 step('epw-to-wea', b, ap='12/30 to 1/2 between 0 and 23 @1', ts=1),
                                 step('wea-to-constant', 'chicago.wea', 'wea', value=0)]}
    for _ in range(ctx.n(0, 5)):
        steps = []
        for _ in range(rng.choice([2, 3, 4])):
            r = rng.random()
            f = rng.choice(epws)
            if r < 0.45:
                f = rng.choice(utf8)
                steps.append(step('wea-to-constant', f, value=rng.choice([None, 0, 1, 999]), edit=rng.choice([None, None, rng.randrange(100)]),
                                  stale=rng.random() < 0.25))
            elif r < 0.55:
                steps.append(step('wea-to-constant', rng.choice(_WEAS), 'wea', value=rng.choice([None, 0, 3])))
            elif r < 0.65:
                steps.append(step('wea-to-constant', 'trunc_' + f, truncate=True, src=f))
            elif r < 0.7:
                steps.append(step('wea-to-constant', 'nowhere.epw', missing=True))
            else:
                steps.append(step('epw-to-wea', f, ap=rng.choice([None, '6/21 to 6/22 between 8 and 16 @1', '2/27 to 3/1 between 0 and 23 @1']),
                                  ts=rng.choice([None, 1]), edit=rng.choice([None, rng.randrange(100)])))
        yield 'cli_hist', {'steps': steps}


# --- process-order independence -----------------------------------------------------------------------------


def _run_order(order, timeout=300):
    """Run the cases of `order` one after the other in ONE fresh Python process; -> list of (index, result)."""
    import subprocess
    import sys
    env = dict(os.environ, LADYBUG_REPO=core.REPO)
    code = ('import sys, json\nsys.path.insert(0, %r)\nfrom harness import core\nsys.path.insert(0, core.REPO)\n'
            'from harness.props import c12\nc12._order_main()\n' % core.ROOT)
    return subprocess.Popen([sys.executable, '-c', code], stdin=subprocess.PIPE, stdout=subprocess.PIPE,
                            stderr=subprocess.DEVNULL, env=env)


def _order_main():
    import sys
    order = json.loads(sys.stdin.read())
    out = []
    real_stdout = sys.stdout
    sys.stdout = io.StringIO()                           # the library prints notes
    for i, (op, inp) in enumerate(order):
        try:
            res = check_case(op, inp)
        except Exception as e:
            res = {'required': 'oracle evaluates', 'observed': 'exception %s: %s' % (type(e).__name__, str(e)[:200]),
                   'sig': {'exception': type(e).__name__}}
        if res:
            out.append([i, json.loads(json.dumps(res, default=str))])
    sys.stdout = real_stdout
    sys.stdout.write(json.dumps(out))


def _order_result(order, raw):
    try:
        fails = json.loads(raw.decode('utf-8', 'replace'))
    except ValueError:
        return {'required': 'the cases run in a fresh process', 'observed': 'no result: %s' % raw[-200:],
                'sig': {'what': 'process order', 'case': 'process died'}}
    if not fails:
        return None
    i, res = fails[0]
    sig = dict(res.get('sig') or {})
    sig.update(what='process order', case=order[i][0], position='first' if i == 0 else 'later',
               inner=str((res.get('sig') or {}).get('what')))
    return {'required': res.get('required'), 'observed': 'case %d (%s) of the order: %s' % (i, order[i][0], res.get('observed')), 'sig': sig,
            'index': i}


def _check_order(inp):
    p = _run_order(inp['order'])
    raw, _ = p.communicate(json.dumps(inp['order']).encode())
    res = _order_result(inp['order'], raw)
    if res and 'index' in res and not inp.get('keep_index'):
        res = dict(res)
        res.pop('index')
    return res


def _order_pool(ctx):
    """Cheap cases of every op family; rarity rank first (leap, wrapping, sub-hourly, refused first)."""
    rng = ctx.rng
    pool = []
    for ts, leap, onhour in ((1, True, False), (1, False, False), (1, False, True), (3, True, False), (2, False, False),
                             (rng.choice([4, 5, 6]), rng.random() < 0.5, False)):
        pool.append((0 if leap else 2, ('axis', {'ts': ts, 'leap': leap, 'onhour': onhour, 'idx': _axis_indices(rng, ts, leap, 40)})))
    for leap in (True, False):
        for ts in (1, rng.choice([2, 3, 4, 6])):
            stm, std, endm, endd, kind = _rand_period(rng, leap)
            if len(_period_moys(ts, leap, stm, std, endm, endd)) > 1500:
                stm, std, endm, endd, kind = 12, 31, 1, 1, 'wrap'
            rank = (0 if leap else 1) + (0 if kind == 'wrap' else 1) + (0 if ts > 1 else 1)
            pool.append((rank, (rng.choice(['file_rt', 'dict_rt']), {'kind': 'partial', 'ts': ts, 'leap': leap,
                                                                      'period': [stm, std, endm, endd], 'mode': 1})))
            pool.append((rank, ('file_rt', {'kind': 'sparse', 'ts': ts, 'leap': leap, 'moys': _rand_sparse(rng, ts, leap), 'mode': 0})))
            pool.append((rank, ('daysim', {'ts': rng.choice([2, 3, 4]), 'leap': leap, 'idx': [0, 1, 2, 100]})))
    pool.append((0, ('file_rt', {'kind': 'partial', 'ts': 1, 'leap': True, 'period': [2, 28, 3, 1], 'mode': 0})))
    pool.append((3, ('file_rt', {'kind': 'partial', 'ts': 1, 'leap': False, 'period': [2, 28, 3, 1], 'mode': 0})))
    pool.append((0, ('dict_leap', {'ts': 1, 'moys': [k * 60 for k in range(24 * 60, 24 * 61)]})))
    k = 0
    for op, inp in _hist_cases_fixed():
        if inp['kind'] != 'annual':
            pool.append((k % 3, (op, inp)))
            k += 1
    f = rng.choice(_EPWS[:3])
    pool.append((2, ('epw', {'file': f, 'ts': 1, 'idx': [0, 1, 8759]})))
    pool.append((1, ('epw_hist', {'file': f, 'ops': [['to_wea_bad', [10 ** 6]], ['ip'], ['to_wea', [12, 4000]], ['to_wea', None]]})))
    pool.append((0, ('epw', {'file': rng.choice(['long_beach_2021.epw', 'los_angeles_no_leap_field.epw']), 'ts': 1, 'idx': [0, 1416, 8759]})))
    a, b = rng.sample(_EPWS[:2], 2)
    pool.append((1, ('cli_hist', {'steps': [
        {'cmd': 'wea-to-constant', 'via': 'func', 'file': a, 'assets': 'epw', 'out': 'return', 'value': 3},
        {'cmd': 'wea-to-constant', 'via': 'func', 'file': b, 'assets': 'epw', 'out': 'return', 'value': 3}]})))
    for leap in (True, False):
        pool.append((0 if leap else 2, ('sky', {'model': 'ashrae', 'ts': 2 if leap else 1, 'leap': leap, 'loc': ['B', -33.9, 151.2, 10, 6.0],
                                                'idx': [0, 1, 3000, 8000], 'clearness': 1})))
    for _ in range(4):
        ts = rng.choice([1, 2, 3])
        leap = rng.random() < 0.5
        src = {'kind': 'annual', 'ts': ts, 'leap': leap, 'period': [1, 1, 12, 31], 'mode': 0}
        f = _rand_filter(rng, ts, leap, _moys_of(src), True, True)
        if f['kind'] == 'sun_up':
            continue
        pool.append((0 if leap else 2, ('filter', dict(src, filter=f, then_write=True))))
    return pool


def _hist_cases_fixed():
    class _C(object):
        quick = True
        searching = False
        rng = random.Random(0)

        def n(self, a, b):
            return 0

        def count(self, *a):
            pass
    return list(_hist_cases(_C()))


def _order_start(ctx):
    """2-4 fresh processes, each with another order of the same pool (rare classes first in the first one)."""
    rng = ctx.rng
    pool = _order_pool(ctx)
    orders = []
    rare_first = [c for _, c in sorted(pool, key=lambda rc: rc[0])]
    orders.append(rare_first)
    orders.append(list(reversed(rare_first)))
    for _ in range(1 if ctx.quick else 2):
        o = [c for _, c in pool]
        rng.shuffle(o)
        orders.append(o)
    procs = []
    for o in orders:
        o = json.loads(json.dumps(o))
        p = _run_order(o)
        p.stdin.write(json.dumps(o).encode())
        p.stdin.close()
        procs.append((o, p))
    return procs


def _order_collect(ctx, procs):
    for o, p in procs:
        raw = p.stdout.read()
        p.wait()
        ctx.count('order:processes')
        ctx.count('order:cases', len(o))
        yield o, _order_result(o, raw)


replay = check_case

_EPWS = ['chicago.epw', 'tokyo.epw', 'mannheim.epw', 'long_beach_2021.epw', 'los_angeles_no_leap_field.epw']
_WEAS = ['chicago.wea', 'chicago_filtered.wea', 'san_francisco_10min.wea']

FIXED_CORPUS = [
    # 29 Feb of a leap-year file (pinned code: ValueError, flag passed as `minute`)
    ('file_rt', {'kind': 'partial', 'ts': 1, 'leap': True, 'period': [2, 28, 3, 1], 'mode': 0}),
    ('file_rt', {'kind': 'annual', 'ts': 1, 'leap': True, 'period': [1, 1, 12, 31], 'mode': 0}),
    # 20-minute data through the sparse path (pinned code: 08:19)
    ('file_rt', {'kind': 'sparse', 'ts': 3, 'leap': False, 'moys': [85440, 85460, 85480, 85500], 'mode': 0}),
    ('file_rt', {'kind': 'sparse', 'ts': 20, 'leap': False, 'moys': [85440 + 492, 85440 + 495, 86400], 'mode': 1}),
    ('file_rt', {'kind': 'sparse', 'ts': 60, 'leap': True, 'moys': [85441, 85442, 85443, 86399], 'mode': 0}),
    # fractional time zone in the header (known finding)
    ('file_rt', {'kind': 'partial', 'ts': 1, 'leap': False, 'period': [6, 21, 6, 21], 'mode': 0,
                 'loc': ['New Delhi', 28.58, 77.2, 5.5, 216.0]}),
    ('file_rt', {'kind': 'partial', 'ts': 2, 'leap': False, 'period': [12, 31, 1, 1], 'mode': 1,
                 'loc': ['Suva', -18.13, 178.43, 12, 6.0]}),
    ('dict_rt', {'kind': 'sparse', 'ts': 2, 'leap': True, 'moys': [84960, 86400 - 30, 86400], 'mode': 1}),
    ('dict_rt', {'kind': 'partial', 'ts': 1, 'leap': True, 'period': [2, 29, 2, 29], 'mode': 0}),
    # 20-minute Wea, the float hours of 2 Jan as AnalysisPeriod.hoys reports them (32.666... * 60 = 1959.99...)
    ('filter', {'kind': 'annual', 'ts': 3, 'leap': False, 'period': [1, 1, 12, 31], 'mode': 0,
                'filter': {'kind': 'hoys_ap', 'args': [1, 2, 0, 1, 2, 23]}}),
    ('filter', {'kind': 'sparse', 'ts': 6, 'leap': True, 'moys': [1440 + 10 * k for k in range(144) if k % 3 != 2], 'mode': 0,
                'filter': {'kind': 'hoys_ap', 'args': [1, 2, 6, 1, 2, 18]}}),
    ('dict_leap', {'ts': 1, 'moys': [k * 60 for k in range(24 * 60, 24 * 61)]}),
    # round 4: 4-minute data, step 131069 = hour 8737.933333333332; 8737.933333333332 * 15 = 131068.99999999999 (known finding)
    ('axis', {'ts': 15, 'leap': False, 'onhour': False, 'idx': [0, 1, 2, 131068, 131069, 131399]}),
    ('cli', {'cmd': 'epw-to-wea', 'assets': 'epw', 'file': 'chicago.epw', 'ap': None, 'ts': 2, 'out': 'stdout'}),
    # round 3: a discontinuous collection with the same datetimes under a header of 2 steps per hour is accepted by the
    # setter; the slot `_timestep` stays 1 (known finding)
    ('hist', _STALE_TS_CASE),
    # round 3: wea-to-constant opens its input as UTF-8 text to sniff the first word; mannheim.epw holds a latin-1 byte
    ('cli_hist', {'steps': [{'cmd': 'wea-to-constant', 'via': 'func', 'file': 'mannheim.epw', 'assets': 'epw', 'out': 'return',
                             'value': 1}]}),
]


def _rand_forms(rng, f, p=0.35):
    """Round 4: the same filter request in another form (period from text / strings / floats / repr / dict; sequence
    arguments as tuple or one-shot iterable)."""
    if f['kind'] in ('period', 'hoys_ap'):
        if rng.random() < p:
            f['via'] = rng.choice(_AP_VIAS)
            if f['via'] == 'text':
                f['shape'] = rng.randrange(6)
    if f['kind'] in ('moys', 'hoys', 'hoys_ap', 'pattern') and rng.random() < p:
        f['argshape'] = rng.choice(['tuple', 'tuple', 'tuple', 'gen', 'iter', 'map']) if f['kind'] != 'pattern' else 'tuple'
    return f


def _rand_filter(rng, ts, leap, moys_src, whole_year_only=True, outside_ok=True):
    step = 60 // ts
    r = rng.random()
    nd = 366 if leap else 365
    if r < 0.35:
        a = rng.randrange(nd)
        b = rng.choice([a, min(nd - 1, a + 1), rng.randrange(nd)])
        (sm, sd), (em, ed) = _md(leap, a), _md(leap, b)
        sh, eh = rng.choice([(0, 23), (0, 23), (8, 17), (22, 5), (0, 12), (13, 23), (5, 5)]) if rng.random() < 0.5 else _rand_hours(rng)
        if whole_year_only is False and sh > eh:
            sh, eh = eh, sh
        return {'kind': 'period', 'args': [sm, sd, sh, em, ed, eh]}
    if r < 0.6:
        k = rng.choice([1, 2, 5, 30])
        kindsel = rng.choice(['moys', 'hoys'])
        pick = sorted(set(rng.choice(moys_src) for _ in range(k)))
        if (outside_ok or kindsel == 'hoys') and rng.random() < 0.2:      # a step that may lie outside the source (ignored)
            pick.append((pick[-1] + step) % (nd * 1440))
        return {'kind': kindsel, 'moys': sorted(set(pick))}
    if r < 0.85:
        ln = rng.choice([2, 3, 24 * ts, len(moys_src), len(moys_src) + 5])
        pat = [rng.random() < 0.5 for _ in range(ln)]
        if not any(pat):
            pat[0] = True
        return {'kind': 'pattern', 'pattern': pat}
    return {'kind': 'sun_up', 'min_alt': rng.choice([0, 0, -6, 10])}


def _source_days(leap, per):
    a, b = _doy0(leap, per[0], per[1]), _doy0(leap, per[2], per[3])
    nd = 366 if leap else 365
    return list(range(a, b + 1)) if a <= b else list(range(a, nd)) + list(range(0, b + 1))


def _sub_period(rng, leap, per):
    """Round 6: (stm, std, endm, endd) of a request that selects a contiguous run of days of the whole-day source `per`, boundary
    biased: first / last day of the source, one inside, one OUTSIDE (such a request is clipped to the source); + a tag."""
    nd = 366 if leap else 365
    days = _source_days(leap, per)
    L = len(days)
    i = min(L - 1, max(0, rng.choice([0, 0, 1, L - 1, L - 1, L - 2, rng.randrange(L)])))
    j = min(L - 1, rng.choice([i, i, L - 1, L - 1, i + 1, rng.randrange(i, L)]))
    a, b = days[i], days[j]
    tag = ('first' if i == 0 else 'last' if i == L - 1 else 'inner') + '_to_' + ('first' if j == 0 else 'last' if j == L - 1 else 'inner')
    wraps = days[0] > days[-1]
    r = rng.random()
    if r < 0.12 and L < nd - 2:
        before = days[0] - 1
        if (before >= 0 if not wraps else before > days[-1]):
            a, tag = before, 'day_before_source_to_' + tag.split('_to_')[1]
    elif r < 0.24 and L < nd - 2:
        after = days[-1] + 1
        if (after <= nd - 1 if not wraps else after < days[0]):
            b, tag = after, tag.split('_to_')[0] + '_to_day_after_source'
    return list(_md(leap, a)) + list(_md(leap, b)), tag


def _sub_matrix(rng, big):
    """Round 6: in EVERY run, requests on the exact boundary days of a plain and of a year-wrapping continuous source."""
    for wrap in (False, True):
        for ts in ([rng.choice([1, 2, 3])] if not big else [1, 2, 4]):
            leap = rng.random() < 0.5
            nd = 366 if leap else 365
            if wrap:
                a, b = nd - 1 - rng.choice([0, 1, 3, 10]), rng.choice([0, 1, 2, 58, 59, 79])
            else:
                a = rng.choice([0, 57, 58, rng.randrange(nd - 12)])
                b = min(nd - 1, a + rng.choice([1, 2, 5, 9]))
            per = list(_md(leap, a)) + list(_md(leap, b))
            days = _source_days(leap, per)
            L = len(days)
            spans = [(0, 0), (L - 1, L - 1), (max(0, L - 2), L - 1), (0, min(1, L - 1)), (0, L - 1)]
            if wrap:
                k = days.index(0)                               # 1 Jan: the span around the year end, and the two one-sided ones
                spans += [(k - 1, k), (k, L - 1), (0, k - 1)]
            if L > 2:
                spans.append((1, L - 2))
            for i, j in spans:
                sh, eh = (0, 23) if rng.random() < 0.7 else rng.choice([(8, 17), (0, 12), (13, 23), (5, 5)])
                f = {'kind': 'period', 'args': list(_md(leap, days[i])) + [sh] + list(_md(leap, days[j])) + [eh]}
                yield {'kind': 'partial', 'ts': ts, 'leap': leap, 'period': per, 'mode': 0, 'filter': f, 'then_write': rng.random() < 0.3}, \
                    '%s_source_%s_to_%s' % ('wrapping' if wrap else 'plain', 'first' if i == 0 else 'last' if i == L - 1 else 'inner',
                                            'first' if j == 0 else 'last' if j == L - 1 else 'inner')


def _oracle_cases(ctx):
    rng = ctx.rng
    big = not ctx.quick
    for c in FIXED_CORPUS:
        yield c
    # time axis
    for ts in (VALID_TS if big else [1, 2, rng.choice([3, 4, 5, 6, 10, 12])]):
        for leap in (False, True):
            for onhour in ((False, True) if ts == 1 else (False,)):
                n = _hours(leap) * ts
                inp = {'ts': ts, 'leap': leap, 'onhour': onhour, 'idx': _axis_indices(rng, ts, leap, 300)}
                if big and ts <= 2:
                    inp['full'] = True
                yield 'axis', inp
    # file and dict round trips of directly built Weas
    for _ in range(ctx.n(120, 2000) * (3 if ctx.searching else 1)):
        ts = rng.choice([1, 1, 2, 3, 4, 6]) if rng.random() < 0.7 else rng.choice(VALID_TS)
        leap = rng.random() < 0.5
        mode = rng.choice([0, 1, 1, 2])
        if mode == 2:
            ctx.count('rt:numeric_edge_values')
        onhour = rng.random() < 0.2
        loc = None
        if rng.random() < 0.5:
            tz = rng.choice([-12, -8, -5, 0, 1, 3, 9, 14])
            loc = [rng.choice(['Paris Orly', 'X', 'Sao-Paulo', 'A B C']), round(rng.uniform(-89, 89), rng.choice([2, 4])),
                   round(rng.uniform(-179, 179), rng.choice([2, 4])), tz, round(rng.uniform(-100, 4000), rng.choice([1, 3]))]
        if rng.random() < 0.5:
            stm, std, endm, endd, kind = _rand_period(rng, leap)
            if len(_period_moys(ts, leap, stm, std, endm, endd)) > ctx.n(2500, 6000):
                continue
            inp = {'kind': 'partial', 'ts': ts, 'leap': leap, 'period': [stm, std, endm, endd]}
        else:
            inp = {'kind': 'sparse', 'ts': ts, 'leap': leap, 'moys': _rand_sparse(rng, ts, leap)}
        inp.update(mode=mode, onhour=onhour)
        if loc:
            inp['loc'] = loc
        if rng.random() < 0.12:
            inp['imm'] = True
            ctx.count('rt:immutable_twin')
        if ts not in (1, 2, 3, 4, 6):
            ctx.count('rt:unusual_timestep')
        ctx.count('rt:' + ('leap' if leap else 'plain'))
        yield rng.choice(['file_rt', 'file_rt', 'dict_rt']), inp
    for ts, leap in ([(1, True)] if not big else [(t, l) for t in (1, 2, 3, 4, 6) for l in (False, True)]):
        if big:                                   # quick: the fixed corpus holds the annual leap-year file
            yield 'file_rt', {'kind': 'annual', 'ts': ts, 'leap': leap, 'period': [1, 1, 12, 31], 'mode': 0}
        yield 'dict_rt', {'kind': 'annual', 'ts': ts, 'leap': leap, 'period': [1, 1, 12, 31], 'mode': 0}
    # round 6 (a branch chosen from a summary of the data - row count, first row, length - instead of the data): Weas whose SIZE is that of
    # another kind of Wea: a whole year of steps that starts on another day than 1 Jan (wraps the year end), the same minus one day /
    # plus nothing, written and read back (file, dictionary) - every value must come back at the step it was written for
    for k in range(3 if not big else 9):
        ts = 1 if (not big or k < 6) else rng.choice([2, 3])
        leap = rng.random() < 0.5
        nd = 366 if leap else 365
        d0 = rng.choice([1, nd - 1, 181, 273, 59, rng.randrange(1, nd)])
        short = k % 3 == 2                                  # k % 3: 0 = file, whole year; 1 = dictionary, whole year; 2 = file, one day short
        d1 = (d0 - 2) % nd if short else d0 - 1
        (m0, da0), (m1, da1) = _md(leap, d0), _md(leap, d1)
        ctx.count('rt:year_sized_%s' % ('one_day_short' if short else 'wrapping_full_year_' + ('dict' if k % 3 == 1 else 'file')))
        inp = {'kind': 'partial', 'ts': ts, 'leap': leap, 'period': [m0, da0, m1, da1], 'mode': rng.choice([0, 1]), 'onhour': False}
        yield ('dict_rt' if k % 3 == 1 else 'file_rt'), inp
    # filters (source: annual / partial / sparse), some followed by a file round trip
    bases = {}
    for _ in range(ctx.n(42, 800) * (3 if ctx.searching else 1)):
        ts = rng.choice([1, 1, 2, 3, 4, 6])
        leap = rng.random() < 0.5
        r = rng.random()
        if r < (0.3 if big else 0.2):
            inp = {'kind': 'annual', 'ts': ts, 'leap': leap, 'period': [1, 1, 12, 31]}
        elif r < 0.8:
            stm, std, endm, endd, kind = _rand_period(rng, leap)
            inp = {'kind': 'partial', 'ts': ts, 'leap': leap, 'period': [stm, std, endm, endd]}
        else:
            inp = {'kind': 'sparse', 'ts': ts, 'leap': leap, 'moys': _rand_sparse(rng, ts, leap, 20)}
        src = _moys_of(inp)
        f = _rand_filter(rng, ts, leap, src, inp['kind'] == 'annual', inp['kind'] != 'partial')
        if f['kind'] == 'moys' and inp['kind'] == 'partial':
            f['moys'] = [m for m in f['moys'] if m in set(src)] or [src[0]]   # continuous filter_by_moys indexes: C02 hypothesis

        if f['kind'] == 'sun_up' and len(src) > (9000 if big else 3000):
            continue
        if f['kind'] == 'period' and inp['kind'] != 'annual':
            # a period filter must lie inside a partial source (C02: subset rule); use the hour window only
            f['args'][0:2] = inp['period'][0:2] if inp['kind'] == 'partial' else [1, 1]
            f['args'][3:5] = inp['period'][2:4] if inp['kind'] == 'partial' else [12, 31]
            if inp['kind'] == 'partial' and rng.random() < 0.7:
                # round 6 (strictness of a range bound): a sub-period whose first / last day sits exactly ON the first / last day of the
                # source, one day inside, or one day outside (clipped to the source), for plain and for year-wrapping sources
                sub, tag = _sub_period(rng, leap, inp['period'])
                f['args'][0:2], f['args'][3:5] = sub[0:2], sub[2:4]
                ctx.count('filter:sub_period_%s_of_%s_source' % (tag, 'wrapping' if kind == 'wrap' else 'plain'))
        _rand_forms(rng, f)
        if f.get('via'):
            ctx.count('filter:period_via_' + f['via'])
        if f.get('argshape'):
            ctx.count('filter:arg_as_' + f['argshape'])
        if f['kind'] == 'period':
            ctx.count('filter:period_%s_%s' % ('overnight' if f['args'][2] > f['args'][5] else 'day',
                                                'wrap' if (f['args'][0], f['args'][1]) > (f['args'][3], f['args'][4]) else 'plain'))
        inp.update(mode=0, filter=f, then_write=rng.random() < 0.5)
        if inp['kind'] == 'partial' and rng.random() < 0.3 and len(src) <= 2500:
            # round 4: the same request on every sibling class (continuous / discontinuous / immutable twins)
            sib = {'ts': ts, 'leap': leap, 'period': inp['period'], 'mode': rng.choice([0, 1]), 'filter': f,
                   'onhour': rng.random() < 0.2, 'reads': rng.sample(['dict', 'file', 'dup', 'iter', 'hrs', 'get'], 2)}
            ctx.count('siblings:%s' % f['kind'])
            yield 'siblings', sib
            continue
        if rng.random() < 0.12:
            inp['imm'] = True
            ctx.count('filter:immutable_twin')
        if f['kind'] == 'sun_up' and rng.random() < 0.5:
            inp['loc'] = rng.choice([['Sydney Obs', -33.87, 151.21, 10, 39.0], ['Quito', -0.18, -78.47, -5, 2850.0]])
            ctx.count('filter:sun_up_southern_or_equator')
        ctx.count('filter:%s_on_%s' % (f['kind'], inp['kind']))
        yield 'filter', inp
    for inp, tag in _sub_matrix(rng, big):
        ctx.count('filter:boundary_day_' + tag)
        if rng.random() < 0.35 and len(_moys_of(inp)) <= 2500:
            ctx.count('siblings:boundary_day_sub_period')
            yield 'siblings', {'ts': inp['ts'], 'leap': inp['leap'], 'period': inp['period'], 'mode': rng.choice([0, 1]), 'filter': inp['filter'],
                               'onhour': False, 'reads': rng.sample(['dict', 'file', 'dup', 'iter', 'hrs', 'get'], 1)}
        else:
            if rng.random() < 0.15:
                inp['imm'] = True
            yield 'filter', inp
    # round 4 (kind e): in EVERY run every kind of filter request on every sibling class (continuous, discontinuous, immutable twins)
    for rep in range(1 if not big else 8):
        ts = rng.choice([1, 2, 3, 4, 6]) if rep else rng.choice([2, 3])
        leap = rng.random() < 0.5
        nd = 366 if leap else 365
        d0 = rng.choice([0, 57, 58, nd - 2, rng.randrange(nd - 3)])
        (m0, da0), (m1, da1) = _md(leap, d0), _md(leap, min(nd - 1, d0 + rng.choice([1, 2])))
        per = [m0, da0, m1, da1]
        src = _period_moys(ts, leap, *per)
        sh, eh = _rand_hours(rng)
        if (sh, eh) == (0, 23):
            sh, eh = 7, 18
        some = sorted(rng.sample(src, min(len(src), 6)))
        reqs = [{'kind': 'period', 'args': [m0, da0, 0, m0, da0, 23]}, {'kind': 'period', 'args': [m0, da0, sh, m1, da1, eh]},
                {'kind': 'moys', 'moys': some}, {'kind': 'hoys', 'moys': some},
                {'kind': 'hoys_ap', 'args': [m1, da1, min(sh, eh), m1, da1, max(sh, eh)]},
                {'kind': 'pattern', 'pattern': [rng.random() < 0.5 for _ in range(rng.choice([2, 3, 5]))] + [True]},
                {'kind': 'pattern', 'pattern': [rng.random() < 0.6 for _ in range(len(src) - 1)] + [True]},
                {'kind': 'pattern', 'pattern': [rng.random() < 0.6 for _ in range(len(src) + 4)] + [True]},
                {'kind': 'sun_up', 'min_alt': rng.choice([0, -6, 10])}]
        for f in reqs:
            _rand_forms(rng, f, 0.25)
            ctx.count('siblings:matrix_%s' % f['kind'])
            yield 'siblings', {'ts': ts, 'leap': leap, 'period': per, 'mode': rng.choice([0, 1]), 'filter': f, 'onhour': ts == 1 and rng.random() < 0.3,
                               'reads': rng.sample(['dict', 'file', 'dup', 'iter', 'hrs', 'get'], 1)}
    # filter_by_hoys with the float hours of AnalysisPeriod.hoys on sub-hourly Weas of every timestep
    # (x:20, x:40, x:12 ... are not binary fractions of an hour): annual, partial and sparse sources
    sub = [3, 5, 6, 10, 12, 15, 20, 30]
    for ts in ([3] + rng.sample(sub[1:], 4) if not big else sub + [60]):
        for srckind in ('annual', 'partial', 'sparse'):
            leap = rng.random() < 0.5
            nd = 366 if leap else 365
            day = rng.choice([1, 58, 59, rng.randrange(nd - 1)])
            (mo, da) = _md(leap, day)
            (mo2, da2) = _md(leap, min(nd - 1, day + 1))
            step = 60 // ts
            if srckind == 'annual':
                if ts > (6 if not big else 15):
                    continue
                inp = {'kind': 'annual', 'ts': ts, 'leap': leap, 'period': [1, 1, 12, 31]}
            elif srckind == 'partial':
                (m0, d0) = _md(leap, max(0, day - 1))
                inp = {'kind': 'partial', 'ts': ts, 'leap': leap, 'period': [m0, d0, mo2, da2]}
            else:
                moys = [m for m in range(day * 1440, (day + 2) * 1440, step) if rng.random() < 0.6]
                inp = {'kind': 'sparse', 'ts': ts, 'leap': leap, 'moys': moys or [day * 1440]}
            sh, eh = rng.choice([(0, 23), (0, 23), (6, 18), (8, 8)])
            f = {'kind': 'hoys_ap', 'args': [mo, da, sh, rng.choice([mo, mo2]) if mo2 >= mo else mo, da, eh]}
            if f['args'][3] == mo2 and mo2 != mo:
                f['args'][4] = da2
            elif rng.random() < 0.5 and (mo2, da2) > (mo, da) and mo2 == mo:
                f['args'][4] = da2
            if rng.random() < 0.3:
                f['shuffle'] = rng.randrange(1, 10 ** 6)
            _rand_forms(rng, f)
            inp.update(mode=0, filter=f)
            ctx.count('filter:hoys_ap_on_%s' % srckind)
            ctx.count('filter:hoys_ap_ts=%d' % ts)
            yield 'filter', inp
    # EPW sources
    files = _EPWS if big else [rng.choice(_EPWS)]
    for fn in files:
        leap = fn == 'long_beach_2021.epw' and False
        yield 'epw', {'file': fn, 'ts': 1, 'idx': _axis_indices(rng, 1, False, 50), 'to_wea': True,
                      'hoys': sorted(rng.sample(range(8760), 5))}
    for fn, ts in ([(rng.choice(_EPWS), rng.choice([2, 2, 3]))] if not big else
                   [(f, t) for f in _EPWS[:3] for t in (2, 4)] + [('chicago.epw', 3), ('tokyo.epw', 5), ('los_angeles_no_leap_field.epw', 6)]):
        ctx.count('branch:from_epw_file:interpolated_ts=%d' % ts)
        yield 'epw', {'file': fn, 'ts': ts, 'idx': _axis_indices(rng, ts, fn == 'los_angeles_no_leap_field.epw', 200)}
    # round 4: the translator given analysis periods as TEXT (every digit-count / order class of the hours, wrapping dates,
    # padded / upper-case / blank-rich forms, the leap-year EPW with `*`), read independently of AnalysisPeriod
    for k in range(ctx.n(5, 40) * (3 if ctx.searching else 1)):
        fn = rng.choice(_EPWS[:3] + ['los_angeles_no_leap_field.epw'])
        leap = fn == 'los_angeles_no_leap_field.epw'
        nd = 366 if leap else 365
        a = rng.randrange(nd)
        b = rng.choice([a, min(nd - 1, a + rng.randrange(1, 12)), rng.randrange(nd), (a + 3) % nd]) if k % 5 else (a - 360) % nd
        (sm, sd), (em, ed) = _md(leap, a), _md(leap, b)
        sh, eh = _rand_hours(rng) if k != 0 else (8, 16)
        ts = rng.choice([2, 3, 4]) if (big and rng.random() < 0.15) else 1
        shape = rng.randrange(6) if k > 1 else 0
        text = _ap_text([sm, sd, sh, em, ed, eh], ts, leap, shape)
        r = rng.random()
        if r < 0.06:
            text = text.replace('between', 'from')                     # not a period: refused
        elif r < 0.10:
            text = _ap_text([sm, sd, sh, em, ed, 24], ts, leap, shape)   # hour 24: refused
        elif r < 0.14 and not leap:
            text += '*'                                                # leap period on common-year data: refused or nothing
        if k in (1, 2) or (r >= 0.14 and r < 0.2 and k > 0):
            text = '' if k == 1 else 'None' if k == 2 else rng.choice(['', 'None'])                            # rare branch (reached in every run): the texts that mean "no period"
            ctx.count('branch:epw_to_wea:period_%s' % ('empty' if text == '' else 'word_None'))
        via = rng.choice(['cli', 'func'])
        ctx.count('cli_ap:hours_%s_digits_%d_%d' % ('overnight' if sh > eh else 'day', len(str(sh)), len(str(eh))))
        ctx.count('cli_ap:text_shape_%d' % shape)
        ctx.count('cli_ap:%s' % ('leap_epw' if leap else 'plain_epw'))
        ctx.count('branch:epw_to_wea:period_text')
        yield 'cli_ap', {'file': fn, 'text': text, 'ts': None if (ts == 1 and rng.random() < 0.5) else ts, 'via': via,
                         'out': rng.choice(['file', 'stdout'] if via == 'cli' else ['return', 'path']), 'opt': rng.choice(['long', 'short'])}
    # round 4: .wea files whose tokens are written another legal way; constructors fed other containers
    shapes = ['tabs', 'blanks', 'crlf', 'header', 'padded', 'decimals', 'exponent']
    for shape in shapes:
        for _ in range(1 if not big else 6):
            ts = rng.choice([1, 1, 2, 3, 4, 6, 12])
            leap = rng.random() < 0.5
            if rng.random() < 0.5:
                stm, std, endm, endd, kind = _rand_period(rng, leap)
                if kind == 'wrap' or len(_period_moys(ts, leap, stm, std, endm, endd)) > 2500:
                    stm, std, endm, endd = 2, 28, 3, 1
                inp = {'kind': 'partial', 'ts': ts, 'leap': leap, 'period': [stm, std, endm, endd]}
            else:
                inp = {'kind': 'sparse', 'ts': ts, 'leap': leap, 'moys': _rand_sparse(rng, ts, leap)}
            inp.update(mode=rng.choice([0, 1]), shape=shape)
            ctx.count('file_shapes:' + shape)
            yield 'file_shapes', inp
    for what, shape in ([('annual_values', 'list'), ('annual_values', 'tuple'), ('dict', 'list'), ('dict', 'tuple')] if big
                        else [rng.choice([('annual_values', 'list'), ('annual_values', 'tuple')]), rng.choice([('dict', 'list'), ('dict', 'tuple')])]):
        ts = rng.choice([1, 2, 3])
        leap = rng.random() < 0.5
        ctx.count('shapes:%s_%s' % (what, shape))
        yield 'shapes', {'what': what, 'ts': ts, 'leap': leap, 'mode': rng.choice([0, 1, 2]), 'shape': shape,
                         'idx': _axis_indices(rng, ts, leap, 10), 'dts_none': rng.random() < 0.5}
    yield 'shapes', {'what': 'location_text', 'ts': 1, 'leap': False, 'mode': 0, 'idx': [0],
                     'loc': rng.choice([[-33.87, 151.21, 10, 39.0], [41.98, -87.92, -6, 201.0], [0.0, 0.0, 0, 0.0], [64.125, -21.9, 0, 61.25]])}
    # CLI
    aps = [None, '6/21 to 9/21 between 8 and 16 @1', '1/1 to 12/31 between 0 and 23 @1', '12/30 to 1/2 between 0 and 23 @1',
           '2/27 to 3/1 between 0 and 23 @1', 'None', '']
    combos = []
    for ap in aps:
        for out in ('stdout', 'file'):
            combos.append({'cmd': 'epw-to-wea', 'assets': 'epw', 'file': rng.choice(_EPWS[:3]), 'ap': ap,
                           'ts': rng.choice([None, 1]), 'out': out})
    combos.append({'cmd': 'epw-to-wea', 'assets': 'epw', 'file': 'tokyo.epw', 'ap': '3/1 to 3/2 between 6 and 18 @2', 'ts': 2, 'out': 'file'})
    combos.append({'cmd': 'epw-to-wea', 'assets': 'epw', 'file': 'chicago.epw', 'ap': None, 'ts': 2, 'out': 'file'})
    for fn in _WEAS:
        combos.append({'cmd': 'wea-to-constant', 'assets': 'wea', 'file': fn, 'value': rng.choice([None, 0, 500]),
                       'out': rng.choice(['stdout', 'file'])})
    combos.append({'cmd': 'wea-to-constant', 'assets': 'epw', 'file': 'chicago.epw', 'value': 250, 'out': 'file'})
    if not big:
        combos = rng.sample(combos[:14], 1) + rng.sample(combos[14:16], 1) + rng.sample(combos[16:], 1)
    for c in combos:
        yield 'cli', c
    # static helpers, daysim, sky models
    for _ in range(ctx.n(10, 200)):
        ts = rng.choice([1, 2, 3])
        leap = rng.random() < 0.5
        yield 'const', {'kind': 'sparse', 'ts': ts, 'leap': leap, 'moys': _rand_sparse(rng, ts, leap), 'mode': 1,
                        'value': rng.choice([1000, 0, 3])}
    for ts, leap in ([(2, False), (6, True), (1, rng.random() < 0.5)] if not big else [(t, l) for t in (1, 2, 3, 4, 6, 12) for l in (False, True)]):
        n = _hours(leap) * ts
        yield 'daysim', {'ts': ts, 'leap': leap, 'idx': [0, 1, ts // 2, ts, n - 1, n - 2] + [rng.randrange(n) for _ in range(50)]}
    taub = [0.3 + 0.01 * k for k in range(12)]
    taud = [2.5 - 0.02 * k for k in range(12)]
    for ts, leap in ([(1, False), (2, True)] if not big else [(1, False), (1, True), (2, False), (4, True)]):
        locv = rng.choice([['A', 41.98, -87.92, -6, 201.0], ['B', -33.9, 151.2, 10, 6.0], ['C', 64.1, -21.9, 0, 50.0]])
        idx = _axis_indices(rng, ts, leap, 60)
        yield 'sky', {'model': 'ashrae', 'ts': ts, 'leap': leap, 'loc': locv, 'idx': idx, 'clearness': rng.choice([1, 1.1, 0])}
        yield 'sky', {'model': 'revised', 'ts': ts, 'leap': leap, 'loc': locv, 'idx': idx, 'taub': taub, 'taud': taud}
    # round 4: time steps that are not binary fractions of an hour (60.0 * i / ts is inexact), evaluated at the far end of the year too
    for ts in ([3] if not big else [3, 5, 6, 12]):
        leap = rng.random() < 0.5
        locv = rng.choice([['A', 41.98, -87.92, -6, 201.0], ['B', -33.9, 151.2, 10, 6.0]])
        n = _hours(leap) * ts
        idx = _axis_indices(rng, ts, leap, 150) + list(range(n - 40 * ts, n, 7))
        ctx.count('sky:nonbinary_ts=%d' % ts)
        yield 'sky', {'model': rng.choice(['ashrae', 'revised']), 'ts': ts, 'leap': leap, 'loc': locv, 'idx': idx, 'clearness': 1,
                      'taub': taub, 'taud': taud, 'use_2017': rng.random() < 0.5}
    for fn in (['chicago.stat'] if not big else ['chicago.stat', 'tokyo.stat', 'santamonica.stat', 'antartica.stat']):
        ts = 1 if not big else rng.choice([1, 2])
        leap = rng.random() < 0.5
        ctx.count('branch:from_stat_file')
        yield 'sky', {'model': 'stat', 'file': fn, 'ts': ts, 'leap': leap, 'loc': None, 'idx': _axis_indices(rng, ts, leap, 40),
                      'use_2017': rng.random() < 0.3}
    for k in range(3 if not big else 12):
        # round 6 (a time lag given in hours where the series is indexed in steps): in EVERY run a sub-hourly input (the dry bulb temperature of
        # three HOURS earlier is 3 * timestep positions back) next to the hourly one
        ts = rng.choice([2, 3, 4]) if k == 0 else 1 if k == 1 else rng.choice([2, 4, 6, 12]) if k == 2 else rng.choice([1, 2, 3, 4, 5, 6, 10])
        ctx.count('sky:zhang_huang_ts=%d' % ts)
        leap = rng.random() < 0.5
        stm, std, endm, endd, kind = _rand_period(rng, leap)
        if kind == 'wrap':
            stm, std, endm, endd = 3, 1, 3, 3
        yield 'sky', {'model': 'zh', 'ts': ts, 'leap': leap, 'loc': ['A', 41.98, -87.92, -6, 201.0],
                      'period': [stm, std, endm, endd], 'seed': rng.randrange(10 ** 6), 'idx': [0, 1, 2, 3, 4, 5, 7, 11, 23, 24, 47],
                      'pressure': k % 2 == 1, 'use_disc': k % 4 >= 2}


def _count_branches(ctx, op, inp):
    """Round 4 (kind j): which branch of the anchored functions a case reaches (see the list in the round-4 section)."""
    c = ctx.count
    kind = inp.get('kind') if isinstance(inp, dict) else None
    if op in ('file_rt', 'file_shapes') or (op == 'filter' and inp.get('then_write')):
        if kind in ('annual', 'partial') and op != 'filter':
            c('branch:from_file:continuous')
        else:
            f = inp.get('filter') or {}
            window = f.get('kind') == 'period' and not (f['args'][2] == 0 and f['args'][5] == 23)
            c('branch:from_file:%s_%s' % ('hour_window' if window else 'sparse', 'hourly_int' if inp['ts'] == 1 else 'rounded_minute'))
    if op == 'dict_rt':
        c('branch:from_dict:%s' % ('no_datetimes_key' if kind == 'annual' else 'whole_day_continuous' if kind == 'partial' else 'count_mismatch_discontinuous'))
    if op == 'shapes' and inp['what'] == 'dict' and inp.get('dts_none'):
        c('branch:from_dict:datetimes_None')
    if op == 'dict_leap':
        c('branch:from_dict:leap_flag_reapplied')
    if op == 'daysim':
        c('branch:from_daysim_file:%s' % ('shift' if inp['ts'] != 1 else 'no_shift'))
    if op == 'epw':
        c('branch:from_epw_file:%s' % ('hourly' if inp['ts'] == 1 else 'interpolated_sun_down_zero'))
        if inp['file'] == 'los_angeles_no_leap_field.epw':
            c('branch:from_epw_file:leap_epw')
        if inp.get('to_wea'):
            c('branch:EPW.to_wea:annual_and_listed')
    if op == 'sky':
        c('branch:sky:%s%s' % (inp['model'], '_2017' if inp.get('use_2017') else ''))
        if inp['model'] == 'zh':
            c('branch:zhang_huang:%s_%s' % ('pressure_given' if inp.get('pressure') else 'pressure_None', 'disc' if inp.get('use_disc') else 'dirint'))
    if op == 'axis':
        c('branch:datetimes:%s' % ('half_hour' if inp['ts'] == 1 and not inp['onhour'] else 'as_collection'))
        c('branch:_get_datetimes:%s_%s' % ('leap' if inp['leap'] else 'plain', 'hourly' if inp['ts'] == 1 else 'sub'))
    if op in ('filter', 'siblings') and inp.get('filter'):
        f = inp['filter']
        if f['kind'] == 'period':
            a = f['args']
            whole = a[2] == 0 and a[5] == 23
            wrap = (a[0], a[1]) > (a[3], a[4])
            src = 'continuous' if kind in ('annual', 'partial') or op == 'siblings' else 'discontinuous'
            c('branch:filter_period:%s_%s_%s' % (src, 'slice' if whole else 'window', 'wrap' if wrap else 'plain'))
            c('branch:AnalysisPeriod:%s' % ('overnight' if a[2] > a[5] else 'not_overnight'))
        c('branch:AnalysisPeriod:built_from_%s' % (f.get('via') or 'numbers')) if f['kind'] in ('period', 'hoys_ap') else None
    if op == 'cli':
        ap = inp.get('ap')
        c('branch:%s:%s_%s' % (inp['cmd'], 'period_' + ('None' if ap is None else 'empty' if ap == '' else 'word_None' if ap == 'None' else 'text')
                               if inp['cmd'] == 'epw-to-wea' else inp['assets'] + '_input', inp['out']))
    if op == 'cli_ap':
        c('branch:epw_to_wea:out_%s_%s' % (inp['via'], inp['out']))
    if op == 'hist':
        for o in inp['ops']:
            if o[0] == 'rd' and o[1] == 'get':
                c('branch:get_irradiance_value:%s' % ('annual_index' if kind == 'annual' else 'search'))
            if o[0] == 'try' and o[1] in ('get', 'get2'):
                c('branch:get_irradiance_value:not_found')
            if o[0] == 'rd' and o[1] == 'hrs':
                c('branch:write:write_hours')
    if op == 'epw_hist':
        for o in inp['ops']:
            if o[0] == 'to_wea':
                c('branch:EPW.to_wea:%s%s' % ('hoys_None' if o[1] is None else 'hoys_empty' if not o[1] else 'hoys_listed',
                                              '_no_extension' if len(o) > 2 and o[2] else ''))


def _all_cases(ctx):
    for c in _oracle_cases(ctx):
        _count_branches(ctx, c[0], c[1])
        yield c
    for gen in (_hist_cases, _epw_hist_cases, _cli_hist_cases):
        for c in gen(ctx):
            _count_branches(ctx, c[0], c[1])
            yield c


def oracle(ctx):
    procs = _order_start(ctx)            # the fresh processes run while this process works through its own stream
    run_oracle_cases(ctx, _all_cases(ctx), check_case)
    for order, res in _order_collect(ctx, procs):
        ctx.count('oracle:order')
        ctx.case(('order', json.dumps(order, sort_keys=True, default=str)))
        if res:
            i = res.pop('index', None)
            if i is None:
                ctx.fail('order', {'order': order}, res.get('required'), res.get('observed'), res.get('sig'))
                continue
            # shrink: does the case fail on its own in a fresh process?  then the order is not needed
            alone = _check_order({'order': [order[i]]})
            if alone:
                ctx.fail(order[i][0], order[i][1], alone.get('required'), alone.get('observed'),
                         dict(alone.get('sig') or {}, position='alone'))
            else:
                short = {'order': order[:i + 1]}
                ctx.fail('order', short, res.get('required'), res.get('observed'), res.get('sig'))


LEVEL_TEXT = ('Machine-checked Lean 4 theorems (51) over an executable model of wea.py (on top of the C08/C04 models): '
              'entry i of _get_datetimes and step i of every annual Wea are minute 60*i/ts (+30 when hourly and not '
              'on-hour) for all 12 timesteps, normal and leap, and coincide; whole-day partial data (non-wrapping and '
              'wrapping) sits on the closed-form grid from its first hour; write -> read is the identity on the time '
              'axis and the truncated values for annual and partial whole-day data (to_file_string produces one line '
              'per step with the first/last line the reader needs; from_file returns a continuous Wea over exactly '
              'the same period), and for chronologically ordered sparse/windowed/filtered rows (every datetime and '
              'both truncated values at their own step; rows in any order come back as the same multiset in strictly '
              'increasing time order, duplicates rejected); the (hour, minute) of every written line reads back '
              'exactly for all 1440 minutes of the day (robust to 0.47 min of float error; the pinned truncation is '
              'characterised exactly and refuted); header sign conventions invert (time zone iff a whole number of '
              'degrees; counterexample UTC+5:30); written values are the truncation toward zero; dictionary round '
              'trip of continuous data (annual and partial, = w) and of discontinuous data (rows, timestep, leap flag; '
              'header period re-derived); DAYSIM shift (last ts/2 values to the front, a permutation), '
              'to_constant_value (only the last two tokens change, line count kept, short line = IndexError), '
              'count_timesteps; both collections stay aligned, pairwise and at their own time step, under any common '
              'value-independent index selection.  One object under any history of setters, refused assignments and reads '
              '(explicit state machine): a refused operation leaves the object unchanged, reads are pure and can be dropped, '
              'the object after the history IS the object the constructor builds from the final public state (the slots '
              '_timestep/_is_leap_year never go stale) provided assigned discontinuous direct-normal collections carry the '
              'timestep/leap flag of the Wea in their header - refuted without that proviso (known finding: such a collection is '
              'accepted and the Wea keeps reporting the half hour); after any history both collections carry the same '
              'datetimes; enforce_on_hour never moves sub-hourly data; EPW.to_wea (annual) writes exactly the lines of '
              'to_file_string of the Wea made from the same cells.  Round 4: the translator given a period as text filters with the period of the '
              'same numbers (token level: every field through int(), overnight / wrapping decided on the numbers, written minutes = the C04 '
              'membership predicate) and its selection keeps direct and diffuse values paired; get_irradiance_value_for_hoy returns step k iff the '
              'product hoy * timestep lies in [k, k + 1) - true for every step in exact arithmetic, refuted on the IEEE product for 4-minute data '
              '(known finding).  Round 6: a period request whose first and last day lie on days a partial continuous source holds (its own first and last day '
              'included, plain or wrapping the year end) is the period the source is filtered with, a day is replaced only if strictly outside; the '
              'Zhang-Huang constructor reads the earlier dry bulb temperature 3 * timestep positions back = exactly 180 minutes earlier on the grid '
              '(3 positions are 180 minutes iff the data is hourly), wrapping to the end of the series at its start; a year-sized file is read by its '
              'rows: a whole year from another first day comes back over that period, never as 1 Jan - 31 Dec.')
LEVEL_NOTE = ('Trusted: Lean kernel; axioms propext/Classical.choice/Quot.sound only; the correspondence run (agreement '
              'on generated inputs only); CPython string formatting/float parsing modelled at token level (the IEEE '
              'product of the sparse path is checked for all 1440 minutes on every run); collection filters (C02), '
              'validate_analysis_period and interpolation (C13) are parameters; CLI glue, EPW cells, sky-model '
              'constructors, filter composition, the unit state of EPW objects, the files the CLI translators leave behind '
              'and the independence of the order of cases within one process are checked by the oracle on the real code only.')
TECHNIQUE = ('Lean 4 proof (closed form of the whole-day enumeration from the C04 membership/sortedness theorems, '
             'decide +kernel over the 1440 minutes, Rat arithmetic with grind/omega) about a model tied to wea.py by '
             'differential correspondence')
