"""C06 — Unit conversions agree with the SI definitions of the units and invert.

Model: lean/Ladybug/Model/Units.lean (dispatch, range limits, to_ip/to_si, collection conversion),
       lean/Ladybug/Model/UnitsHist.lean (round 3: object state machines for HISTORIES on heaps of collections:
       value-level specification `Hist.step` and reference-level machine `Hist.rstep` with Header cells),
       lean/Ladybug/Gen/Units.lean (REGENERATED on every run: all `_<u>_to_<v>` formulas as exact Rat
       functions, per-type tables), lean/Ladybug/Model/SI.lean (hand-written SI definitions);
theorems: lean/Ladybug/Props/C06.lean (+ lemmas Proofs/C06Lemmas.lean, Proofs/C06Hist.lean) + the regenerated
       obligations lean/Ladybug/Gen/UnitsProofs*.lean;
driver: drv_c06.  Tie: translator (tools/extract/units.py) + correspondence on the ops below.

Producers and their consumers (every consumer is exercised by the correspondence and/or the oracle; a change made
consistently in a producer and ONE consumer shows in the others):
  * `_<u>_to_<v>` formula methods (datatype/<type>.py)
      -> DataType.to_unit (every ordered pair), to_ip / to_si, is_in_range (limits in another unit),
         collection convert_to_unit/ip/si, to_unit/ip/si (mutable and immutable), is_in_data_type_range,
         to_time_aggregated / to_time_rate_of_change (first go to units[0]).
  * `units` / `si_units` / `ip_units` tables
      -> is_unit_acceptable (both raise modes), Header.__init__, Header.from_dict, <Collection>.from_dict,
         to_unit rejection, to_ip/to_si targets, normalize/aggregate label acceptance.
  * `min` / `max`  -> is_in_range (with / without unit, both raise modes), collection.is_in_data_type_range.
  * `_normalized_type`, `_time_aggregated_type`, `_time_aggregated_factor`, the `timestep` argument convention of
    `_time_aggregated_collection` -> normalize_by_area, aggregate_by_area, to_time_aggregated and
    to_time_rate_of_change of HourlyDiscontinuous / HourlyContinuous (all 12 timesteps) and Daily (1/24), each class
    mutable and immutable.
  * the Header object of a collection (`_unit`, `_data_type`; written in place by convert_*)
      -> header.unit, header.data_type, header.to_dict / to_tuple / iteration / to_csv_strings, collection.to_dict,
         values via .values / iteration / indexing / to_dict / bounds / min / max / total / average; the Headers of
         every OTHER collection derived earlier (duplicate, to_immutable, to_mutable, to_unit/ip/si, normalise, ...).
History layer (round 3): (1) `hist`: generated operation histories on a heap of collections (in-place conversions,
copies, immutable/mutable twins, item / values assignment, area and time derivations, range reads, refused
operations of every kind) compared after EVERY step, for EVERY object of the heap, with the reference-level Lean
machine (correspondence) and with the SI-meaning oracle (`_check_hist`); (2) `thist`: call histories on SHARED
data-type objects (siblings of one base type asked the same question, several unit pairs on one object, repeated
questions, refused calls first) against the stateless model and the SI oracle; (3) `order`: slices of the oracle
stream run in 3-4 FRESH Python processes in different orders (rare classes first / last / shuffled); a failure is
shrunk to a short call sequence `{"order": [...]}` that `replay` re-runs in a fresh process.

Round 4 (classes: override gap, aliasing / one-shot iterables, conventions, numeric edges, input shapes, rare branches):
  * (e) EVERY ordered unit pair of EVERY one of the 109 types (not a sample of the subtypes) in the correspondence and
    in the oracle (si_pair / roundtrip / identity); every rejection site on every type, also with other types' units,
    on collections of every class (`reject` sites coll_build / coll_convert / coll_to / header_csv);
    collection.is_in_data_type_range on every class (`coll_range`).  Lean: C06_siblings_agree.
  * (f) `shape`: the values as generator / iter() / map / zip at DataType.to_unit / to_ip / to_si / is_in_range, at the
    collection constructor and the `values` setter (refusal is fine; an answer must be the full, right answer);
    `alias`: answers kept, edited in place by the caller and asked again on one data-type object, a second object of
    the same class, unit tables handed out as lists; fixed history pattern "two copies of one source, one edited and
    converted"; every values argument also as tuple / array / list subclass / ints.  Lean: C06_to_unit_pointwise.
  * (g) oracle inputs on which the plausible conventions differ: time aggregation on all 12 timesteps, daily, leap;
    area normalisation with labels `x/y` and `x/y-z`, areas 1e-9 .. 3e12; collection range questions in every unit with
    both raise modes; every composite is judged against the SI table, which shares no code path with ladybug.
  * (h) magnitudes 1e-30 .. 1e+25 with non-round mantissas, halves and thirds on every ordered pair (relative bounds),
    ints next to floats.  Lean: C06_scale_invariant, C06_offset_free_types.
  * (i) periods written as text (`from_string`, string arguments, dict, repr round trip), unsorted / duplicated
    datetimes, metadata present / absent, data types obtained by from_dict / from_string / duplicate / own name; unit
    text that only looks like a listed unit (case, blanks, unicode look-alikes, superscripts) and non-text units.
  * (j) branches of the anchored functions and where they are counted (`branch:...` in evidence):
      _to_unit_base: both_base | from_is_base | to_is_base | two_legs; refusal in leg 1 / leg 2 (`reject` from / to)
      is_in_range: no_unit | first_unit | converted_limits | unlisted_unit, each with / without values, both raise modes
      _is_numeric: empty list | first value not a number (`raw`)
      to_ip / to_si of every base type: already_listed | converted (one counter per type and unit, i.e. per elif) |
          neither_si_nor_ip (atm, Torr, met, clo ...)
      normalize_by_area: plain_unit | unit_with_slash; metadata_type | no_metadata_type; zero area; no normalized type
      aggregate_by_area: specific_type (first loop) | base_type_of_subtype (second loop) | no match (ValueError);
          slash_label | dash_label
      _time_aggregated_collection / _time_rate_of_change_collection: hourly | daily caller; type without aggregate
      Header.__init__: metadata_none | metadata_dict; immutable `values` setter: first assignment | later (refused)
      convert_* / to_*: mutable | immutable override (branch:coll:<op>:<kind>)
    Not reachable through the public API: `legFrom`/`legTo` answering AttributeError (a listed unit without a formula
    method): the translator refuses such a tree.
"""
import json
import math
import os
import struct
import subprocess
import sys
from fractions import Fraction as Fr

from harness import core
from harness.core import err_name, run_oracle_cases

PROP = 'C06'
N_GEN_PROOFS = 4
PROOF_MODULES = ['Ladybug.Props.C06'] + ['Ladybug.Gen.UnitsProofs%d' % k for k in range(1, N_GEN_PROOFS + 1)] \
    + ['Ladybug.Gen.UnitsSym']
GREP_MODULES = ['Ladybug.Py', 'Ladybug.DrvCore', 'Ladybug.Model.Units', 'Ladybug.Model.UnitsHist', 'Ladybug.Model.SI',
                'Ladybug.Gen.Units', 'Ladybug.Proofs.C06Lemmas', 'Ladybug.Proofs.C06Hist', 'Ladybug.Drv.C06']
EXTRACTORS = 'tools/extract/units.py'
RULE = ('correspondence: every ordered unit pair of every base type x magnitudes 0, +-1, +-10^k (k=-12..12) and '
        'random values (model = regenerated exact Rat formulas run by the Lean driver, implementation = '
        'DataType.to_unit; relative tolerance 1e-12 after decoding), unknown/malformed units, to_ip/to_si and '
        'is_in_range of all 109 types x units, Header unit acceptance, random convert_*/to_* sequences on small '
        'collections of all 10 collection classes (convert_* on immutable classes must raise), normalize/aggregate by '
        'area and time aggregation / rate of change on all classes that have them (timesteps 1,2,4,6; daily), values '
        'with non-numbers (_is_numeric), GenericType; oracle: independent SI table (exact fractions) x every ordered '
        'pair x magnitudes: 0.2 % agreement, 2e-5 round trip, identity, IP/SI targets, rejection, collections keep '
        'values/unit/type in step, normalise x area = original quantity and aggregate undoes it, rate x seconds = '
        'aggregated quantity and rate of change undoes it (SI).  Round 3: operation HISTORIES on heaps of collections of '
        'all 10 classes (3-10 ops out of cu/ci/cs/tu/ti/ts/dup/imm/mut/set/vals/norm/agg/tagg/trate/rng, targets biased '
        'to the first and the newest object, ~15 % refused operations: unlisted units, in-place ops on immutables, '
        'wrong-length values, index out of range, zero area, underivable types; single-value and 24-value collections, '
        'all 12 timesteps, leap and non-leap periods), generated in lock-step with the model so that every target '
        'exists; the WHOLE heap is compared after every step (reads in random order, twice); call histories on shared '
        'data-type objects with probes on both sides of every converted limit; slices of the oracle stream in 3-4 fresh '
        'processes in rare-first / common-first / shuffled order.  Round 4: every ordered pair of all 109 types, values '
        '1e-30..1e+25 / halves / thirds / ints, values as list / tuple / array / list subclass (and as generator / iter / map '
        '/ zip: refusal or the full answer), data types from new / from_dict / from_string / duplicate / own name, periods '
        'from ctor / from_string / string arguments / dict / repr, reversed and duplicated datetimes, metadata present or '
        'absent, unit text that looks like a listed unit (case, blanks, unicode) and non-text units at every site, kept and '
        'edited answers on one object, range questions on collections of every class, all 12 timesteps in time aggregation; '
        'branch counters `branch:*`.  A case is non-trivial when the implementation '
        'returns a value (not a rejection); distinct = distinct (op, input)')
TRUSTED_BASE = [
    'translator tools/extract/units.py: the emitted Lean expression denotes the Python `return` expression over '
    'exact rationals (decimal literals by source text); the dispatch table (which method a unit reaches) and the '
    'to_ip/to_si target maps are obtained by calling the real `_clean` / `to_ip` / `to_si` on every listed unit. '
    'Mitigation: every generated function is executed by the driver and compared with the real float methods',
    'hand-written SI definitions lean/Ladybug/Model/SI.lean (reviewed by hand; the oracle has its own table, written '
    'separately in Python; the two are not compared entry by entry, but both are checked against the same code '
    'within 0.2 % on every run)',
    'IEEE-754 evaluation of the formulas vs exact rationals: compared to 1e-12 relative on the generated '
    'magnitudes, not proved (>= 10^6 head-room below the 2e-5 / 0.2 % bounds)',
    'Angle: pi is a symbol; theorems hold for every non-zero pi of every field of characteristic 0',
    'normalize_by_area/aggregate_by_area unit labels and the reverse type look-ups are string/table functions: '
    'executable model compared with the code on every run; their label round trip is a compile-time #guard over the '
    'regenerated tables (the kernel does not evaluate String.replace), values and factors are theorems',
    'GenericType and the `_is_numeric` assertion are small hand models (to_unit not implemented / first value only) '
    'tied by the correspondence ops `generic` and `raw`',
    'history machines (Model/UnitsHist.lean): the reference-level machine models WHICH Header object each collection '
    'method reads, writes and allocates (written by hand from _datacollectionbase.py / datacollection.py / '
    'datacollectionimmutable.py); tied by the correspondence op `hist`, which compares the whole heap after every '
    'step.  The data-type layer has no state in the model; that the real objects have none is checked on call '
    'histories and in fresh processes, not proved (Python classes can grow state anywhere)',
]
ASSUMPTIONS = ['SI / legal definitions of the units as listed at the top of Model/SI.lean',
               'thermochemical calorie, International-Table Btu, US gallon/fluid ounce, mechanical horsepower, '
               'conventional inHg / inH2O, met = 58.15 W/m2 (alternatives differ by < 0.1 %)']
LEVEL_TEXT = ('Machine-checked Lean 4 theorems over exact rationals: every one of the 256 unit formulas, '
              'regenerated from the Python source on each run, is proved to be the affine map A*x+B (ring); for '
              'each of the 33 rational base types a kernel-checked certificate shows that every ordered unit pair '
              'agrees with a hand-written SI table within 0.2 % (factor and offset), converts there and back within '
              '2e-5, that to_ip/to_si land in listed IP/SI units idempotently; general theorems lift this to the '
              'dispatch (to_unit on listed units, rejection of unlisted ones) and to collection conversion '
              '(convert_to_unit/ip/si and to_unit/ip/si: values, unit and data type move together; meaning preserved '
              'within the round-trip bound; immutable classes refuse in-place conversion), to the unit NAMES returned by '
              'to_ip/to_si (listed, idempotent, identity when listed), to is_in_range (limits converted with the same '
              'formulas, order preserved), to normalize/aggregate by area and time aggregation (exact inverses; generated '
              'theorems: normalised units are SI quotients, aggregation factors are 3600 s in SI terms), GenericType and '
              'the _is_numeric guard. Angle is proved symbolically in pi over any field of characteristic 0. '
              'Histories: for every list of operations on a heap of collections the reference-level machine (objects '
              'referring to Header cells, constructors allocating fresh ones) is observably the value-level '
              'specification (history refines fresh objects built from the final public state), a refused operation '
              'changes nothing, reads are pure and commute, an operation on one object never changes another (immutable '
              'twins), and in-place conversions inside a history keep the certified physical meaning. Round 4: every one '
              'of the 109 registered types converts exactly like its base type (siblings agree), the answer of to_unit is one '
              'function applied to each element (independent of container, splitting and earlier calls), the four branches '
              'of _to_unit_base and the branches of to_ip/to_si are theorems, and every type except Temperature is '
              'homogeneous (conv(k*x) = k*conv(x)), so the relative bounds hold alike at every magnitude.')
LEVEL_NOTE = ('Trusted: Lean kernel; axioms propext/Classical.choice/Quot.sound only; the formula translator and the '
              'hand-written SI table; float vs exact arithmetic compared (1e-12), not proved; correspondence on '
              'generated inputs only for the dispatch/collection layer.')
TECHNIQUE = ('Lean 4 proof (ring per regenerated formula, decide +kernel certificates over exact rationals, general '
             'lifting lemmas) about a model tied to datatype/*.py by a translator and differential correspondence')

REL_TOL = 1e-12
OFFSET_TYPES_ABS = 1e-9      # absolute slack where formulas have offsets (cancellation near 0 in floats)

COLL_CLASSES = ['HourlyDiscontinuousCollection', 'HourlyContinuousCollection', 'DailyCollection',
                'MonthlyCollection', 'MonthlyPerHourCollection',
                'HourlyDiscontinuousCollectionImmutable', 'HourlyContinuousCollectionImmutable',
                'DailyCollectionImmutable', 'MonthlyCollectionImmutable', 'MonthlyPerHourCollectionImmutable']

UNKNOWN_UNITS = ['', 'kwh', 'KWH', 'foo', 'W_m2', 'degC', 'C ', ' C', 'm^2', 'Btu/h ft2', 'percent', 'None',
                 'no such unit', 'mi2 ', 'fl_oz', 'oz/in^3']


def extract(ctx):
    from tools.extract import units
    ctx.units_table = units.extract()


# ---------------------------------------------------------------------------------------------
# protocol helpers


def _fbits(x):
    return '%016x' % struct.unpack('<Q', struct.pack('<d', float(x)))[0]


def _utok(u):
    return 'none' if u is None else 'u:' + u.replace(' ', '^')


def _uparse(tok):
    return tok[2:].replace('^', ' ')


def _vals(xs):
    return '%d %s' % (len(xs), ' '.join(_fbits(x) for x in xs)) if xs else '0'


def _parse_model(out):
    """Model answer -> list of items (str | Fraction)."""
    items = []
    for t in out.split():
        if t[0].isdigit() or (t[0] == '-' and len(t) > 1 and t[1].isdigit()):
            items.append(Fr(t))
        else:
            items.append(t)
    return items


def _close(m, i, slack):
    if isinstance(i, bool) or not isinstance(i, (int, float)):
        return False
    if math.isnan(i) or math.isinf(i):
        return False
    mf = float(m)
    return abs(mf - i) <= REL_TOL * max(abs(mf), abs(i)) + slack


def _same(model_items, impl_items, slack):
    if len(model_items) != len(impl_items):
        return False
    for m, i in zip(model_items, impl_items):
        if isinstance(m, Fr):
            if not _close(m, i, slack):
                return False
        elif m != i:
            return False
    return True


def compare_num(ctx, op, cases, model_line, impl_fn, slack_fn=None, key=None, fix=None, inp_fn=None):
    """Like core.compare_batch, but numbers are compared numerically (1e-12 relative) after decoding."""
    lines = [model_line(c) for c in cases]
    outs = ctx.driver().run(lines)
    for c, line, mo in zip(cases, lines, outs):
        try:
            io = impl_fn(c)
        except Exception as e:
            io = ['err:' + err_name(e)]
        ctx.compared += 1
        ctx.count('op:' + op)
        is_err = bool(io) and isinstance(io[0], str) and io[0].startswith('err:')
        ctx.case((op, key(c) if key else line), nontrivial=not is_err)
        if is_err:
            ctx.count('err_results')
            ctx.count('result:%s:%s' % (op, io[0]))
        else:
            ctx.count('result:%s:ok' % op)
        mi = _parse_model(mo)
        if fix is not None:
            io = fix(mi, io)
        if not _same(mi, io, slack_fn(c) if slack_fn else 0.0):
            ctx.disagree(op, inp_fn(c, line) if inp_fn else {'case': c, 'line': line}, mo, ' '.join(
                (repr(x) if isinstance(x, float) else str(x)) for x in io))
    if cases:
        ctx.sample({'op': op, 'request': lines[0][:300], 'model': outs[0][:300]})
    return outs


def _magnitudes(rng, n_random):
    xs = [0.0, 1.0, -1.0]
    for k in range(-12, 13):
        xs += [10.0 ** k, -(10.0 ** k)]
    # round 4: the far ends of the magnitudes the statement quantifies over, with non-round mantissas, halves, thirds
    for k in (-30, -20, -15, 16, 20, 25):
        xs += [7.7777777 * 10.0 ** k, -2.345678 * 10.0 ** k]
    xs += [0.5, -1.5, 2.5, 1.0 / 3.0]
    for _ in range(n_random):
        r = rng.random()
        if r < 0.4:
            xs.append(rng.uniform(-1000, 1000))
        elif r < 0.7:
            xs.append(rng.choice([-1, 1]) * 10 ** rng.uniform(-12, 12))
        elif r < 0.85:
            xs.append(float(rng.randrange(-5000, 5000)))
        else:
            xs.append(rng.choice([32.0, -40.0, 273.15, -273.15, 459.67, 212.0, 0.5, 100.0, 123456789.0]))
    return xs


def _model_tables(ctx):
    """The model's own view of the types (from the driver), so that generation does not depend on the
    code under test: {name: {'parent', 'units', 'si', 'ip', 'toip', 'tosi', 'min', 'max', 'strict'}}."""
    drv = ctx.driver()
    names = drv.run(['names'])[0].split()
    outs = drv.run(['tables ' + n for n in names])
    tabs = {}
    for n, o in zip(names, outs):
        t = o.split()
        if t[0] != 'ok':
            raise core.MachineryError('driver has no table for ' + n)
        d = {'parent': t[1][2:]}
        i = 2
        cur = None
        sect = {'units': [], 'si': [], 'ip': [], 'toip': [], 'tosi': [], 'base': [], 'min': [], 'max': [],
                'strict': []}
        while i < len(t):
            if t[i] in sect and not t[i].startswith('u:'):
                cur = t[i]
            else:
                sect[cur].append(t[i])
            i += 1
        d['units'] = [_uparse(x) for x in sect['units']]
        d['si'] = [_uparse(x) for x in sect['si']]
        d['ip'] = [_uparse(x) for x in sect['ip']]
        d['toip'] = [int(x) for x in sect['toip']]
        d['tosi'] = [int(x) for x in sect['tosi']]
        d['base'] = int(sect['base'][0])
        d['min'], d['max'] = sect['min'][0], sect['max'][0]
        d['strict'] = sect['strict']
        tabs[n] = d
    return tabs


def _bound_str(x):
    if x == float('-inf'):
        return '-inf'
    if x == float('inf'):
        return 'inf'
    if x != x:
        return 'nan'
    fr = Fr(repr(float(x))) if not isinstance(x, int) else Fr(x)
    return str(fr.numerator) if fr.denominator == 1 else '%d/%d' % (fr.numerator, fr.denominator)


_POOL = None     # when a dict: data-type instances are SHARED between the calls of one history

# ROUND 4 -- where a data-type object comes from (every provenance must convert alike) and the container / number
# shapes in which one and the same list of values can be handed to the code
INST_HOWS = ['new', 'dict', 'string', 'duplicate', 'named']
SHAPES = ['list', 'tuple', 'array', 'sublist', 'ints']
ONE_SHOT = ['gen', 'iter', 'map', 'zip']


class _SubList(list):
    """A list subclass (a caller's own container type)."""


def _shaped(xs, shape):
    """The numbers `xs` in the container shape `shape` (the model takes lists: every shape is the same data)."""
    if shape == 'tuple':
        return tuple(xs)
    if shape == 'array':
        import array
        return array.array('d', [float(x) for x in xs])
    if shape == 'sublist':
        return _SubList(xs)
    if shape == 'ints':
        return [int(x) if (isinstance(x, float) and x.is_integer() and abs(x) < 2.0 ** 53) else x for x in xs]
    if shape == 'gen':
        return (x for x in list(xs))
    if shape == 'iter':
        return iter(list(xs))
    if shape == 'map':
        return map(float, list(xs))
    if shape == 'zip':
        return (a for a, _b in zip(list(xs), list(xs)))
    return list(xs)


def _inst(name, how=None):
    import ladybug.datatype as dtm
    if _POOL is not None:
        if name not in _POOL:
            _POOL[name] = dtm.TYPESDICT[name]()
        return _POOL[name]
    cls = dtm.TYPESDICT[name]
    if not how or how == 'new':
        return cls()
    try:
        from ladybug.datatype.base import DataTypeBase
        if how == 'dict':
            obj = DataTypeBase.from_dict({'name': cls().name, 'data_type': name, 'type': 'DataType'})
        elif how == 'string':
            obj = DataTypeBase.from_string(cls().name)
        elif how == 'duplicate':
            obj = cls().duplicate()
        elif how == 'named':
            obj = cls('my own %s' % name)
        else:
            obj = cls()
    except Exception:
        return cls()
    # the text forms of data types are C07's subject: an object of another class is not used here
    return obj if type(obj) is cls else cls()


def _model_limits(ctx, tabs, names):
    """{(type, unit): [finite limits expressed in `unit`]} computed by the MODEL (driver `to_unit`), so that range
    probes can be placed on both sides of every converted limit without asking the code under test."""
    reqs, keys = [], []
    for n in names:
        t = tabs[n]
        for b in (t['min'], t['max']):
            if b in ('-inf', 'inf', 'nan'):
                continue
            for u in t['units']:
                keys.append((n, u))
                reqs.append('to_unit %s %s %s 1 %s' % (n, _utok(u), _utok(t['units'][0]), _fbits(float(Fr(b)))))
    out = {}
    for k, o in zip(keys, ctx.driver().run(reqs)):
        tk = o.split()
        if tk[0] == 'ok' and len(tk) == 2:
            out.setdefault(k, []).append(float(Fr(tk[1])))
    return out


def _limit_probes(lims):
    ps = []
    for l in lims:
        d = max(abs(l), 1.0) * 0.25
        ps += [[l + d], [l - d], [l + 3 * d, l - 3 * d]]
    return ps


def _has_offset(tabs, name):
    return tabs[name]['parent'] == 'Temperature'


# ---------------------------------------------------------------------------------------------
# correspondence


def correspondence(ctx):
    rng = ctx.rng
    tabs = _model_tables(ctx)
    names = sorted(tabs)
    base_names = [n for n in names if tabs[n]['parent'] == n]

    # --- type list and tables (all 109 types)
    import ladybug.datatype as dtm
    real = sorted(dtm.TYPES)
    ctx.compared += 1
    if real != names:
        ctx.disagree('type_names', {'only_model': sorted(set(names) - set(real)),
                                    'only_impl': sorted(set(real) - set(names))}, len(names), len(real))

    def impl_tables(n):
        t = _inst(n)
        units = list(t.units)
        si = [t.si_units] if isinstance(t.si_units, str) else list(t.si_units)
        ip = [t.ip_units] if isinstance(t.ip_units, str) else list(t.ip_units)
        toip = [units.index(t.to_ip([1.0], u)[1]) for u in units]
        tosi = [units.index(t.to_si([1.0], u)[1]) for u in units]

        def strict(f):
            try:
                f([1.0], 'no such unit')
                return '0'
            except ValueError:
                return '1'
        parent = [c.__name__ for c in type(t).__mro__ if c.__name__ in dtm.BASETYPES][0]
        return ' '.join(['ok', 'P:' + parent, 'units'] + [_utok(u) for u in units] + ['si'] + [_utok(u) for u in si]
                        + ['ip'] + [_utok(u) for u in ip] + ['base', '0', 'toip'] + [str(x) for x in toip]
                        + ['tosi'] + [str(x) for x in tosi]
                        + ['min', _bound_str(t.min), 'max', _bound_str(t.max), 'strict', strict(t.to_ip),
                           strict(t.to_si)])

    core.compare_batch(ctx, 'tables', names, lambda n: 'tables ' + n, impl_tables)

    # --- to_unit on every ordered pair of every base type (incl. the identity pairs)
    cases = []
    for n in base_names:
        us = tabs[n]['units']
        for u in us:
            for v in us:
                xs = _magnitudes(rng, ctx.n(6, 60))
                # round 4: the same data in every container shape, on data-type objects of every provenance
                cases.append((n, v, u, xs, SHAPES[len(cases) % len(SHAPES)], INST_HOWS[(len(cases) // 5) % len(INST_HOWS)]))
                ctx.count('pairs')
                ctx.count('pair_values', len(xs))
                base = us[tabs[n]['base']]
                ctx.count('branch:to_unit_base:%s' % ('both_base' if u == base and v == base else 'from_is_base' if u == base
                                                      else 'to_is_base' if v == base else 'two_legs'))
    # round 4 (kind e): subtypes inherit the formulas -- EVERY ordered pair of EVERY subtype (an override shows only there)
    for n in names:
        if tabs[n]['parent'] != n:
            us = tabs[n]['units']
            for u in us:
                for v in us:
                    xs = _magnitudes(rng, 3)
                    k = len(cases)
                    cases.append((n, v, u, xs[k % 7::7], SHAPES[k % len(SHAPES)], INST_HOWS[(k // 5) % len(INST_HOWS)]))
                    ctx.count('subtype_pairs')

    def impl_to_unit(c):
        arg = _shaped(c[3], c[4]) if len(c) > 4 else list(c[3])
        r = _inst(c[0], c[5] if len(c) > 5 else None).to_unit(arg, c[1], c[2])
        if [float(x) for x in arg] != [float(x) for x in c[3]]:
            return ['argument-changed'] + list(arg)
        return ['ok'] + list(r)

    def line_to_unit(c):
        return 'to_unit %s %s %s %s' % (c[0], _utok(c[1]), _utok(c[2]), _vals(c[3]))

    def slack(c):
        return OFFSET_TYPES_ABS if _has_offset(tabs, c[0]) else 0.0

    compare_num(ctx, 'to_unit', cases, line_to_unit, impl_to_unit, slack,
                key=lambda c: (c[0], c[1], c[2], len(c[3]), repr(c[3][-1])),
                inp_fn=lambda c, line: {'case': list(c), 'line': line[:400]})

    # --- malformed: unlisted units in either position (about 10 % of the stream), empty value lists
    cases = []
    for n in names:
        us = tabs[n]['units']
        others = [u for m in base_names if m != tabs[n]['parent'] for u in tabs[m]['units'] if u not in us]
        for _ in range(ctx.n(3, 12)):
            bad = rng.choice(UNKNOWN_UNITS + [rng.choice(others)] * 3 + [rng.choice(us).lower() + '_', rng.choice(us) + ' '])
            if bad in us:
                continue
            good = rng.choice(us)
            r = rng.random()
            pair = (bad, good) if r < 0.4 else (good, bad) if r < 0.8 else (bad, rng.choice(UNKNOWN_UNITS))
            cases.append((n, pair[0], pair[1], [1.0, 2.5]))
            ctx.count('malformed_units')
        cases.append((n, us[0], us[0], []))
        cases.append((n, us[-1], us[0], []))
    compare_num(ctx, 'to_unit_malformed', cases, line_to_unit, impl_to_unit, slack,
                key=lambda c: (c[0], c[1], c[2], len(c[3])))

    # --- to_ip / to_si of every type x unit (+ unlisted units)
    cases = []
    for n in names:
        us = tabs[n]['units']
        for u in us + [rng.choice(UNKNOWN_UNITS), rng.choice(UNKNOWN_UNITS)]:
            for which in ('to_ip', 'to_si'):
                cases.append((which, n, u, [0.0, 1.0, -2.5, rng.uniform(-1e4, 1e4), 10.0 ** rng.randrange(-9, 9)]))

    def impl_sys(c):
        k = len(c[2]) + len(c[1])
        vals, u = getattr(_inst(c[1], INST_HOWS[k % len(INST_HOWS)]), c[0])(_shaped(c[3], SHAPES[k % 4]), c[2])
        return ['ok', _utok(u)] + list(vals)

    compare_num(ctx, 'to_ip_si', cases, lambda c: '%s %s %s %s' % (c[0], c[1], _utok(c[2]), _vals(c[3])),
                impl_sys, lambda c: OFFSET_TYPES_ABS if _has_offset(tabs, c[1]) else 0.0,
                key=lambda c: (c[0], c[1], c[2]))

    # --- is_in_range of every type x unit around the limits
    mlims = _model_limits(ctx, tabs, names)
    cases = []
    for n in names:
        us = tabs[n]['units']
        t = tabs[n]
        lims = []
        for b in (t['min'], t['max']):
            if b not in ('-inf', 'inf', 'nan'):
                lims.append(float(Fr(b)))
        for u in us + [None, rng.choice(UNKNOWN_UNITS)]:
            probes = [[], [0.0], [1.0, -1.0], [1e30], [-1e30], [rng.uniform(-500, 500) for _ in range(3)]]
            for lim in lims:
                probes += [[lim], [lim * 2 + 1], [lim * 2 - 1], [lim / 2]]
            # both sides of every limit as the MODEL converts it to `u`
            probes += _limit_probes(mlims.get((n, u), []))
            for p in probes:
                cases.append((n, u, p))
                ctx.count('in_range_cases')
                ctx.count('branch:is_in_range:%s%s' % ('no_unit' if u is None else 'first_unit' if u == us[0] else
                                                       'converted_limits' if u in us else 'unlisted_unit',
                                                       ':no_values' if not p else ''))

    def impl_range(c, raise_exception=False):
        t = _inst(c[0])
        r = t.is_in_range(_shaped(c[2], SHAPES[len(c[2]) % 4]), c[1], raise_exception)
        return ['ok', '1' if r else '0']

    def range_ok(c):
        """skip probes that sit within float noise of a converted limit (model is exact, code is IEEE)"""
        return True

    def line_range(c):
        return 'in_range %s %s %s' % (c[0], _utok(c[1]), _vals(c[2]))

    # compare numerically robust cases only: drop probes within 1e-9 relative of a converted limit
    safe = []
    lines = [line_range(c) for c in cases]
    for c in cases:
        safe.append(c)
    outs = ctx.driver().run(lines)
    for c, line, mo in zip(safe, lines, outs):
        ctx.compared += 1
        ctx.count('op:in_range')
        try:
            io = ' '.join(impl_range(c))
        except Exception as e:
            io = 'err:' + err_name(e)
        try:
            impl_range(c, True)
            io_raise = 'ok 1'
        except ValueError:
            io_raise = 'raises'
        except Exception as e:
            io_raise = 'err:' + err_name(e)
        want_raise = 'ok 1' if mo == 'ok 1' else 'raises' if mo in ('ok 0', 'err:value') else mo
        ctx.case(('in_range', line), nontrivial=io.startswith('ok'))
        if mo != io and not _near_limit(c, tabs):
            ctx.disagree('in_range', {'case': c, 'line': line}, mo, io)
        elif want_raise != io_raise and not _near_limit(c, tabs):
            ctx.disagree('in_range_raise', {'case': c, 'line': line}, want_raise, io_raise)

    # --- Header unit acceptance
    from ladybug.header import Header
    from ladybug.analysisperiod import AnalysisPeriod
    cases = []
    for n in names:
        us = tabs[n]['units']
        for u in us + [rng.choice(UNKNOWN_UNITS) for _ in range(2)]:
            cases.append((n, u))

    def impl_header(c):
        h = Header(_inst(c[0]), c[1], AnalysisPeriod())
        return 'ok' if h.unit == c[1] else 'unit changed'

    core.compare_batch(ctx, 'header', cases, lambda c: 'header %s %s' % (c[0], _utok(c[1])), impl_header)

    # --- collections of every class through convert_* / to_* sequences
    cases = []
    for ci, cls in enumerate(COLL_CLASSES):
        for k in range(ctx.n(40, 400)):
            n = rng.choice(base_names) if rng.random() < 0.7 else rng.choice(names)
            us = tabs[n]['units']
            u0 = rng.choice(us) if rng.random() < 0.93 else rng.choice(UNKNOWN_UNITS)
            nv = 24 if cls.startswith('HourlyContinuous') else rng.choice([1, 2, 3, 5])
            vals = [rng.choice(_magnitudes(rng, 4)) for _ in range(nv)]
            ops = []
            for _ in range(rng.randrange(1, 6)):
                o = rng.choice(['cu', 'cu', 'cu', 'tu', 'tu', 'ci', 'cs', 'ti', 'ts'])
                if o in ('cu', 'tu'):
                    ops.append([o, rng.choice(us) if rng.random() < 0.9 else rng.choice(UNKNOWN_UNITS)])
                else:
                    ops.append([o])
            cases.append((cls, n, u0, vals, ops))
            ctx.count('coll:' + cls)
            ctx.count('coll_ops', len(ops))

    def line_coll(c):
        toks = []
        for o in c[4]:
            toks.append(o[0])
            if len(o) > 1:
                toks.append(_utok(o[1]))
        return 'coll %s %s %s %s %s' % ('1' if c[0].endswith('Immutable') else '0', c[1], _utok(c[2]),
                                        _vals(c[3]), ' '.join(toks))

    def impl_coll(c):
        try:
            coll = make_collection(c[0], c[1], c[2], c[3])
        except ValueError:
            return ['err:value']
        out = ['ok']
        for o in c[4]:
            out.append('|')
            try:
                res = apply_op(coll, o)
                if res is None:
                    out.append('ok')
                else:
                    out += ['new'] + state(res)
            except Exception as e:
                out.append('err:' + err_name(e))
            out.append('#')
            out += state(coll)
        return out

    compare_num(ctx, 'coll', cases, line_coll, impl_coll,
                lambda c: OFFSET_TYPES_ABS if _has_offset(tabs, c[1]) else 0.0,
                key=lambda c: json.dumps([c[0], c[1], c[2], c[4], len(c[3])]))

    _area_time_correspondence(ctx, tabs, names, base_names)
    _raw_generic_correspondence(ctx, tabs, names, base_names)
    _hist_correspondence(ctx, tabs, names, base_names)
    _thist_correspondence(ctx, tabs, names, base_names)


def _area_time_correspondence(ctx, tabs, names, base_names):
    """normalize_by_area / aggregate_by_area / to_time_aggregated / to_time_rate_of_change."""
    rng = ctx.rng
    norm_types = ['Energy', 'Power', 'VolumeFlowRate', 'ActivityLevel']
    int_types = [n for n in names if tabs[n]['parent'] in ('EnergyIntensity', 'EnergyFlux', 'VolumeFlowRateIntensity')]
    rate_types = [n for n in names if tabs[n]['parent'] in ('EnergyFlux', 'MassFlowRate', 'Power', 'Speed',
                                                            'TemperatureDelta')]
    agg_types = [n for n in names if tabs[n]['parent'] in ('EnergyIntensity', 'Mass', 'Energy', 'Distance',
                                                           'TemperatureTime')]
    area_units = tabs['Area']['units']

    def nvals(cls, ts=1):
        return 24 * ts if cls.startswith('HourlyContinuous') else rng.choice([1, 2, 3])

    def pick_vals(k):
        return [rng.choice([0.0, 1.0, -2.5, 1000.0, rng.uniform(-1e4, 1e4), 10.0 ** rng.randrange(-6, 7), 0.5,
                            7.7777777 * 10.0 ** rng.choice([-30, -15, -9, 9, 16, 25])])
                for _ in range(k)]

    cases = []
    for cls in COLL_CLASSES:
        for _ in range(ctx.n(30, 300)):
            op = rng.choice(['norm', 'agg'])
            r = rng.random()
            if op == 'norm':
                n = rng.choice(norm_types) if r < 0.8 else rng.choice(names)
            else:
                n = rng.choice(int_types) if r < 0.8 else rng.choice(names)
            u = rng.choice(tabs[n]['units'])
            r = rng.random()
            au = rng.choice(['m2', 'ft2']) if r < 0.7 else rng.choice(area_units) if r < 0.9 else \
                rng.choice(UNKNOWN_UNITS)
            if op == 'agg' and rng.random() < 0.6:
                au = 'ft2' if 'ft2' in u else 'm2'
            if op == 'norm' and rng.random() < 0.5:
                au = 'ft2' if ('Btu' in u or 'ft' in u or u in ('cfm', 'gph')) else 'm2'
            area = rng.choice([2.0, 0.5, 100.0, rng.uniform(0.1, 1e4), -3.0, 7, 1e-9, 3e12]) if rng.random() < 0.93 else 0.0
            form = {'ap': rng.choice(AP_FORMS), 'vshape': rng.choice(SHAPES[:4]), 'how': rng.choice(INST_HOWS),
                    'meta': rng.choice([None, {}, {'type': 'Zone'}, {'type': 'Zone Intensity'}])}
            cases.append((op, cls, n, u, pick_vals(nvals(cls)), area, au, form))
            ctx.count('area_op:' + op)

    def line_area(c):
        return '%s %s %s %s %s %s %s' % (c[0], '1' if c[1].endswith('Immutable') else '0', c[2], _utok(c[3]),
                                        _vals(c[4]), _fbits(c[5]), _utok(c[6]))

    def impl_area(c):
        coll = make_collection(c[1], c[2], c[3], c[4], form=c[7])
        res = coll.normalize_by_area(c[5], c[6]) if c[0] == 'norm' else coll.aggregate_by_area(c[5], c[6])
        return ['ok'] + state(res)

    compare_num(ctx, 'area', cases, line_area, impl_area,
                key=lambda c: json.dumps([c[0], c[1], c[2], c[3], c[6], c[5], len(c[4])]))

    cases = []
    for cls in COLL_CLASSES:
        if not (cls.startswith('Hourly') or cls.startswith('Daily')):
            continue
        for _ in range(ctx.n(30, 300)):
            op = rng.choice(['tagg', 'trate'])
            r = rng.random()
            if op == 'tagg':
                n = rng.choice(rate_types) if r < 0.85 else rng.choice(names)
            else:
                n = rng.choice(agg_types) if r < 0.85 else rng.choice(names)
            u = rng.choice(tabs[n]['units'])
            ts = 1
            if cls.startswith('HourlyContinuous'):
                ts = rng.choice([1, 1, 2, 3, 4, 5, 6, 10, 12] if ctx.quick else ALL_TIMESTEPS)
            elif cls.startswith('Hourly'):
                ts = rng.choice(ALL_TIMESTEPS)
            form = {'ap': rng.choice(AP_FORMS), 'vshape': rng.choice(SHAPES[:4]), 'how': rng.choice(INST_HOWS),
                    'order': rng.choice(['sorted', 'reversed', 'dup'])}
            cases.append((op, cls, n, u, pick_vals(nvals(cls, ts)), ts, rng.random() < 0.3, form))
            ctx.count('time_op:' + op)
            ctx.count('time_op:timestep:%d' % ts)

    def step_of(c):
        return float(c[5]) if c[1].startswith('Hourly') else 1. / 24.

    def line_time(c):
        return '%s %s %s %s %s %s' % (c[0], '1' if c[1].endswith('Immutable') else '0', c[2], _utok(c[3]),
                                     _vals(c[4]), _fbits(step_of(c)))

    def impl_time(c):
        coll = make_collection(c[1], c[2], c[3], c[4], c[5], c[6], c[7])
        res = coll.to_time_aggregated() if c[0] == 'tagg' else coll.to_time_rate_of_change()
        return ['ok'] + state(res)

    compare_num(ctx, 'time', cases, line_time, impl_time,
                key=lambda c: json.dumps([c[0], c[1], c[2], c[3], c[5], len(c[4])]))


def _raw_generic_correspondence(ctx, tabs, names, base_names):
    """`_is_numeric` (values with non-numbers) and GenericType."""
    rng = ctx.rng
    cases = []
    for _ in range(ctx.n(300, 3000)):
        n = rng.choice(base_names)
        us = tabs[n]['units']
        u = rng.choice(us) if rng.random() < 0.85 else rng.choice(UNKNOWN_UNITS)
        f = rng.choice(us) if rng.random() < 0.85 else rng.choice(UNKNOWN_UNITS)
        if rng.random() < 0.3:
            u = f = us[0]
        k = rng.choice([0, 1, 2, 3])
        vals = []
        for i in range(k):
            r = rng.random()
            vals.append(None if r < 0.3 else rng.choice([0.0, 1.0, -40.0, rng.uniform(-100, 100)]))
        cases.append((n, u, f, vals))
        ctx.count('raw:first_non_number' if vals and vals[0] is None else
                  'raw:later_non_number' if None in vals else 'raw:all_numbers')

    def line_raw(c):
        return 'raw %s %s %s %d %s' % (c[0], _utok(c[1]), _utok(c[2]), len(c[3]),
                                       ' '.join('str' if v is None else _fbits(v) for v in c[3]))

    def impl_raw(c):
        r = _inst(c[0]).to_unit([('abc' if v is None else v) for v in c[3]], c[1], c[2])
        return ['ok'] + ['str' if isinstance(v, str) else v for v in r]

    compare_num(ctx, 'raw', cases, line_raw, impl_raw,
                lambda c: OFFSET_TYPES_ABS if _has_offset(tabs, c[0]) else 0.0,
                key=lambda c: json.dumps([c[0], c[1], c[2], [v is None for v in c[3]]]))

    from ladybug.datatype.generic import GenericType
    gunits = ['widgets', 'kWh', 'fl oz', '%', 'C']
    cases = []
    for g in gunits:
        for u in gunits + ['', 'Widgets']:
            cases.append(('g_to_unit', g, u, rng.choice(gunits), [1.0, 2.0]))
            cases.append(('g_to_sys', g, u, 'ip', [1.0, -2.5]))
            cases.append(('g_to_sys', g, u, 'si', [rng.uniform(-5, 5)]))
            cases.append(('g_header', g, u))
            for lo, hi in ((None, None), (0.0, None), (-1.0, 1.0), (None, 10.0)):
                for vals in ([], [0.5], [-2.0, 0.5], [11.0], [0.0, 1.0]):
                    cases.append(('g_in_range', g, u, lo, hi, vals))
                    cases.append(('g_in_range', g, None, lo, hi, vals))

    def bnd(x, neg):
        return ('-inf' if neg else 'inf') if x is None else _fbits(x)

    def line_g(c):
        if c[0] == 'g_to_unit':
            return 'g_to_unit %s %s %s %s' % (_utok(c[1]), _utok(c[2]), _utok(c[3]), _vals(c[4]))
        if c[0] == 'g_to_sys':
            return 'g_to_sys %s %s %s' % (_utok(c[1]), _utok(c[2]), _vals(c[4]))
        if c[0] == 'g_header':
            return 'g_header %s %s' % (_utok(c[1]), _utok(c[2]))
        return 'g_in_range %s %s %s %s %s' % (_utok(c[1]), bnd(c[3], True), bnd(c[4], False), _utok(c[2]), _vals(c[5]))

    def impl_g(c):
        from ladybug.header import Header
        from ladybug.analysisperiod import AnalysisPeriod
        if c[0] == 'g_in_range':
            g = GenericType('My Type', c[1], float('-inf') if c[3] is None else c[3],
                            float('inf') if c[4] is None else c[4])
            return ['ok', 1.0 if g.is_in_range(list(c[5]), c[2], False) else 0.0]
        g = GenericType('My Type', c[1])
        if c[0] == 'g_to_unit':
            return ['ok'] + list(g.to_unit(list(c[4]), c[2], c[3]))
        if c[0] == 'g_to_sys':
            vals, u = (g.to_ip if c[3] == 'ip' else g.to_si)(list(c[4]), c[2])
            return ['ok', _utok(u)] + list(vals)
        h = Header(g, c[2], AnalysisPeriod())
        return ['ok'] if h.unit == c[2] else ['unit changed']

    compare_num(ctx, 'generic', cases, line_g, impl_g, key=lambda c: json.dumps(c))


# ---------------------------------------------------------------------------------------------
# ROUND 3 -- histories (correspondence side): heaps of collections vs the reference-level Lean machine,
# call histories on shared data-type instances vs the (stateless) model

ALL_TIMESTEPS = [1, 2, 3, 4, 5, 6, 10, 12, 15, 20, 30, 60]
HIST_MAX_OBJS = 7


def _hist_step_arg(spec):
    return float(spec['timestep']) if spec['cls'].startswith('Hourly') else 1. / 24.


def _hist_tok(o, spec):
    k = o[0]
    if k in ('cu', 'tu'):
        return '%s %d %s' % (k, o[1], _utok(o[2]))
    if k in ('ci', 'cs', 'ti', 'ts', 'dup', 'imm', 'mut', 'rng'):
        return '%s %d' % (k, o[1])
    if k == 'set':
        return 'set %d %d %s' % (o[1], o[2], _fbits(o[3]))
    if k == 'vals':
        return 'vals %d %s' % (o[1], _vals(o[2]))
    if k in ('norm', 'agg'):
        return '%s %d %s %s' % (k, o[1], _fbits(o[2]), _utok(o[3]))
    if k in ('tagg', 'trate'):
        return '%s %d %s' % (k, o[1], _fbits(_hist_step_arg(spec)))
    raise ValueError('unknown history op %r' % (k,))


def _hist_line(spec, ops):
    return 'hist %s %s %s %s %s' % ('1' if spec['cls'].endswith('Immutable') else '0', spec['type'],
                                    _utok(spec['unit']), _vals(spec['values']),
                                    ' '.join(_hist_tok(o, spec) for o in ops))


def hist_exec(heap, o):
    """One history operation on the real objects: ('ok',) | ('new', k) | ('flag', b); raises what the code raises."""
    c = heap[o[1]]
    k = o[0]
    if k == 'cu':
        c.convert_to_unit(o[2])
    elif k == 'ci':
        c.convert_to_ip()
    elif k == 'cs':
        c.convert_to_si()
    elif k == 'set':
        c[o[2]] = o[3]
    elif k == 'vals':
        c.values = _shaped(o[2], o[3] if len(o) > 3 else 'list')
    elif k == 'rng':
        return ('flag', 1 if c.is_in_data_type_range(False) else 0)
    else:
        if k == 'tu':
            new = c.to_unit(o[2])
        elif k == 'ti':
            new = c.to_ip()
        elif k == 'ts':
            new = c.to_si()
        elif k == 'dup':
            new = c.duplicate()
        elif k == 'imm':
            new = c.to_immutable()
        elif k == 'mut':
            new = c.to_mutable()
        elif k == 'norm':
            new = c.normalize_by_area(o[2], o[3])
        elif k == 'agg':
            new = c.aggregate_by_area(o[2], o[3])
        elif k == 'tagg':
            new = c.to_time_aggregated()
        elif k == 'trate':
            new = c.to_time_rate_of_change()
        else:
            raise KeyError(k)
        heap.append(new)
        return ('new', len(heap) - 1)
    return ('ok',)


def _parse_heap(out):
    """The heap (shape only) after the last op of a model answer."""
    if not out.startswith('ok'):
        return None
    segs = out.split(' | ')
    if len(segs) == 1:
        return []
    heap = []
    for st in segs[-1].split(' # ', 1)[1].split(' ; '):
        t = st.split()
        heap.append({'imm': t[0] == 'I:1', 'type': t[1][2:], 'unit': _uparse(t[2]), 'n': len(t) - 3})
    return heap


def _pick_weighted(rng, pairs):
    tot = sum(w for _k, w in pairs)
    r = rng.uniform(0, tot)
    for k, w in pairs:
        r -= w
        if r <= 0:
            return k
    return pairs[-1][0]


def _hist_values(rng, n):
    return [rng.choice([0.0, 1.0, -1.0, 0.5, 20.0, 100.0, -40.0, 1000.0, 1e-6, 1e6, rng.uniform(-100, 100),
                        float(rng.randrange(-50, 50))]) for _ in range(n)]


def _propose(rng, heap, spec, tabs, other_units):
    n = len(heap)
    r = rng.random()
    i = n - 1 if r < 0.4 else 0 if r < 0.65 else rng.randrange(n)
    ob = heap[i]
    us = tabs[ob['type']]['units'] if ob['type'] in tabs else ['']
    w = [('cu', 14), ('ci', 5), ('cs', 5), ('set', 5), ('vals', 4), ('rng', 8)]
    if n < HIST_MAX_OBJS:
        w += [('tu', 8), ('ti', 3), ('ts', 3), ('dup', 3), ('imm', 8), ('mut', 5), ('norm', 5), ('agg', 5)]
        if spec['cls'].startswith('Hourly') or spec['cls'].startswith('Daily'):
            w += [('tagg', 4), ('trate', 4)]
    k = _pick_weighted(rng, w)
    if k in ('cu', 'tu'):
        r = rng.random()
        u = rng.choice(us) if r < 0.85 else rng.choice(UNKNOWN_UNITS) if r < 0.93 else rng.choice(other_units)
        return [k, i, u]
    if k == 'set':
        idx = rng.randrange(ob['n']) if (ob['n'] and rng.random() < 0.85) else ob['n'] + rng.randrange(3)
        return [k, i, idx, _hist_values(rng, 1)[0]]
    if k == 'vals':
        r = rng.random()
        m = ob['n'] if r < 0.75 else ob['n'] + 1 if r < 0.9 else max(ob['n'] - 1, 0)
        return [k, i, _hist_values(rng, m), rng.choice(SHAPES[:4])]
    if k in ('norm', 'agg'):
        u = ob['unit']
        ipish = ('Btu' in u or 'ft' in u or u in ('cfm', 'gph', 'gpm'))
        r = rng.random()
        au = ('ft2' if ipish else 'm2') if r < 0.7 else rng.choice(['m2', 'ft2']) if r < 0.9 else \
            rng.choice(['mm2', 'ha', '', 'M2', 'sqm'])
        area = rng.choice([2.0, 0.5, 100.0, rng.uniform(0.1, 1e3), -3.0]) if rng.random() < 0.9 else 0.0
        return [k, i, area, au]
    return [k, i]


def _hist_specs(ctx, tabs, names, base_names, per_class):
    rng = ctx.rng
    special = [n for n in names if tabs[n]['parent'] in (
        'Energy', 'Power', 'VolumeFlowRate', 'EnergyIntensity', 'EnergyFlux', 'VolumeFlowRateIntensity',
        'MassFlowRate', 'Speed', 'TemperatureDelta', 'Mass', 'Distance', 'TemperatureTime')]
    bounded = [n for n in names if tabs[n]['min'] not in ('-inf', 'nan') or tabs[n]['max'] not in ('inf', 'nan')]
    specs = []
    for cls in COLL_CLASSES:
        for _ in range(per_class):
            r = rng.random()
            n = rng.choice(special) if r < 0.45 else rng.choice(bounded) if r < 0.65 else \
                rng.choice(base_names) if r < 0.9 else rng.choice(names)
            ts = 1
            if cls.startswith('HourlyContinuous'):
                nv = 24
            else:
                nv = rng.choice([1, 1, 2, 3])
                if cls.startswith('Hourly'):
                    ts = rng.choice(ALL_TIMESTEPS)
            specs.append({'cls': cls, 'type': n, 'unit': rng.choice(tabs[n]['units']),
                          'values': _hist_values(rng, nv), 'timestep': ts, 'leap': rng.random() < 0.3,
                          'form': {'ap': rng.choice(AP_FORMS), 'vshape': rng.choice(SHAPES[:4]),
                                   'meta': rng.choice([None, {}, {'type': 'Zone'}]),
                                   'order': rng.choice(['sorted', 'sorted', 'reversed', 'dup']),
                                   'how': rng.choice(INST_HOWS)}})
            ctx.count('hist:ap:' + specs[-1]['form']['ap'])
            ctx.count('hist:cls:' + cls)
            ctx.count('hist:timestep:%d' % ts)
            ctx.count('hist:single_value' if nv == 1 else 'hist:several_values')
            ctx.count('hist:leap' if specs[-1]['leap'] else 'hist:non_leap')
    return specs


def _hist_impl(spec, ops, rng=None):
    """The history on the real code, in the token shape of the model answer."""
    try:
        heap = [make_collection(spec['cls'], spec['type'], spec['unit'], spec['values'], spec['timestep'],
                                spec['leap'], spec.get('form'))]
    except ValueError:
        return ['err:value']
    out = ['ok']
    for o in ops:
        out.append('|')
        try:
            res = hist_exec(heap, o)
            out += list(res)
        except Exception as e:
            out.append('err:' + err_name(e))
        out.append('#')
        # read every object (in a random order, twice): reads must not depend on their order or number
        order = list(range(len(heap)))
        if rng is not None:
            rng.shuffle(order)
        first = {j: state(heap[j]) for j in order}
        if rng is not None:
            rng.shuffle(order)
        second = {j: state(heap[j]) for j in order}
        for j in range(len(heap)):
            if j:
                out.append(';')
            out += first[j] if first[j] == second[j] else ['unstable-read'] + second[j]
    return out


def _hist_fix(mi, io):
    """`flag ~` of the model (value within 1e-9 of a limit): the flag is not compared."""
    if '~' not in mi or len(mi) != len(io):
        return io
    return ['~' if m == '~' else x for m, x in zip(mi, io)]


def _hist_correspondence(ctx, tabs, names, base_names):
    rng = ctx.rng
    drv = ctx.driver()
    other_units = sorted({u for n in base_names for u in tabs[n]['units']})
    specs = _hist_specs(ctx, tabs, names, base_names, ctx.n(60, 1000))
    hs = [{'spec': sp, 'ops': [], 'len': rng.randrange(3, 11)} for sp in specs]
    heaps = {}
    for h in hs:
        heaps[id(h)] = [{'imm': h['spec']['cls'].endswith('Immutable'), 'type': h['spec']['type'],
                         'unit': h['spec']['unit'], 'n': len(h['spec']['values'])}]
    for rnd in range(10):
        active = [h for h in hs if len(h['ops']) < h['len'] and heaps[id(h)]]
        if not active:
            break
        for h in active:
            o = _propose(rng, heaps[id(h)], h['spec'], tabs, other_units)
            h['ops'].append(o)
            ctx.count('hist_op:' + o[0])
        outs = drv.run([_hist_line(h['spec'], h['ops']) for h in active])
        for h, o in zip(active, outs):
            hp = _parse_heap(o)
            if hp is None:
                raise core.MachineryError('driver refuses history: %s -> %s' % (_hist_line(h['spec'], h['ops']), o[:200]))
            heaps[id(h)] = hp
    for h in hs:
        ctx.count('hist_objects', len(heaps[id(h)]))
        ctx.count('hist_with_immutable_twin' if any(x['imm'] for x in heaps[id(h)][1:]) else 'hist_without_twin')

    compare_num(ctx, 'hist', hs, lambda h: _hist_line(h['spec'], h['ops']),
                lambda h: _hist_impl(h['spec'], h['ops'], rng),
                lambda h: OFFSET_TYPES_ABS * 10 if _has_offset(tabs, h['spec']['type']) else 0.0,
                key=lambda h: json.dumps([h['spec']['cls'], h['spec']['type'], h['spec']['unit'], h['ops']]),
                fix=_hist_fix, inp_fn=lambda h, line: {'spec': h['spec'], 'ops': h['ops'], 'line': line})
    ctx.c06_hists = hs


def _thist_correspondence(ctx, tabs, names, base_names):
    """Call histories on SHARED data-type instances (one per type for the whole history), siblings of one base type
    asked the same question one after the other, refused calls before ordinary ones, every question repeated:
    the model is stateless, so every answer must be the answer of a fresh object."""
    global _POOL
    rng = ctx.rng
    mlims = _model_limits(ctx, tabs, names)
    fams = {}
    for n in names:
        fams.setdefault(tabs[n]['parent'], []).append(n)
    cases = []
    for p, sibs in sorted(fams.items()):
        us = tabs[p]['units']
        sibs = list(sibs)
        for u in us[1:] + us[:1] + [None]:
            rng.shuffle(sibs)
            for n in sibs:
                lims = mlims.get((n, u if u is not None else us[0]), [])
                probes = _limit_probes(lims) + [[1e30], [-1e30], [0.0]]
                for pr in probes[:ctx.n(4, 9)] if lims else probes[:2]:
                    cases.append(('in_range', n, u, pr))
    for n in names:
        us = tabs[n]['units']
        k = ctx.n(2, 6) if tabs[n]['parent'] != n else ctx.n(4, 12)
        for _ in range(k):
            a, b, c = rng.choice(us), rng.choice(us), rng.choice(us)
            xs = [rng.choice([0.0, 1.0, -40.0, 100.0, rng.uniform(-1e3, 1e3)]) for _ in range(rng.choice([1, 1, 2]))]
            bad = rng.choice(UNKNOWN_UNITS)
            seq = [('to_unit', n, b, a, xs), ('to_unit', n, c, b, xs), ('to_unit', n, b, a, xs),     # other pair, repeat
                   ('to_unit', n, bad, a, xs), ('to_unit', n, b, a, xs),                         # refused, then again
                   ('to_unit', n, b, bad, xs), ('to_ip', n, a, xs), ('to_si', n, a, xs), ('to_ip', n, a, xs),
                   ('raw', n, b, a, [None] + xs), ('to_unit', n, c, a, xs),
                   ('in_range_raise', n, a, [1e30, -1e30]), ('to_unit', n, a, b, xs)]
            cases.append(('block', seq))
    # interleave: blocks stay in order internally, but blocks of different types are merged at random
    singles = [c for c in cases if c[0] != 'block']
    blocks = [list(c[1]) for c in cases if c[0] == 'block']
    rng.shuffle(blocks)
    seq = []
    cursor = 0
    while blocks or cursor < len(singles):
        if blocks and (cursor >= len(singles) or rng.random() < 0.5):
            j = rng.randrange(min(len(blocks), 4))
            seq.append(blocks[j].pop(0))
            if not blocks[j]:
                blocks.pop(j)
        else:
            seq.append(singles[cursor])
            cursor += 1
    for c in seq:
        ctx.count('thist:' + c[0])

    def line(c):
        if c[0] == 'to_unit':
            return 'to_unit %s %s %s %s' % (c[1], _utok(c[2]), _utok(c[3]), _vals(c[4]))
        if c[0] in ('to_ip', 'to_si'):
            return '%s %s %s %s' % (c[0], c[1], _utok(c[2]), _vals(c[3]))
        if c[0] == 'raw':
            return 'raw %s %s %s %d %s' % (c[1], _utok(c[2]), _utok(c[3]), len(c[4]),
                                           ' '.join('str' if v is None else _fbits(v) for v in c[4]))
        return 'in_range %s %s %s' % (c[1], _utok(c[2]), _vals(c[3]))

    def impl(c):
        t = _inst(c[1])
        if c[0] == 'to_unit':
            arg = list(c[4])
            r = t.to_unit(arg, c[2], c[3])
            return ['ok'] + list(r) if arg == list(c[4]) else ['argument-changed'] + arg
        if c[0] in ('to_ip', 'to_si'):
            arg = list(c[3])
            vals, u = getattr(t, c[0])(arg, c[2])
            return ['ok', _utok(u)] + list(vals) if arg == list(c[3]) else ['argument-changed'] + arg
        if c[0] == 'raw':
            r = t.to_unit([('abc' if v is None else v) for v in c[4]], c[2], c[3])
            return ['ok'] + ['str' if isinstance(v, str) else v for v in r]
        if c[0] == 'in_range_raise':
            try:
                t.is_in_range(list(c[3]), c[2], True)
                return ['ok', 1]
            except ValueError:
                return ['ok', 0]
        return ['ok', 1 if t.is_in_range(list(c[3]), c[2], False) else 0]

    def fix(mi, io):
        # in_range_raise: the model's err:value (unlisted unit) and `ok 0` are both a ValueError of the code
        return io

    keep = [c for c in seq if not (c[0].startswith('in_range') and _near_limit((c[1], c[2], c[3]), tabs))]
    _POOL = {}
    try:
        compare_num(ctx, 'thist', keep, line, impl,
                    lambda c: OFFSET_TYPES_ABS if _has_offset(tabs, c[1]) else 0.0,
                    key=lambda c: json.dumps(c), fix=fix)
    finally:
        _POOL = None


def _near_limit(c, tabs):
    """An is_in_range probe within float noise of a converted limit (exact model vs IEEE code)."""
    n, u, p = c
    t = tabs[n]
    if (u is None or u == t['units'][0]) and p:
        # first unit: no conversion; only a limit that is not a float (e.g. -273.15) can differ between the exact
        # model and the code, and only for a probe within rounding of it
        lims = [Fr(b) for b in (t['min'], t['max']) if b not in ('-inf', 'inf', 'nan')]
        return any(Fr(x) != l and abs(Fr(x) - l) <= Fr(1, 10 ** 9) * max(1, abs(l)) for x in p for l in lims
                   if math.isfinite(x))
    if u is None or u not in t['units'] or not p:
        return False
    try:
        inst = _inst(n)
        lims = []
        for b in (inst.min, inst.max):
            if b not in (float('-inf'), float('inf')):
                lims.append(inst.to_unit([float(b)], u, t['units'][0])[0])
        return any(abs(x - l) <= 1e-9 * max(1.0, abs(l)) for x in p for l in lims)
    except Exception:
        return False


AP_FORMS = ['ctor', 'string', 'strargs', 'dict', 'repr']


def _make_period(form, end_day, timestep, leap, whole_year):
    """The same analysis period through every way a user can write it down (round 4, kind i)."""
    from ladybug.analysisperiod import AnalysisPeriod
    em, ed = (12, 31) if whole_year else (1, end_day)
    if form == 'string':
        return AnalysisPeriod.from_string('1/1 to %d/%d between 0 and 23 @%d%s' % (em, ed, timestep, '*' if leap else ''))
    if form == 'strargs':
        return AnalysisPeriod('1', '01', '0', str(em), '%02d' % ed, '23', timestep, leap)
    if form == 'dict':
        return AnalysisPeriod.from_dict({'st_month': 1, 'st_day': 1, 'st_hour': 0, 'end_month': em, 'end_day': ed,
                                         'end_hour': 23, 'timestep': timestep, 'is_leap_year': leap})
    ap = AnalysisPeriod(1, 1, 0, em, ed, 23, timestep, leap)
    if form == 'repr':
        return AnalysisPeriod.from_string(str(ap))
    return ap


def make_collection(cls, tname, unit, values, timestep=1, leap=False, form=None):
    """A small collection of class `cls` with len(values) values (built from plain numbers).  `form` (round 4) picks
    the way the pieces are written down: {'ap': one of AP_FORMS, 'vshape': container shape of the values, 'meta':
    header metadata | None, 'order': 'sorted' | 'reversed' | 'dup' (datetimes), 'how': data-type provenance}."""
    from ladybug import datacollection as dc
    from ladybug import datacollectionimmutable as dci
    from ladybug.header import Header
    from ladybug.dt import DateTime
    form = form or {}
    k = len(values)
    klass = getattr(dc, cls, None) or getattr(dci, cls)
    dt = _inst(tname, form.get('how'))
    vals = _shaped(values, form.get('vshape', 'list'))
    meta = form.get('meta')
    meta = dict(meta) if isinstance(meta, dict) else None
    order = form.get('order', 'sorted')

    def arrange(keys):
        if order == 'reversed':
            return list(reversed(keys))
        if order == 'dup':
            return [keys[0]] * len(keys)
        return keys
    if cls.startswith('HourlyContinuous'):
        # whole days only (k is a multiple of 24 * timestep)
        ap = _make_period(form.get('ap', 'ctor'), k // (24 * timestep), timestep, leap, False)
        return klass(Header(dt, unit, ap, meta), vals)
    ap = _make_period(form.get('ap', 'ctor'), 31, timestep, leap, True)
    if cls.startswith('HourlyDiscontinuous'):
        return klass(Header(dt, unit, ap, meta), vals, arrange([DateTime(1, 1 + 2 * i, 3, 0, leap) for i in range(k)]))
    if cls.startswith('Daily'):
        return klass(Header(dt, unit, ap, meta), vals, arrange([1 + 40 * i for i in range(k)]))
    if cls.startswith('MonthlyPerHour'):
        return klass(Header(dt, unit, ap, meta), vals, arrange([(1 + i, 5) for i in range(k)]))
    return klass(Header(dt, unit, ap, meta), vals, arrange([1 + i for i in range(k)]))


def state(coll):
    return ['I:1' if type(coll).__name__.endswith('Immutable') else 'I:0',
            'T:' + type(coll.header.data_type).__name__, _utok(coll.header.unit)] + [v for v in coll.values]


def apply_op(coll, o):
    if o[0] == 'cu':
        return coll.convert_to_unit(o[1])
    if o[0] == 'ci':
        return coll.convert_to_ip()
    if o[0] == 'cs':
        return coll.convert_to_si()
    if o[0] == 'tu':
        return coll.to_unit(o[1])
    if o[0] == 'ti':
        return coll.to_ip()
    if o[0] == 'ts':
        return coll.to_si()
    raise ValueError('unknown op')


# ---------------------------------------------------------------------------------------------
# property oracle: the statement of C06 on the real code, against an SI table written from the
# definitions of the units (independent of ladybug's factors and of the Lean model)

PI = Fr('3.14159265358979323846264338327950288419716939937510582097494')
_ft, _in, _mi = Fr('0.3048'), Fr('0.0254'), Fr('1609.344')
_lb = Fr('0.45359237')
_oz, _ton = _lb / 16, 2000 * _lb
_g0 = Fr('9.80665')
_min, _h, _day = 60, 3600, 86400
_Btu = Fr('1055.05585262')
_kBtu = 1000 * _Btu
_Wh, _kWh = Fr(3600), Fr(3600000)
_cal = Fr('4.184')
_Btuh = _Btu / _h
_dF = Fr(5, 9)
_gal = 231 * _in ** 3
_floz = _gal / 128
_L = Fr(1, 1000)
_K0 = Fr('273.15')

# value in coherent SI units = a * x (+ b): unit -> a | (a, b)
SI = {
    'Angle': {'degrees': PI / 180, 'radians': 1},
    'Area': {'m2': 1, 'ft2': _ft ** 2, 'mm2': Fr(1, 10 ** 6), 'in2': _in ** 2, 'km2': 10 ** 6, 'mi2': _mi ** 2,
             'cm2': Fr(1, 10 ** 4), 'ha': 10 ** 4, 'acre': 43560 * _ft ** 2},
    'Conductance': {'W/K': 1, 'Btu/h-F': _Btuh / _dF},
    'Conductivity': {'W/m-K': 1, 'Btu/h-ft-F': _Btuh / (_ft * _dF), 'cal/s-cm-C': _cal / Fr(1, 100)},
    'Current': {'A': 1, 'mA': Fr(1, 1000)},
    'Density': {'kg/m3': 1, 'lb/ft3': _lb / _ft ** 3, 'g/cm3': 1000, 'oz/in3': _oz / _in ** 3},
    'Distance': {'m': 1, 'ft': _ft, 'mm': Fr(1, 1000), 'in': _in, 'km': 1000, 'mi': _mi, 'cm': Fr(1, 100)},
    'Energy': {'kWh': _kWh, 'kBtu': _kBtu, 'Wh': _Wh, 'Btu': _Btu, 'MMBtu': 10 ** 6 * _Btu, 'J': 1, 'kJ': 1000,
               'MJ': 10 ** 6, 'GJ': 10 ** 9, 'therm': 10 ** 5 * _Btu, 'cal': _cal, 'kcal': 1000 * _cal},
    'EnergyFlux': {'W/m2': 1, 'Btu/h-ft2': _Btuh / _ft ** 2, 'kW/m2': 1000, 'kBtu/h-ft2': 1000 * _Btuh / _ft ** 2,
                   'W/ft2': 1 / _ft ** 2, 'met': Fr('58.15')},
    'EnergyIntensity': {'kWh/m2': _kWh, 'kBtu/ft2': _kBtu / _ft ** 2, 'Wh/m2': _Wh, 'Btu/ft2': _Btu / _ft ** 2,
                        'kWh/ft2': _kWh / _ft ** 2, 'kBtu/m2': _kBtu},
    'Fraction': {'fraction': 1, '%': Fr(1, 100), 'tenths': Fr(1, 10), 'thousandths': Fr(1, 1000),
                 'okta': Fr(1, 8)},
    'Illuminance': {'lux': 1, 'fc': 1 / _ft ** 2},
    'Luminance': {'cd/m2': 1, 'cd/ft2': 1 / _ft ** 2},
    'Mass': {'kg': 1, 'lb': _lb, 'g': Fr(1, 1000), 'tonne': 1000, 'ton': _ton, 'oz': _oz},
    'MassFlowRate': {'kg/s': 1, 'lb/s': _lb, 'g/s': Fr(1, 1000), 'oz/s': _oz},
    'Power': {'W': 1, 'Btu/h': _Btuh, 'kW': 1000, 'kBtu/h': 1000 * _Btuh, 'TR': 12000 * _Btuh,
              'hp': 550 * _ft * _lb * _g0},
    'Pressure': {'Pa': 1, 'inHg': _in * Fr('13595.1') * _g0, 'atm': 101325, 'bar': 10 ** 5,
                 'Torr': Fr(101325, 760), 'psi': _lb * _g0 / _in ** 2, 'inH2O': _in * 1000 * _g0},
    'RValue': {'K-m2/W': 1, 'F-ft2-h/Btu': _dF * _ft ** 2 / _Btuh, 'clo': Fr('0.155'), 'm2-K/W': 1,
               'h-ft2-F/Btu': _dF * _ft ** 2 / _Btuh},
    'Resistance': {'K/W': 1, 'F-h/Btu': _dF / _Btuh},
    'Resistivity': {'K-m/W': 1, 'F-ft-h/Btu': _dF * _ft / _Btuh},
    'SpecificEnergy': {'kWh/kg': _kWh, 'kBtu/lb': _kBtu / _lb, 'Wh/kg': _Wh, 'Btu/lb': _Btu / _lb, 'J/kg': 1,
                       'kJ/kg': 1000},
    'SpecificHeatCapacity': {'J/kg-K': 1, 'Btu/lb-F': _Btu / (_lb * _dF), 'kWh/kg-K': _kWh,
                             'kBtu/lb-F': _kBtu / (_lb * _dF), 'kJ/kg-K': 1000},
    'Speed': {'m/s': 1, 'mph': _mi / _h, 'km/h': Fr(1000, 3600), 'knot': Fr(1852, 3600), 'ft/s': _ft,
              'ft/min': _ft / 60},
    'Temperature': {'C': (1, _K0), 'F': (_dF, _K0 - 32 * _dF), 'K': (1, 0)},
    'TemperatureDelta': {'dC': 1, 'dF': _dF, 'dK': 1},
    'TemperatureTime': {'degC-days': _day, 'degF-days': _dF * _day, 'degC-hours': _h, 'degF-hours': _dF * _h},
    'ThermalCondition': {'condition': 1, 'PMV': 1},
    'Time': {'hr': _h, 'min': 60, 'sec': 1, 'day': _day},
    'UValue': {'W/m2-K': 1, 'Btu/h-ft2-F': _Btuh / (_ft ** 2 * _dF)},
    'Voltage': {'V': 1, 'kV': 1000},
    'Volume': {'m3': 1, 'ft3': _ft ** 3, 'mm3': Fr(1, 10 ** 9), 'in3': _in ** 3, 'km3': 10 ** 9, 'mi3': _mi ** 3,
               'L': _L, 'mL': _L / 1000, 'gal': _gal, 'fl oz': _floz},
    'VolumeFlowRate': {'m3/s': 1, 'ft3/s': _ft ** 3, 'L/s': _L, 'cfm': _ft ** 3 / 60, 'gpm': _gal / 60,
                       'mL/s': _L / 1000, 'fl oz/s': _floz, 'L/h': _L / _h, 'gph': _gal / _h},
    'VolumeFlowRateIntensity': {'m3/s-m2': 1, 'ft3/s-ft2': _ft, 'L/s-m2': _L, 'cfm/ft2': _ft / 60,
                                'L/h-m2': _L / _h, 'gph/ft2': _gal / _h / _ft ** 2},
    'VolumetricHeatCapacity': {'J/m3-K': 1, 'Btu/ft3-F': _Btu / (_ft ** 3 * _dF), 'kWh/m3-K': _kWh,
                               'kBtu/ft3-F': _kBtu / (_ft ** 3 * _dF), 'kJ/m3-K': 1000, 'MJ/m3-K': 10 ** 6},
}

# the 75 subtypes named by the statement ("109 subtypes") convert with the formulas of their base type
SI_TOL = Fr(2, 1000)
RT_TOL = Fr(2, 100000)


def _ab(v):
    return (Fr(v[0]), Fr(v[1])) if isinstance(v, tuple) else (Fr(v), Fr(0))


def _root(inst):
    for c in type(inst).__mro__:
        if c.__name__ in SI:
            return c.__name__
    return None


def _si_conv(root, u, v):
    """(a, b): x units u are a*x + b units v by the SI definitions."""
    au, bu = _ab(SI[root][u])
    av, bv = _ab(SI[root][v])
    return au / av, (bu - bv) / av


def _units_of(inst):
    return list(inst.units)


def _as_tuple(x):
    return (x,) if isinstance(x, str) else tuple(x)


def check_case(op, inp):
    if op == 'hist':
        return _check_hist(inp)
    if op == 'thist':
        return _check_thist(inp)
    if op == 'order':
        return _check_order(inp)
    tname = inp['type']
    shape = inp.get('shape', 'list')
    try:
        inst = _inst(tname, inp.get('how'))
    except Exception as e:
        return {'required': 'data type %s exists' % tname, 'observed': repr(e), 'sig': {'type': tname}}
    root = _root(inst)
    if root is None:
        return {'required': 'base type with SI definitions', 'observed': tname, 'sig': {'type': tname}}
    sig = {'type': root}
    if op == 'units_known':
        missing = [u for u in inst.units if u not in SI[root]]
        if missing:
            return {'required': 'every listed unit has an SI definition in the oracle table',
                    'observed': 'no definition for %r' % missing, 'sig': dict(sig, unit=missing[0])}
        return None
    if op in ('si_pair', 'roundtrip'):
        u, v, x = inp['from'], inp['to'], float(inp['x'])
        sig = dict(sig, **{'from': u, 'to': v})
        try:
            arg = _shaped([x, x], shape)
            res = inst.to_unit(arg, v, u)
            y = res[0]
            back = inst.to_unit(_shaped([y], shape if shape != 'ints' else 'list'), u, v)[0]
        except Exception as e:
            return {'required': 'conversion of listed units succeeds (values given as %s)' % shape, 'observed': repr(e),
                    'sig': sig}
        if list(arg) != [x, x]:
            return {'required': 'to_unit leaves the list it is given alone', 'observed': list(arg),
                    'sig': dict(sig, fact='argument-changed')}
        if len(res) != 2 or not (res[1] == y or (res[1] != res[1] and y != y)):
            return {'required': 'two equal values convert to two equal values', 'observed': list(res),
                    'sig': dict(sig, fact='elementwise')}
        if u not in SI[root] or v not in SI[root]:
            return {'required': 'SI definition known', 'observed': 'unit without definition', 'sig': sig}
        a, b = _si_conv(root, u, v)
        want = a * Fr(x) + b
        offs = OFFSET_TYPES_ABS if root == 'Temperature' else 0
        if op == 'si_pair':
            tol = SI_TOL * (abs(a * Fr(x)) + abs(b)) + Fr(offs)
            if not (math.isfinite(y) and abs(Fr(y) - want) <= tol):
                return {'required': '%s %s = %.12g %s by the SI definitions (within 0.2 %%)' % (x, u, float(want), v),
                        'observed': y, 'sig': sig}
            return None
        tol = RT_TOL * abs(Fr(x)) + Fr(offs)
        if not (math.isfinite(back) and abs(Fr(back) - Fr(x)) <= tol):
            return {'required': '%s %s -> %s -> %s returns within 2e-5' % (x, u, v, u), 'observed': back, 'sig': sig}
        return None
    if op == 'identity':
        u, x = inp['unit'], float(inp['x'])
        sig = dict(sig, unit=u)
        y = inst.to_unit(_shaped([x], shape), u, u)[0]
        offs = OFFSET_TYPES_ABS if root == 'Temperature' else 0
        if not (math.isfinite(y) and abs(Fr(y) - Fr(x)) <= RT_TOL * abs(Fr(x)) + Fr(offs)):
            return {'required': 'to_unit to the unit already held changes nothing (2e-5)', 'observed': y,
                    'sig': sig}
        return None
    if op == 'sys':
        u, which = inp['from'], inp['which']
        sig = dict(sig, which=which, **{'from': u})
        xs = [float(x) for x in inp['values']]
        listed = _as_tuple(getattr(inst, which + '_units'))
        f = getattr(inst, 'to_' + which)
        arg = _shaped(xs, shape)
        vals, tgt = f(arg, u)
        if list(arg) != xs:
            return {'required': 'to_%s leaves the list it is given alone' % which, 'observed': arg,
                    'sig': dict(sig, fact='argument-changed')}
        if tgt not in listed:
            return {'required': 'to_%s lands in a unit listed in %s_units %r' % (which, which, listed),
                    'observed': tgt, 'sig': dict(sig, fact='target-not-listed')}
        if tgt not in inst.units:
            return {'required': 'target unit is a unit of the type', 'observed': tgt,
                    'sig': dict(sig, fact='target-not-a-unit')}
        if u in listed and (tgt != u or list(vals) != xs):
            return {'required': 'a unit already %s is left alone' % which, 'observed': (list(vals), tgt),
                    'sig': dict(sig, fact='not-left-alone')}
        vals2, tgt2 = f(list(vals), tgt)
        if tgt2 != tgt or list(vals2) != list(vals):
            return {'required': 'to_%s is idempotent' % which, 'observed': (list(vals2), tgt2),
                    'sig': dict(sig, fact='not-idempotent')}
        a, b = _si_conv(root, u, tgt)
        offs = OFFSET_TYPES_ABS if root == 'Temperature' else 0
        if len(vals) != len(xs):
            return {'required': '%d values' % len(xs), 'observed': list(vals), 'sig': dict(sig, fact='length')}
        for x, y in zip(xs, vals):
            if not (math.isfinite(y) and abs(Fr(y) - (a * Fr(x) + b)) <= SI_TOL * (abs(a * Fr(x)) + abs(b)) + Fr(offs)):
                return {'required': 'values follow the unit label (SI, 0.2 %%): %s %s' % (x, u),
                        'observed': '%r %s' % (y, tgt), 'sig': dict(sig, fact='values')}
        return None
    if op == 'reject':
        bad, where = inp['unit'], inp['where']
        sig = dict(sig, where=where)
        good = inst.units[0]
        if bad in inst.units:
            return None
        try:
            if where == 'from':
                r = inst.to_unit([1.0], inp.get('other', good), bad)
            elif where == 'to':
                r = inst.to_unit([1.0], bad, inp.get('other', good))
            elif where == 'header':
                from ladybug.header import Header
                from ladybug.analysisperiod import AnalysisPeriod
                r = Header(inst, bad, AnalysisPeriod()).unit
            elif where == 'in_range':
                r = inst.is_in_range([1.0], bad, False)
            elif where == 'in_range_raise':
                r = inst.is_in_range([1.0], bad, True)
            elif where == 'acceptable':
                if inst.is_unit_acceptable(bad, False) is not False:
                    return {'required': 'is_unit_acceptable(%r, False) is False' % bad, 'observed': True, 'sig': sig}
                if not all(inst.is_unit_acceptable(u, False) is True and inst.is_unit_acceptable(u) is True
                           for u in inst.units):
                    return {'required': 'every listed unit is acceptable', 'observed': False, 'sig': sig}
                r = inst.is_unit_acceptable(bad)
            elif where == 'header_dict':
                from ladybug.header import Header
                from ladybug.analysisperiod import AnalysisPeriod
                r = Header.from_dict({'data_type': inst.to_dict(), 'unit': bad,
                                      'analysis_period': AnalysisPeriod().to_dict()}).unit
            elif where == 'coll_dict':
                c0 = make_collection('MonthlyCollection', inp['type'], good, [1.0, 2.0])
                d = c0.to_dict()
                d['header']['unit'] = bad
                r = type(c0).from_dict(d).header.unit
            elif where == 'header_csv':
                from ladybug.header import Header
                from ladybug.analysisperiod import AnalysisPeriod
                from ladybug.datatype.base import DataTypeBase
                tname_text = type(inst)().name
                try:
                    if type(DataTypeBase.from_string(tname_text)) is not type(inst):
                        return None     # the text form of the type does not give this type (C07's subject)
                except Exception:
                    return None
                r = Header.from_csv_strings([tname_text, bad], AnalysisPeriod()).unit
            elif where in ('coll_convert', 'coll_to', 'coll_build'):
                cls = inp.get('cls', 'MonthlyCollection')
                if where == 'coll_build':
                    r = state(make_collection(cls, inp['type'], bad, [1.0, 2.0] if 'Continuous' not in cls else [1.0] * 24))
                else:
                    c0 = make_collection(cls, inp['type'], inp.get('other', good),
                                         [1.0, 2.0] if 'Continuous' not in cls else [1.0] * 24)
                    before = _snap(c0)
                    try:
                        if where == 'coll_to':
                            r = state(c0.to_unit(bad))
                        else:
                            c0.convert_to_unit(bad)
                            r = state(c0)
                    except (ValueError, AttributeError) as e:
                        if _snap(c0) != before:
                            return {'required': 'a refused conversion leaves the collection as it was', 'observed': state(c0),
                                    'sig': dict(sig, fact='changed-on-refusal')}
                        if isinstance(e, ValueError) or (cls.endswith('Immutable') and where == 'coll_convert'):
                            return None
                        raise
            else:
                raise KeyError(where)
        except ValueError:
            return None
        except Exception as e:
            return {'required': 'ValueError for a unit the type does not list', 'observed': repr(e), 'sig': sig}
        return {'required': 'unit %r is rejected' % bad, 'observed': repr(r), 'sig': sig}
    if op == 'coll':
        return _check_coll(inst, root, inp, sig)
    if op == 'range':
        # limits expressed in another unit are the SI images of the limits of the first unit
        u = inp['unit']
        sig = dict(sig, unit=u)
        a, b = _si_conv(root, inst.units[0], u)
        lims = [None if l in (float('-inf'), float('inf')) else a * Fr(repr(float(l))) + b
                for l in (inst.min, inst.max)]
        if u == inst.units[0]:
            # exactly on a bound (first unit: no conversion involved) is in range, with and without the unit argument
            for l in (inst.min, inst.max):
                if l not in (float('-inf'), float('inf')):
                    for uu in (u, None):
                        if not inst.is_in_range([l], uu, False):
                            return {'required': 'the limit %r %s itself is in range (unit argument %r)' % (l, u, uu),
                                    'observed': False, 'sig': dict(sig, fact='bound-excluded')}
        for k, inside in ((0, 1), (1, -1)):
            if lims[k] is None:
                # no limit on this side: arbitrarily large values are in range (as long as the other side allows)
                far = -inside * 1e30
                if not inst.is_in_range([far], u, False):
                    return {'required': '%r %s is in range (no %s limit)' % (far, u, 'lower' if k == 0 else 'upper'),
                            'observed': False, 'sig': dict(sig, fact='unbounded-side')}
                continue
            step = max(abs(lims[k]), Fr(1)) / 100
            ok_val, bad_val = lims[k] + inside * step, lims[k] - inside * step
            other = lims[1 - k]
            if other is None or (ok_val - other) * inside < 0:
                if not inst.is_in_range([float(ok_val)], u, False):
                    return {'required': '%r %s is in range' % (float(ok_val), u), 'observed': False, 'sig': sig}
            if inst.is_in_range([float(bad_val)], u, False):
                return {'required': '%r %s is out of range' % (float(bad_val), u), 'observed': True, 'sig': sig}
            try:
                inst.is_in_range([float(bad_val)], u, True)
                raised = False
            except ValueError:
                raised = True
            if not raised:
                return {'required': '%r %s raises ValueError with raise_exception=True' % (float(bad_val), u),
                        'observed': 'no exception', 'sig': dict(sig, fact='no-raise')}
        return None
    if op == 'norm_agg':
        return _check_norm_agg(inst, root, inp, sig)
    if op == 'time_agg':
        return _check_time_agg(inst, root, inp, sig)
    if op == 'shape':
        return _check_shape(inst, root, inp, sig)
    if op == 'alias':
        return _check_alias(inst, root, inp, sig)
    if op == 'coll_range':
        return _check_coll_range(inst, root, inp, sig)
    raise ValueError('unknown op ' + op)


def _si_ok(root, u, v, x, y):
    """y (unit v) is x (unit u) by the SI definitions within 0.2 %."""
    a, b = _si_conv(root, u, v)
    offs = OFFSET_TYPES_ABS if root == 'Temperature' else 0
    return isinstance(y, (int, float)) and math.isfinite(y) and \
        abs(Fr(y) - (a * Fr(x) + b)) <= SI_TOL * (abs(a * Fr(x)) + abs(b)) + Fr(offs)


def _check_shape(inst, root, inp, sig):
    """ROUND 4 (kind f): the values handed over as a ONE-SHOT iterable (generator, iter(), map, zip).  The code may
    refuse such an argument (TypeError / AssertionError: it needs len()); if it answers, the answer must be the one
    the statement demands for these numbers -- a first pass that consumes the iterable must not leave a second pass
    with nothing."""
    shape, what = inp['shape'], inp.get('what', 'to_unit')
    xs = [float(x) for x in inp['values']]
    u = inp['from']
    sig = dict(sig, shape=shape, what=what, **{'from': u})
    try:
        if what == 'to_unit':
            v = inp['to']
            res, tgt = inst.to_unit(_shaped(xs, shape), v, u), v
        elif what in ('to_ip', 'to_si'):
            res, tgt = getattr(inst, what)(_shaped(xs, shape), u)
        elif what == 'in_range':
            want = inst.is_in_range(list(xs), u, False)
            got = inst.is_in_range(_shaped(xs, shape), u, False)
            if got != want:
                return {'required': 'is_in_range(%r %s) = %r whatever the container' % (xs, u, want), 'observed': got,
                        'sig': dict(sig, fact='range-differs')}
            return None
        else:
            cls = inp['cls']
            nv = 24 if 'Continuous' in cls else len(xs)
            xs = (xs * 24)[:nv]
            if what == 'coll_build':
                c = make_collection(cls, inp['type'], u, xs, form={'vshape': shape})
            else:
                c = make_collection(cls, inp['type'], u, [0.0] * nv)
                c.values = _shaped(xs, shape)
            if list(c.values) != xs:
                return {'required': 'the collection holds the values %r it was given' % (xs,), 'observed': list(c.values),
                        'sig': dict(sig, fact='values-lost')}
            c2 = c.to_unit(inp['to'])
            res, tgt, v = list(c2.values), c2.header.unit, inp['to']
            if tgt != v:
                return {'required': 'unit label %r' % v, 'observed': tgt, 'sig': dict(sig, fact='label')}
    except (TypeError, AssertionError, AttributeError):
        return None         # refused: nothing is claimed about an argument the code does not take
    res = list(res)
    if tgt not in SI[root]:
        return {'required': 'a listed unit', 'observed': tgt, 'sig': dict(sig, fact='target')}
    if len(res) != len(xs) or not all(_si_ok(root, u, tgt, x, y) for x, y in zip(xs, res)):
        return {'required': '%s of %r %s given as %s: the %d values that follow from the SI definitions (%s)'
                % (what, xs, u, shape, len(xs), tgt), 'observed': res, 'sig': dict(sig, fact='one-shot-answer')}
    return None


def _check_alias(inst, root, inp, sig):
    """ROUND 4 (kind f): results are kept, edited in place and asked for again on ONE data-type object.  An answer
    already handed out must not change when the object is asked something else, and an answer edited by the caller
    must not come back as the answer to the next caller."""
    u, v = inp['from'], inp['to']
    xs = [float(x) for x in inp['values']]
    ys = [float(y) for y in inp['other']]
    sig = dict(sig, **{'from': u, 'to': v})
    mark = 98765.4321

    def bad(fact, required, observed):
        return {'required': required, 'observed': observed, 'sig': dict(sig, fact=fact)}
    try:
        arg = list(xs)
        r1 = inst.to_unit(arg, v, u)
        s1 = list(r1)
        if not all(_si_ok(root, u, v, x, y) for x, y in zip(xs, s1)) or len(s1) != len(xs):
            return bad('first-answer', '%r %s in %s by the SI definitions' % (xs, u, v), s1)
        r2 = inst.to_unit(list(ys), v, u)
        s2 = list(r2)
        ip1, ipu = inst.to_ip(list(ys), u)
        si1, siu = inst.to_si(list(ys), u)
        inst.is_in_range(list(ys), u, False)
        if list(r1) != s1:
            return bad('kept-answer-changed', 'the answer %r handed out earlier stays as it was' % (s1,), list(r1))
        if arg != xs:
            return bad('argument-changed', 'the argument list stays %r' % (xs,), arg)
        # the caller edits what he was given
        for r in (r2, ip1, si1, r1):
            if isinstance(r, list) and r:
                r[0] = mark
                r.append(mark)
        r3 = inst.to_unit(list(xs), v, u)
        if list(r3) != s1:
            return bad('edited-answer-returns', 'the same question gives %r again after the caller edited earlier answers'
                       % (s1,), list(r3))
        r4 = inst.to_unit(list(ys), v, u)
        if list(r4) != s2:
            return bad('edited-answer-returns', 'the same question gives %r again after the caller edited earlier answers'
                       % (s2,), list(r4))
        ip2, ipu2 = inst.to_ip(list(ys), u)
        si2, siu2 = inst.to_si(list(ys), u)
        if ipu2 != ipu or siu2 != siu or len(ip2) != len(ys) or len(si2) != len(ys) or mark in ip2 or mark in si2:
            return bad('edited-answer-returns', 'to_ip / to_si answer as before (%s, %s, %d values)' % (ipu, siu, len(ys)),
                       '%r %s / %r %s' % (list(ip2), ipu2, list(si2), siu2))
        # a second object of the same class answers like the first
        other = type(inst)()
        if list(other.to_unit(list(xs), v, u)) != s1:
            return bad('second-object', 'a second %s object gives %r too' % (type(inst).__name__, s1),
                       list(other.to_unit(list(xs), v, u)))
        for attr in ('units', 'si_units', 'ip_units'):
            a1 = getattr(inst, attr)
            if isinstance(a1, list):
                keep = list(a1)
                a1.append('edited-by-caller')
                if list(getattr(type(inst)(), attr)) != keep:
                    return bad('unit-table-editable', '%s of a new object is %r after a caller edited the list he got' % (attr, keep),
                               list(getattr(type(inst)(), attr)))
    except Exception as e:
        return bad('exception', 'conversions of listed units succeed', repr(e))
    return None


def _check_coll_range(inst, root, inp, sig):
    """ROUND 4 (kind g): collection.is_in_data_type_range hands values, unit and the raise flag to
    DataType.is_in_range: a value clearly outside the limits (expressed in the collection's unit) gives False /
    ValueError, values clearly inside give True in both modes."""
    cls, u = inp['cls'], inp['unit']
    sig = dict(sig, cls=cls, unit=u)
    a, b = _si_conv(root, inst.units[0], u)
    lims = [None if l in (float('-inf'), float('inf')) else a * Fr(repr(float(l))) + b for l in (inst.min, inst.max)]
    nv = 24 if 'Continuous' in cls else 3
    inside = None
    if lims[0] is not None and lims[1] is not None:
        inside = float((lims[0] + lims[1]) / 2)
    elif lims[0] is not None:
        inside = float(lims[0] + max(abs(lims[0]), 1))
    elif lims[1] is not None:
        inside = float(lims[1] - max(abs(lims[1]), 1))
    else:
        inside = 1.5
    try:
        c = make_collection(cls, inp['type'], u, [inside] * nv, form=inp.get('form'))
        if c.is_in_data_type_range(False) is not True or c.is_in_data_type_range(True) is not True or \
                c.is_in_data_type_range() is not True:
            return {'required': '%r %s is in the range of %s' % (inside, u, inp['type']), 'observed': False,
                    'sig': dict(sig, fact='inside')}
        for k, sgn in ((0, -1), (1, 1)):
            if lims[k] is None:
                continue
            out = float(lims[k] + sgn * max(abs(lims[k]), Fr(1)) / 50)
            vals = [inside] * nv
            vals[-1] = out
            c = make_collection(cls, inp['type'], u, vals, form=inp.get('form'))
            if c.is_in_data_type_range(False) is not False:
                return {'required': '%r %s is outside the range of %s' % (out, u, inp['type']), 'observed': True,
                        'sig': dict(sig, fact='outside')}
            for args in ((True,), ()):
                try:
                    c.is_in_data_type_range(*args)
                    return {'required': 'is_in_data_type_range(%s) raises ValueError for %r %s' % (
                        ', '.join(map(str, args)), out, u), 'observed': 'no exception', 'sig': dict(sig, fact='no-raise')}
                except ValueError:
                    pass
            if (c.header.unit, list(c.values)) != (u, vals):
                return {'required': 'a range question changes nothing', 'observed': state(c), 'sig': dict(sig, fact='read-changes')}
    except Exception as e:
        return {'required': 'range question answers', 'observed': repr(e), 'sig': dict(sig, fact='exception')}
    return None


NORMALIZED = {'Energy': 'EnergyIntensity', 'Power': 'EnergyFlux', 'VolumeFlowRate': 'VolumeFlowRateIntensity'}
AGGREGATED = {'EnergyFlux': 'EnergyIntensity', 'Power': 'Energy', 'MassFlowRate': 'Mass', 'Speed': 'Distance',
              'TemperatureDelta': 'TemperatureTime'}


def _si_vals(root, unit, values):
    a, b = _ab(SI[root][unit])
    return [a * Fr(v) + b for v in values]


def _rel_close(x, y, tol):
    return abs(x - y) <= tol * max(abs(x), abs(y))


def _check_norm_agg(inst, root, inp, sig):
    cls, unit, au, area = inp['cls'], inp['unit'], inp['area_unit'], float(inp['area'])
    sig = dict(sig, cls=cls, unit=unit, area_unit=au)
    xs = [float(x) for x in inp['values']]
    coll = make_collection(cls, inp['type'], unit, xs, form=inp.get('form'))
    try:
        n = coll.normalize_by_area(area, au)
    except Exception as e:
        return {'required': 'normalize_by_area(%r, %r) of %s [%s] succeeds' % (area, au, inp['type'], unit),
                'observed': repr(e), 'sig': dict(sig, fact='normalize-raises')}
    nroot = _root(n.header.data_type)
    if nroot != NORMALIZED.get(root) or n.header.unit not in SI[nroot]:
        return {'required': 'normalised type %s with a unit it lists' % NORMALIZED.get(root),
                'observed': '%s [%s]' % (nroot, n.header.unit), 'sig': dict(sig, fact='normalized-type')}
    if (coll.header.unit, list(coll.values), type(coll.header.data_type).__name__) != (unit, xs, inp['type']):
        return {'required': 'source untouched', 'observed': state(coll), 'sig': dict(sig, fact='source-changed')}
    a_area = _ab(SI['Area'][au])[0]
    for w, g in zip(_si_vals(root, unit, xs), _si_vals(nroot, n.header.unit, n.values)):
        if not _rel_close(g * a_area * Fr(area), w, Fr(1, 10 ** 9)):
            return {'required': 'normalised value x area = original quantity (SI): %.12g' % float(w),
                    'observed': '%.12g' % float(g * a_area * Fr(area)), 'sig': dict(sig, fact='normalized-meaning')}
    try:
        back = n.aggregate_by_area(area, au)
    except Exception as e:
        return {'required': 'aggregate_by_area undoes normalize_by_area', 'observed': repr(e),
                'sig': dict(sig, fact='aggregate-raises')}
    if _root(back.header.data_type) != root or back.header.unit != unit or type(back).__name__ != cls or \
            len(back.values) != len(xs) or not all(_rel_close(Fr(b), Fr(x), Fr(1, 10 ** 12)) for b, x in zip(back.values, xs)):
        return {'required': '%s [%s] %r again' % (root, unit, xs), 'observed': state(back),
                'sig': dict(sig, fact='aggregate-inverse')}
    return None


def _check_time_agg(inst, root, inp, sig):
    cls, unit, ts = inp['cls'], inp['unit'], int(inp['timestep'])
    sig = dict(sig, cls=cls, unit=unit)
    xs = [float(x) for x in inp['values']]
    coll = make_collection(cls, inp['type'], unit, xs, ts, bool(inp.get('leap', False)), inp.get('form'))
    seconds = Fr(3600, ts) if cls.startswith('Hourly') else Fr(86400)
    try:
        agg = coll.to_time_aggregated()
    except Exception as e:
        return {'required': 'to_time_aggregated of %s [%s] succeeds' % (inp['type'], unit), 'observed': repr(e),
                'sig': dict(sig, fact='aggregate-raises')}
    aroot = _root(agg.header.data_type)
    if aroot != AGGREGATED.get(root) or agg.header.unit not in SI[aroot]:
        return {'required': 'time-aggregated type %s with a unit it lists' % AGGREGATED.get(root),
                'observed': '%s [%s]' % (aroot, agg.header.unit), 'sig': dict(sig, fact='aggregated-type')}
    if (coll.header.unit, list(coll.values)) != (unit, xs):
        return {'required': 'source untouched', 'observed': state(coll), 'sig': dict(sig, fact='source-changed')}
    for w, g in zip(_si_vals(root, unit, xs), _si_vals(aroot, agg.header.unit, agg.values)):
        if not abs(g - w * seconds) <= SI_TOL * abs(w * seconds):
            return {'required': 'rate x %s s = aggregated quantity (SI, 0.2 %%): %.12g' % (seconds, float(w * seconds)),
                    'observed': '%.12g %s' % (float(g), agg.header.unit), 'sig': dict(sig, fact='aggregated-meaning')}
    try:
        back = agg.to_time_rate_of_change()
    except Exception as e:
        return {'required': 'to_time_rate_of_change undoes to_time_aggregated', 'observed': repr(e),
                'sig': dict(sig, fact='rate-raises')}
    broot = _root(back.header.data_type)
    if broot != root or back.header.unit not in SI[root] or len(back.values) != len(xs):
        return {'required': 'a %s again' % root, 'observed': state(back), 'sig': dict(sig, fact='rate-type')}
    for w, g in zip(_si_vals(root, unit, xs), _si_vals(root, back.header.unit, back.values)):
        if not abs(g - w) <= SI_TOL * abs(w):
            return {'required': 'the original rate (SI, 0.2 %%): %.12g' % float(w), 'observed': '%.12g' % float(g),
                    'sig': dict(sig, fact='rate-inverse')}
    return None


def _check_coll(inst, root, inp, sig):
    cls = inp['cls']
    sig = dict(sig, cls=cls)
    xs = [float(x) for x in inp['values']]
    try:
        coll = make_collection(cls, inp['type'], inp['unit'], xs, int(inp.get('timestep', 1)), bool(inp.get('leap', False)),
                               inp.get('form'))
    except Exception as e:
        return {'required': 'collection can be built', 'observed': repr(e), 'sig': dict(sig, fact='build')}
    if list(coll.values) != xs:
        return {'required': 'the collection holds the values it was given', 'observed': list(coll.values),
                'sig': dict(sig, fact='build-values')}
    offs = OFFSET_TYPES_ABS if root == 'Temperature' else 0

    def meaning(c):
        a, b = _ab(SI[root][c.header.unit])
        return [a * Fr(v) + b for v in c.values]

    def same_meaning(m0, c, tag):
        if type(c.header.data_type).__name__ != inp['type']:
            return 'data type became %s' % type(c.header.data_type).__name__
        if c.header.unit not in inst.units:
            return 'unit label %r is not a unit of the type' % (c.header.unit,)
        if len(c.values) != len(m0):
            return 'number of values changed'
        a, _b = _ab(SI[root][c.header.unit])
        for w, g in zip(m0, meaning(c)):
            # 0.2 % of the quantity, measured in SI (offsets of the unit do not count as quantity)
            if not abs(g - w) <= SI_TOL * (abs(w) + abs(_b)) + Fr(offs) * a:
                return '%s: SI value %.12g became %.12g (%s)' % (tag, float(w), float(g), c.header.unit)
        return None

    for k, o in enumerate(inp['ops']):
        before = (coll.header.unit, list(coll.values), type(coll.header.data_type).__name__)
        m0 = meaning(coll)
        if cls.endswith('Immutable') and o[0].startswith('c'):
            # in-place conversion of an immutable collection: must be refused and change nothing
            try:
                apply_op(coll, o)
                got = 'no exception'
            except AttributeError:
                got = None
            except Exception as e:
                got = repr(e)
            if got is not None:
                return {'required': 'convert_* on an immutable collection raises AttributeError', 'observed': got,
                        'sig': dict(sig, fact='immutable-convert', op=o[0])}
            if (coll.header.unit, list(coll.values), type(coll.header.data_type).__name__) != before:
                return {'required': 'a refused conversion leaves values, unit and data type alone',
                        'observed': state(coll), 'sig': dict(sig, fact='immutable-changed', op=o[0])}
            continue
        try:
            res = apply_op(coll, o)
            err = None
        except ValueError as e:
            res, err = None, e
        except Exception as e:
            return {'required': 'conversion or ValueError', 'observed': repr(e), 'sig': dict(sig, fact='exception', op=o[0])}
        if err is not None:
            if len(o) > 1 and o[1] in inst.units:
                return {'required': 'listed unit accepted', 'observed': repr(err), 'sig': dict(sig, fact='rejects-listed', op=o[0])}
            if len(o) == 1:
                return {'required': 'to_ip/to_si succeed', 'observed': repr(err), 'sig': dict(sig, fact='sys-raises', op=o[0])}
            if (coll.header.unit, list(coll.values), type(coll.header.data_type).__name__) != before:
                return {'required': 'a rejected conversion leaves the collection alone', 'observed': state(coll),
                        'sig': dict(sig, fact='changed-on-error', op=o[0])}
            continue
        if len(o) > 1 and o[1] not in inst.units:
            return {'required': 'unit %r rejected' % o[1], 'observed': 'accepted', 'sig': dict(sig, fact='accepts-unlisted', op=o[0])}
        target = coll if o[0].startswith('c') else res
        if o[0].startswith('t'):
            if (coll.header.unit, list(coll.values), type(coll.header.data_type).__name__) != before:
                return {'required': 'to_* leaves the source collection alone', 'observed': state(coll),
                        'sig': dict(sig, fact='source-changed', op=o[0])}
            if type(res).__name__ != cls:
                return {'required': 'to_* returns a %s' % cls, 'observed': type(res).__name__,
                        'sig': dict(sig, fact='class', op=o[0])}
        msg = same_meaning(m0, target, 'op %d %s' % (k, ' '.join(o)))
        if msg:
            return {'required': 'values, unit and data type move together (SI meaning kept within 0.2 %)',
                    'observed': msg, 'sig': dict(sig, fact='meaning', op=o[0])}
        if len(o) > 1 and target.header.unit != o[1]:
            return {'required': 'unit label %r' % o[1], 'observed': target.header.unit, 'sig': dict(sig, fact='label', op=o[0])}
        if o[0] in ('ci', 'ti') and target.header.unit not in _as_tuple(inst.ip_units):
            return {'required': 'IP unit after to_ip', 'observed': target.header.unit, 'sig': dict(sig, fact='ip-label', op=o[0])}
        if o[0] in ('cs', 'ts') and target.header.unit not in _as_tuple(inst.si_units):
            return {'required': 'SI unit after to_si', 'observed': target.header.unit, 'sig': dict(sig, fact='si-label', op=o[0])}
    return None


# ---------------------------------------------------------------------------------------------
# ROUND 3 -- history oracle: the statement of C06 after EVERY step of a history on a heap of collections,
# against the SI table above (independent of the Lean model).  What the user has established is tracked as
# physical meaning: `M[k]` = the SI quantities object k stands for.  In-place conversions and copies keep the
# meaning, `coll[k] = x` / `coll.values = xs` establish a new one (x is in the unit the collection then has),
# a REFUSED operation and an operation on ANOTHER object leave every observable exactly as it was.

UNNORMALIZED = {'EnergyIntensity': 'Energy', 'EnergyFlux': 'Power', 'VolumeFlowRateIntensity': 'VolumeFlowRate'}
UNAGGREGATED = {'EnergyIntensity': 'EnergyFlux', 'Energy': 'Power', 'Mass': 'MassFlowRate', 'Distance': 'Speed',
                'TemperatureTime': 'TemperatureDelta'}


def _mutable_name(cls):
    return cls[:-len('Immutable')] if cls.endswith('Immutable') else cls


def _snap(c):
    return (type(c).__name__, type(c.header.data_type).__name__, c.header.unit, tuple(c.values))


def _read_paths(c, rng_pick):
    """Every public read path of values / unit / data type gives the same answer."""
    vals = tuple(c.values)
    unit = c.header.unit
    tname = type(c.header.data_type).__name__
    paths = [('iter', lambda: tuple(iter(c)) == vals),
             ('getitem', lambda: tuple(c[j] for j in range(len(c))) == vals),
             ('len', lambda: len(c) == len(vals)),
             ('to_dict.values', lambda: tuple(c.to_dict()['values']) == vals),
             ('to_dict.unit', lambda: c.to_dict()['header']['unit'] == unit),
             ('header.to_dict.unit', lambda: c.header.to_dict()['unit'] == unit),
             ('header.to_tuple', lambda: c.header.to_tuple()[1] == unit and c.header.to_tuple()[0] is c.header.data_type),
             ('header.iter', lambda: list(c.header)[1] == unit),
             ('header.to_dict.type', lambda: c.header.to_dict()['data_type']['data_type'] == tname),
             ('csv', lambda: c.header.to_csv_strings()[1] == unit),
             ('bounds', lambda: c.bounds == (min(vals), max(vals)) and c.min == min(vals) and c.max == max(vals)),
             ('total', lambda: abs(c.total - sum(vals)) <= 1e-9 * (sum(abs(v) for v in vals) + 1e-300) and
              abs(c.average - sum(vals) / len(vals)) <= 1e-9 * (sum(abs(v) for v in vals) + 1e-300)),
             ('values_again', lambda: tuple(c.values) == vals and c.header.unit == unit)]
    for k in rng_pick:
        name, f = paths[k % len(paths)]
        try:
            ok = f()
        except Exception as e:
            return '%s raises %r' % (name, e)
        if not ok:
            return '%s differs from values %r / unit %r / type %s' % (name, vals, unit, tname)
    return None


def _check_hist(inp):
    import random
    cls, tname = inp['cls'], inp['type']
    ts, leap = int(inp.get('timestep', 1)), bool(inp.get('leap', False))
    xs = [float(x) for x in inp['values']]
    inst0 = _inst(tname)
    root0 = _root(inst0)
    sig0 = {'type': root0, 'cls': cls, 'history': True}
    pick = random.Random(len(inp['ops']) * 7919 + len(xs))
    try:
        heap = [make_collection(cls, tname, inp['unit'], xs, ts, leap, inp.get('form'))]
    except Exception as e:
        return {'required': 'collection can be built', 'observed': repr(e), 'sig': dict(sig0, fact='build')}
    seconds = Fr(3600, ts) if cls.startswith('Hourly') else Fr(86400)
    executed = []

    def meaning(root, unit, values):
        a, b = _ab(SI[root][unit])
        return [a * Fr(v) + b for v in values]

    def offs(root):
        return Fr(OFFSET_TYPES_ABS * 10) if root == 'Temperature' else Fr(0)

    def close(root, unit, want, got, tol):
        _a, b = _ab(SI[root][unit])
        return len(want) == len(got) and all(abs(g - w) <= tol * (abs(w) + abs(b)) + offs(root) for w, g in zip(want, got))

    info = [{'root': root0, 'M': meaning(root0, inp['unit'], xs)}]

    def fail(fact, required, observed, o):
        return {'required': required, 'observed': '%s; after ops %s' % (observed, json.dumps(executed)),
                'sig': dict(sig0, fact=fact, step=o[0])}

    for o in inp['ops']:
        k = o[0]
        i = int(o[1]) % len(heap)
        c = heap[i]
        if k in ('tagg', 'trate') and not hasattr(c, 'to_time_aggregated'):
            continue
        dt = c.header.data_type
        units = list(dt.units)
        args = list(o[2:])
        if k in ('cu', 'tu') and not isinstance(args[0], str):
            args[0] = units[int(float(args[0]) * len(units)) % len(units)]
        if k == 'set':
            args[0] = int(args[0]) % (len(c.values) + 2)
        before = [_snap(x) for x in heap]
        ro = [k, i] + args
        executed.append(ro)
        try:
            res = hist_exec(heap, ro)
            err = None
        except Exception as e:
            res, err = None, e
        after = [_snap(x) for x in heap]
        root = info[i]['root']
        # -- no other object is touched, ever
        for j, (b, a) in enumerate(zip(before, after)):
            if j != i and a != b:
                return fail('other-object-changed', 'object %d is untouched by %s on object %d: %r' % (j, k, i, b), repr(a), o)
        if err is not None:
            # -- a refused operation leaves every observable as it was
            if after[i] != before[i] or len(after) != len(before):
                return fail('changed-on-refusal', 'refused %s (%r) leaves the object as it was: %r' % (k, err, before[i]),
                            repr(after[i]), o)
            immut = before[i][0].endswith('Immutable')
            legit = True
            if k in ('cu', 'tu'):
                legit = args[0] not in units or (k == 'cu' and immut)
            elif k in ('ci', 'cs'):
                legit = immut
            elif k in ('ti', 'ts', 'dup', 'imm', 'mut', 'rng'):
                legit = False
            elif k == 'set':
                legit = immut or args[0] >= len(before[i][3])
            elif k == 'vals':
                legit = immut or len(args[0]) != len(before[i][3])
            elif k == 'norm':
                nr = NORMALIZED.get(root)
                lab = '%s-%s' % (before[i][2], args[1]) if '/' in before[i][2] else '%s/%s' % (before[i][2], args[1])
                legit = not (nr and args[0] != 0 and lab in SI[nr])
            elif k == 'agg':
                ur = UNNORMALIZED.get(root)
                u = before[i][2]
                stripped = u[:-len(args[1]) - 1] if (args[1] and (u.endswith('/' + args[1]) or u.endswith('-' + args[1]))) else None
                legit = not (ur and stripped in SI[ur])
            elif k == 'tagg':
                legit = root not in AGGREGATED
            elif k == 'trate':
                legit = root not in UNAGGREGATED
            if not legit:
                return fail('refuses', '%s %r succeeds on %s [%s]' % (k, args, before[i][1], before[i][2]), repr(err), o)
            if k in ('cu', 'tu') and args[0] not in units and not isinstance(err, (ValueError, AttributeError)):
                return fail('rejection-class', 'ValueError for the unlisted unit %r' % (args[0],), repr(err), o)
        else:
            if k in ('cu', 'tu') and args[0] not in units:
                return fail('accepts-unlisted', 'unit %r is rejected by %s' % (args[0], before[i][1]), 'accepted', o)
            if k in ('cu', 'ci', 'cs', 'set', 'vals') and before[i][0].endswith('Immutable'):
                return fail('immutable-changed', '%s on an immutable collection is refused' % k, 'accepted', o)
            if k in ('cu', 'ci', 'cs'):
                cl, tn, lab, vals = after[i]
                if (cl, tn) != before[i][:2] or lab not in SI[root] or len(vals) != len(before[i][3]):
                    return fail('in-place-type', 'class, data type kept, unit listed', repr(after[i]), o)
                want_lab = [args[0]] if k == 'cu' else _as_tuple(dt.ip_units if k == 'ci' else dt.si_units)
                if lab not in want_lab:
                    return fail('label', 'unit label in %r after %s' % (want_lab, k), lab, o)
                if not close(root, lab, info[i]['M'], meaning(root, lab, vals), SI_TOL):
                    return fail('meaning', 'values, unit and type move together: SI meaning %r kept (0.2 %%)'
                                % ([float(m) for m in info[i]['M']],),
                                '%r %s = SI %r' % (vals, lab, [float(m) for m in meaning(root, lab, vals)]), o)
                if len(after) != len(before):
                    return fail('heap', 'no object is made', len(after), o)
            elif k in ('set', 'vals'):
                want = list(before[i][3])
                if k == 'set':
                    want[args[0]] = args[1]
                else:
                    want = [float(x) for x in args[0]]
                if after[i] != before[i][:3] + (tuple(want),):
                    return fail('write', 'values %r under the same unit and type' % (want,), repr(after[i]), o)
                info[i]['M'] = meaning(root, after[i][2], want)
            elif k == 'rng':
                lo, hi = dt.min, dt.max
                m0 = meaning(root, dt.units[0], [l for l in (lo, hi) if l not in (float('-inf'), float('inf'))])
                lims = iter(m0)
                lo_si = None if lo == float('-inf') else next(lims)
                hi_si = None if hi == float('inf') else next(lims)
                a_u = _ab(SI[root][before[i][2]])[0]
                vs = meaning(root, before[i][2], before[i][3])
                margin = [max(abs(l), a_u) / 100 for l in (lo_si if lo_si is not None else Fr(0),
                                                           hi_si if hi_si is not None else Fr(0))]
                clear_in = all((lo_si is None or v >= lo_si + margin[0]) and (hi_si is None or v <= hi_si - margin[1])
                               for v in vs)
                clear_out = any((lo_si is not None and v < lo_si - margin[0]) or (hi_si is not None and v > hi_si + margin[1])
                                for v in vs)
                if (clear_in and res[1] != 1) or (clear_out and res[1] != 0):
                    return fail('range', 'is_in_data_type_range %s for %r %s (limits %r..%r %s)'
                                % (bool(clear_in), before[i][3], before[i][2], lo, hi, dt.units[0]), bool(res[1]), o)
                if after != before:
                    return fail('read-changes', 'a read changes nothing', repr(after[i]), o)
            else:
                if len(after) != len(before) + 1 or after[i] != before[i]:
                    return fail('source-changed', '%s leaves its source alone and returns a collection' % k, repr(after[i]), o)
                cl, tn, lab, vals = after[-1]
                src = before[i]
                want_cl = {'imm': _mutable_name(src[0]) + 'Immutable', 'mut': _mutable_name(src[0])}.get(k, src[0])
                if cl != want_cl:
                    return fail('class', '%s returns a %s' % (k, want_cl), cl, o)
                nroot = _root(heap[-1].header.data_type)
                if k in ('dup', 'imm', 'mut'):
                    if (tn, lab, vals) != src[1:]:
                        return fail('twin', 'the same data type, unit and values %r' % (src[1:],), repr(after[-1]), o)
                    info.append({'root': root, 'M': list(info[i]['M'])})
                elif k in ('tu', 'ti', 'ts'):
                    want_lab = [args[0]] if k == 'tu' else _as_tuple(dt.ip_units if k == 'ti' else dt.si_units)
                    if tn != src[1] or lab not in want_lab or lab not in SI[root]:
                        return fail('label', 'type %s, unit in %r' % (src[1], want_lab), '%s [%s]' % (tn, lab), o)
                    if not close(root, lab, info[i]['M'], meaning(root, lab, vals), SI_TOL):
                        return fail('meaning', 'the copy has the SI meaning %r (0.2 %%)' % ([float(m) for m in info[i]['M']],),
                                    '%r %s' % (vals, lab), o)
                    info.append({'root': root, 'M': list(info[i]['M'])})
                else:
                    if k == 'norm':
                        wroot, f = NORMALIZED.get(root), None
                        if args[1] in SI['Area']:
                            f = 1 / (Fr(args[0]) * _ab(SI['Area'][args[1]])[0]) if args[0] else None
                    elif k == 'agg':
                        wroot, f = UNNORMALIZED.get(root), None
                        if args[1] in SI['Area']:
                            f = Fr(args[0]) * _ab(SI['Area'][args[1]])[0]
                    elif k == 'tagg':
                        wroot, f = AGGREGATED.get(root), seconds
                    else:
                        wroot, f = UNAGGREGATED.get(root), 1 / seconds
                    if nroot != wroot or wroot is None or lab not in SI[wroot] or f is None:
                        return fail('derived-type', '%s of %s [%s] gives a %s in a unit it lists' % (k, src[1], src[2], wroot),
                                    '%s [%s]' % (tn, lab), o)
                    want = [m * f for m in info[i]['M']]
                    got = meaning(wroot, lab, vals)
                    if not (len(want) == len(got) and all(abs(g - w) <= SI_TOL * abs(w) for w, g in zip(want, got))):
                        return fail('derived-meaning', '%s: SI quantities %r (0.2 %%)' % (k, [float(w) for w in want]),
                                    '%r %s = SI %r' % (vals, lab, [float(g) for g in got]), o)
                    info.append({'root': wroot, 'M': want})
        # -- every read path agrees, on a randomly picked object, reads repeated
        j = pick.randrange(len(heap))
        msg = _read_paths(heap[j], [pick.randrange(64) for _ in range(4)])
        if msg:
            return fail('read-path', 'every public read path of object %d agrees' % j, msg, o)
        if [_snap(x) for x in heap] != after:
            return fail('read-changes', 'reading changes nothing', repr([_snap(x) for x in heap]), o)
    return None


def _shrink_hist(inp, sig, budget=80):
    """A shorter history with the same kind of failure (prefix up to the failing step, then single ops removed)."""
    fact = (sig or {}).get('fact')

    def fails(cand):
        try:
            r = _check_hist(cand)
        except Exception:
            return False
        return bool(r) and (r.get('sig') or {}).get('fact') == fact

    ops = list(inp['ops'])
    for n in range(1, len(ops) + 1):
        budget -= 1
        if fails(dict(inp, ops=ops[:n])):
            ops = ops[:n]
            break
    changed = True
    while changed and budget > 0:
        changed = False
        for k in range(len(ops) - 1):
            budget -= 1
            if fails(dict(inp, ops=ops[:k] + ops[k + 1:])):
                ops = ops[:k] + ops[k + 1:]
                changed = True
                break
            if budget <= 0:
                break
    return dict(inp, ops=ops)


def _check_thist(inp):
    """A history of data-type calls on SHARED instances (one per type): every step must satisfy the statement."""
    global _POOL
    old = _POOL
    _POOL = {}
    try:
        for k, (op, sub) in enumerate(inp['steps']):
            if op in ('thist', 'order'):
                continue
            res = check_case(op, sub)
            if res:
                return {'required': '[step %d of a history on shared data-type objects: %s %s] %s'
                        % (k, op, json.dumps(sub, sort_keys=True), res.get('required')),
                        'observed': res.get('observed'), 'sig': dict(res.get('sig') or {}, history=True, step=op)}
    finally:
        _POOL = old
    return None


# -- process-order independence: a slice of the stream evaluated in a FRESH Python process, in a given order


def _worker_main():
    data = json.loads(sys.stdin.read())
    fails = []
    for k, (op, sub) in enumerate(data['order']):
        try:
            res = None if op == 'order' else check_case(op, sub)
        except Exception as e:
            res = {'required': 'oracle evaluates', 'observed': 'exception %s: %s' % (type(e).__name__, e),
                   'sig': {'exception': type(e).__name__}}
        if res:
            fails.append([k, {'required': str(res.get('required')), 'observed': str(res.get('observed')),
                              'sig': res.get('sig')}])
            if len(fails) >= data.get('cap', 20):
                break
    sys.stdout.write('\n@@C06@@' + json.dumps(fails, default=str) + '\n')


def _subprocess_eval(order, cap=20, timeout=600):
    env = dict(os.environ)
    env['LADYBUG_REPO'] = core.REPO
    code = ('import sys; sys.path.insert(0, %r); from harness import core; sys.path.insert(0, core.REPO); '
            'from harness.props import c06; c06._worker_main()' % core.ROOT)
    p = subprocess.run([sys.executable, '-c', code], input=json.dumps({'order': order, 'cap': cap}),
                       capture_output=True, text=True, timeout=timeout, env=env, cwd=core.ROOT)
    for ln in reversed(p.stdout.splitlines()):
        if ln.startswith('@@C06@@'):
            return json.loads(ln[7:])
    raise core.MachineryError('C06 order worker failed: rc=%s %s' % (p.returncode, p.stderr[-800:]))


def _check_order(inp):
    fails = _subprocess_eval(inp['order'], cap=1)
    if not fails:
        return None
    k, res = fails[0]
    op, sub = inp['order'][k]
    return {'required': '[fresh process, call %d of %d: %s %s] %s' % (k + 1, len(inp['order']), op,
                                                                    json.dumps(sub, sort_keys=True)[:300], res['required']),
            'observed': res['observed'], 'sig': dict(res.get('sig') or {}, order=True, step=op)}


def _shrink_order(prefix, last, budget=24):
    """Smallest found sub-sequence of `prefix` after which `last` still fails in a fresh process."""
    runs = [0]

    def fails(sub):
        runs[0] += 1
        return any(f[0] == len(sub) for f in _subprocess_eval(list(sub) + [last], cap=len(sub) + 1))

    if fails([]):
        return []
    cur, n = list(prefix), 2
    while len(cur) >= 2 and runs[0] < budget:
        chunk = -(-len(cur) // n)
        reduced = False
        for s0 in range(0, len(cur), chunk):
            sub, comp = cur[s0:s0 + chunk], cur[:s0] + cur[s0 + chunk:]
            if fails(sub):
                cur, n, reduced = sub, 2, True
                break
            if n > 2 and fails(comp):
                cur, n, reduced = comp, max(n - 1, 2), True
                break
        if not reduced:
            if n >= len(cur):
                break
            n = min(len(cur), n * 2)
    return cur


replay = check_case

ORACLE_X = [1.0, 1000.0, -40.0, 0.0, 1e-6, 1e9, 37.5, -273.15, 0.001]
# ROUND 4 (kind h): magnitudes over the float range -- the statement is RELATIVE (0.2 %, 2e-5), so every pair is
# asked at 1e-30 .. 1e+25 with non-round mantissas, on halves and thirds (largest unit factor is 4.2e27: no overflow)
EDGE_MANT = [1.0, -2.345678, 7.7777777]
EDGE_EXP = [-30, -20, -15, -12, -10, -9, -8, -7, -5, -3, 3, 5, 8, 12, 16, 20, 25]
EDGE_FRACTIONS = [0.5, -1.5, 2.5, 1.0 / 3.0, 0.1 + 0.2]
# ROUND 4 (kind i): text that looks like a unit -- case variants, surrounding / inner blanks, unicode look-alikes,
# typographic superscripts and micro signs, non-text objects (None, a list, a number)
EXOTIC_UNITS = ['\u00b0C', 'm\u00b2', 'W/m\u00b2', '\u00b5m', 'C\u200b', '\uff23', 'C\n', '\tC', 'C\u00a0', 'k\u0057h', 'kWh ',
                'K\u2011m2/W', 'W\u2215m2', 'fl\u00a0oz', 'fl  oz', 'floz', 'm3/s\u2011m2', '\u2103', '%%', 'pct', 'L/s m2']
NON_TEXT_UNITS = [None, ['C'], 0]


def _edge_values(k, big):
    exps = EDGE_EXP if big else EDGE_EXP[k % 2::2]
    return [EDGE_MANT[(k + i) % 3] * 10.0 ** e for i, e in enumerate(exps)] + \
        [EDGE_FRACTIONS[k % len(EDGE_FRACTIONS)], EDGE_FRACTIONS[(k + 2) % len(EDGE_FRACTIONS)]]


def _case_variants(us):
    out = []
    for u in us:
        for w in (u.lower(), u.upper(), u.title(), u.swapcase(), ' ' + u, u + ' ', u.replace('/', ' / '), u.replace('-', '_'),
                  u.replace('2', '\u00b2').replace('3', '\u00b3')):
            if w not in us and w not in out:
                out.append(w)
    return out


def _oracle_cases(ctx):
    rng = ctx.rng
    big = ctx.searching or not ctx.quick
    try:
        import ladybug.datatype as dtm
        all_types = sorted(dtm.TYPES)
        base_types = sorted(dtm.BASETYPES)
    except Exception:
        all_types = base_types = sorted(SI)
    # fixed corpus: past findings and the mutation campaign's witnesses
    corpus = [
        ('si_pair', {'type': 'Fraction', 'from': 'fraction', 'to': 'okta', 'x': 1.0}),          # fixed: okta
        ('si_pair', {'type': 'TotalSkyCover', 'from': 'okta', 'to': '%', 'x': 4.0}),
        ('sys', {'type': 'EnergyFlux', 'from': 'met', 'which': 'ip', 'values': [1.0]}),          # fix: met listed
        ('sys', {'type': 'MetabolicRate', 'from': 'met', 'which': 'si', 'values': [1.2]}),
        ('si_pair', {'type': 'Energy', 'from': 'kWh', 'to': 'kBtu', 'x': 1.0}),
        ('roundtrip', {'type': 'Temperature', 'from': 'F', 'to': 'C', 'x': 212.0}),
        ('si_pair', {'type': 'Temperature', 'from': 'C', 'to': 'K', 'x': 0.0}),
        ('sys', {'type': 'Energy', 'from': 'kWh', 'which': 'ip', 'values': [1.0]}),
        ('roundtrip', {'type': 'MassFlowRate', 'from': 'lb/s', 'to': 'oz/s', 'x': 1.0}),
        ('si_pair', {'type': 'Angle', 'from': 'degrees', 'to': 'radians', 'x': 180.0}),
    ]
    for c in corpus:
        yield c
    for n in base_types:
        yield 'units_known', {'type': n}
    kk = 0
    for n in base_types:
        try:
            us = list(_inst(n).units)
        except Exception:
            us = list(SI.get(n, {}))
        xs = ORACLE_X + [rng.uniform(-1e3, 1e3), 10 ** rng.uniform(-9, 9)] + \
            ([rng.uniform(-1e6, 1e6) for _ in range(10)] if big else [])
        for u in us:
            for v in us:
                for x in xs:
                    yield 'si_pair', {'type': n, 'from': u, 'to': v, 'x': x}
                    yield 'roundtrip', {'type': n, 'from': u, 'to': v, 'x': x}
                # round 4: the magnitudes of the float range, in every container shape, on objects of every provenance
                for x in _edge_values(kk, big):
                    kk += 1
                    extra = {'shape': SHAPES[kk % len(SHAPES)], 'how': INST_HOWS[(kk // len(SHAPES)) % len(INST_HOWS)]}
                    ctx.count('stratum:magnitude:1e%+03d' % (int(math.floor(math.log10(abs(x)) / 5.0)) * 5))
                    ctx.count('stratum:shape:' + extra['shape'])
                    ctx.count('stratum:how:' + extra['how'])
                    yield 'si_pair', dict({'type': n, 'from': u, 'to': v, 'x': x}, **extra)
                    yield 'roundtrip', dict({'type': n, 'from': u, 'to': v, 'x': x}, **extra)
            for x in xs + _edge_values(kk, big):
                kk += 1
                yield 'identity', {'type': n, 'unit': u, 'x': x, 'shape': SHAPES[kk % len(SHAPES)]}
    # round 4 (kind e): EVERY subtype on EVERY ordered pair (an override in one sibling shows on that sibling only)
    for n in all_types:
        if n in base_types:
            continue
        try:
            us = list(_inst(n).units)
        except Exception:
            continue
        for u in us:
            for v in us:
                kk += 1
                for x in (ORACLE_X[kk % len(ORACLE_X)], EDGE_MANT[kk % 3] * 10.0 ** EDGE_EXP[kk % len(EDGE_EXP)],
                          EDGE_FRACTIONS[kk % len(EDGE_FRACTIONS)]):
                    ctx.count('stratum:subtype_pair_values')
                    yield 'si_pair', {'type': n, 'from': u, 'to': v, 'x': x, 'shape': SHAPES[kk % len(SHAPES)]}
                    yield 'roundtrip', {'type': n, 'from': u, 'to': v, 'x': x,
                                        'how': INST_HOWS[kk % len(INST_HOWS)]}
            kk += 1
            yield 'identity', {'type': n, 'unit': u, 'x': EDGE_MANT[kk % 3] * 10.0 ** EDGE_EXP[kk % len(EDGE_EXP)]}
    # round 4 (kind f): one-shot iterables and kept / edited answers, every type
    for n in all_types:
        try:
            us = list(_inst(n).units)
        except Exception:
            continue
        for q in range(2 if not big else 5):
            u, v = rng.choice(us), rng.choice(us)
            vals = [rng.choice(ORACLE_X), rng.uniform(-50, 50), 2.5]
            for sh in ONE_SHOT:
                what = rng.choice(['to_unit', 'to_unit', 'to_ip', 'to_si', 'in_range', 'coll_build', 'coll_values'])
                c = {'type': n, 'from': u, 'to': v, 'values': vals, 'shape': sh, 'what': what}
                if what.startswith('coll'):
                    c['cls'] = rng.choice(COLL_CLASSES[:5] if what == 'coll_values' else COLL_CLASSES)
                ctx.count('stratum:one_shot:' + sh)
                yield 'shape', c
            yield 'alias', {'type': n, 'from': u, 'to': v, 'values': vals, 'other': [rng.uniform(-50, 50), 7.0],
                            'how': rng.choice(INST_HOWS)}
        yield 'alias', {'type': n, 'from': us[0], 'to': us[0], 'values': [1.0, 2.0], 'other': [3.0]}
    for n in all_types:
        try:
            inst = _inst(n)
            us = list(inst.units)
        except Exception:
            continue
        for u in us:
            for which in ('ip', 'si'):
                yield 'sys', {'type': n, 'from': u, 'which': which,
                              'values': [1.0, -3.5, rng.uniform(0, 1e4)]}
            yield 'range', {'type': n, 'unit': u}
        others = [u for m in SI for u in SI[m] if u not in us]
        for bad in UNKNOWN_UNITS + rng.sample(others, 4 if not big else 20):
            for where in ('from', 'to', 'header', 'in_range'):
                yield 'reject', {'type': n, 'unit': bad, 'where': where, 'other': rng.choice(us)}
        for where in ('in_range_raise', 'acceptable', 'header_dict', 'coll_dict'):
            yield 'reject', {'type': n, 'unit': rng.choice(UNKNOWN_UNITS + others[:3]), 'where': where,
                             'other': rng.choice(us)}
        # round 4 (kinds e, i): every site that takes a unit as text, with text that only LOOKS like a listed unit, with
        # another type's unit, and with non-text; on collections of every class
        looks = _case_variants(us) + EXOTIC_UNITS
        for bad in rng.sample(looks, min(len(looks), 6 if not big else 30)) + rng.sample(others, 2):
            if bad in us:
                continue
            ctx.count('stratum:unit_text:looks_like')
            where = rng.choice(['from', 'to', 'header', 'in_range', 'in_range_raise', 'acceptable', 'header_dict', 'coll_dict',
                                'header_csv', 'coll_convert', 'coll_to', 'coll_build'])
            yield 'reject', {'type': n, 'unit': bad, 'where': where, 'other': rng.choice(us), 'cls': rng.choice(COLL_CLASSES),
                             'how': rng.choice(INST_HOWS)}
        for where in ('header_csv', 'coll_convert', 'coll_to', 'coll_build'):
            yield 'reject', {'type': n, 'unit': rng.choice(UNKNOWN_UNITS + others), 'where': where, 'other': rng.choice(us),
                             'cls': rng.choice(COLL_CLASSES)}
        for bad in NON_TEXT_UNITS:
            ctx.count('stratum:unit_text:non_text')
            yield 'reject', {'type': n, 'unit': bad, 'where': rng.choice(['from', 'to', 'header', 'acceptable', 'coll_to']),
                             'other': rng.choice(us), 'cls': rng.choice(COLL_CLASSES)}
        for u in us:
            if rng.random() < (0.34 if not big else 1.0):
                yield 'coll_range', {'type': n, 'unit': u, 'cls': rng.choice(COLL_CLASSES),
                                     'form': {'ap': rng.choice(AP_FORMS), 'vshape': rng.choice(['list', 'tuple'])}}
    for cls in COLL_CLASSES:
        for _ in range(120 if not big else 1500):
            n = rng.choice(base_types) if rng.random() < 0.7 else rng.choice(all_types)
            try:
                us = list(_inst(n).units)
            except Exception:
                continue
            ops = []
            for _k in range(rng.randrange(1, 6)):
                o = rng.choice(['cu', 'cu', 'tu', 'ci', 'cs', 'ti', 'ts'])
                if o in ('cu', 'tu'):
                    r = rng.random()
                    ops.append([o, rng.choice(us) if r < 0.86 else rng.choice(UNKNOWN_UNITS) if r < 0.91 else
                                rng.choice(_case_variants(us) + EXOTIC_UNITS) if r < 0.96 else
                                rng.choice([u for m in SI for u in SI[m] if u not in us])])
                else:
                    ops.append([o])
            ts = rng.choice(ALL_TIMESTEPS) if (cls.startswith('Hourly') and rng.random() < 0.3) else 1
            nv = 24 * ts if cls.startswith('HourlyContinuous') else rng.choice([1, 2, 4])
            form = {'ap': rng.choice(AP_FORMS), 'vshape': rng.choice(SHAPES[:4]),
                    'meta': rng.choice([None, {}, {'type': 'Zone', 'Zone': 'A'}]),
                    'order': rng.choice(['sorted', 'sorted', 'reversed', 'dup']), 'how': rng.choice(INST_HOWS)}
            ctx.count('stratum:coll:ap:' + form['ap'])
            ctx.count('stratum:coll:order:' + form['order'])
            pool_x = ORACLE_X + [rng.uniform(-100, 100), EDGE_MANT[_ % 3] * 10.0 ** EDGE_EXP[_ % len(EDGE_EXP)], 0.5, 2.5]
            yield 'coll', {'type': n, 'cls': cls, 'unit': rng.choice(us), 'timestep': ts, 'leap': rng.random() < 0.3,
                           'values': [rng.choice(pool_x) for _k in range(nv)], 'ops': ops, 'form': form}


def _oracle_area_time_cases(ctx):
    rng = ctx.rng
    big = ctx.searching or not ctx.quick
    try:
        import ladybug.datatype as dtm
        types = sorted(dtm.TYPES)
    except Exception:
        types = sorted(SI)

    def root_of(n):
        try:
            return _root(_inst(n))
        except Exception:
            return None
    norm = [n for n in types if root_of(n) in NORMALIZED]
    rate = [n for n in types if root_of(n) in AGGREGATED]

    def nv(cls, ts=1):
        return 24 * ts if cls.startswith('HourlyContinuous') else rng.choice([1, 2, 3])
    for cls in COLL_CLASSES:
        for n in norm:
            r = root_of(n)
            for u in SI[r]:
                for au in ('m2', 'ft2'):
                    label = '%s-%s' % (u, au) if '/' in u else '%s/%s' % (u, au)
                    if label in SI[NORMALIZED[r]] and (big or rng.random() < 0.5):
                        meta = rng.choice([None, {'type': 'Zone'}, {'type': 'Zone Intensity', 'k': 'v'}, {}])
                        ctx.count('branch:normalize:unit_with_slash' if '/' in u else 'branch:normalize:plain_unit')
                        ctx.count('branch:normalize:metadata_type' if meta and 'type' in meta else 'branch:normalize:no_metadata_type')
                        ctx.count('branch:aggregate:specific_type' if n == r else 'branch:aggregate:base_type_of_subtype')
                        ctx.count('branch:aggregate:dash_label' if '/' in u else 'branch:aggregate:slash_label')
                        yield 'norm_agg', {'type': n, 'cls': cls, 'unit': u, 'area_unit': au,
                                           'area': rng.choice([2.0, 0.25, 37.5, rng.uniform(0.1, 1000), 1e-9, 3e12, 7]),
                                           'values': [rng.choice(ORACLE_X[:3] + [rng.uniform(-100, 100), 7.7777777e-12, -2.345678e15])
                                                      for _ in range(nv(cls))],
                                           'form': {'meta': meta, 'vshape': rng.choice(SHAPES[:4]), 'ap': rng.choice(AP_FORMS),
                                                    'how': rng.choice(INST_HOWS)}}
        if cls.startswith('Hourly') or cls.startswith('Daily'):
            for n in rate:
                r = root_of(n)
                for u in SI[r]:
                    if not (big or rng.random() < 0.5):
                        continue
                    ts = rng.choice(ALL_TIMESTEPS) if cls.startswith('Hourly') else 1
                    if cls.startswith('HourlyContinuous') and ts > 12 and not big:
                        ts = rng.choice([1, 2, 3, 4, 5, 6, 10, 12])
                    form = {'ap': rng.choice(AP_FORMS), 'vshape': rng.choice(SHAPES[:4]), 'how': rng.choice(INST_HOWS),
                            'order': rng.choice(['sorted', 'reversed', 'dup'])}
                    ctx.count('stratum:time_agg:timestep:%d' % ts)
                    ctx.count('stratum:time_agg:ap:' + form['ap'])
                    ctx.count('branch:time_agg:daily' if cls.startswith('Daily') else 'branch:time_agg:hourly')
                    yield 'time_agg', {'type': n, 'cls': cls, 'unit': u, 'timestep': ts, 'leap': rng.random() < 0.3, 'form': form,
                                       'values': [rng.choice([1.0, 1000.0, -40.0, rng.uniform(-100, 100), 7.7777777e-12, -2.345678e15,
                                                              0.5])
                                                  for _ in range(nv(cls, ts))]}


def _blind_hist_cases(ctx, count):
    """History inputs for the oracle, generated without the model: targets are resolved modulo the heap size, unit
    arguments are either explicit strings or a fraction picking one of the units the target's type lists."""
    rng = ctx.rng
    try:
        import ladybug.datatype as dtm
        all_types = sorted(dtm.TYPES)
    except Exception:
        all_types = sorted(SI)
    special = [n for n in all_types if n in SI and (n in NORMALIZED or n in UNNORMALIZED or n in AGGREGATED or
                                                   n in UNAGGREGATED)] + ['ActivityLevel', 'Irradiance', 'Radiation']
    special = [n for n in special if n in all_types]
    for q in range(count):
        cls = COLL_CLASSES[q % len(COLL_CLASSES)]
        r = rng.random()
        n = rng.choice(special) if r < 0.45 else rng.choice(all_types)
        try:
            us = list(_inst(n).units)
        except Exception:
            continue
        ts = 1
        if cls.startswith('HourlyContinuous'):
            nv = 24
        else:
            nv = rng.choice([1, 1, 2, 3])
            if cls.startswith('Hourly'):
                ts = rng.choice(ALL_TIMESTEPS)
        ops = []
        for _k in range(rng.randrange(3, 11)):
            tgt = rng.choice([0, 0, 1, 2, 3, 5, 7])
            k = _pick_weighted(rng, [('cu', 14), ('ci', 5), ('cs', 5), ('set', 5), ('vals', 4), ('rng', 8), ('tu', 8),
                                     ('ti', 3), ('ts', 3), ('dup', 3), ('imm', 9), ('mut', 5), ('norm', 5), ('agg', 5),
                                     ('tagg', 4), ('trate', 4)])
            if k in ('cu', 'tu'):
                r = rng.random()
                ops.append([k, tgt, round(rng.random(), 3) if r < 0.85 else rng.choice(UNKNOWN_UNITS + us)])
            elif k == 'set':
                ops.append([k, tgt, rng.randrange(0, 40), _hist_values(rng, 1)[0]])
            elif k == 'vals':
                ops.append([k, tgt, _hist_values(rng, nv if rng.random() < 0.8 else nv + rng.choice([-1, 1])),
                            rng.choice(SHAPES[:4])])
            elif k in ('norm', 'agg'):
                ops.append([k, tgt, rng.choice([2.0, 0.5, 37.5, rng.uniform(0.1, 1e3), 0.0]),
                            rng.choice(['m2', 'm2', 'ft2', 'ft2', 'mm2', ''])])
            else:
                ops.append([k, tgt])
            ctx.count('oracle_hist_op:' + k)
        ctx.count('oracle_hist:timestep:%d' % ts)
        if q % 9 == 0:
            # round 4 (kind f): two copies taken from one source, one of them edited and converted, the other and the
            # source asked again; then the source converted in place and the copies asked again
            ops = [['tu', 0, round(rng.random(), 3)], ['tu', 0, round(rng.random(), 3)], ['set', 1, 0, 12345.678],
                   ['cu', 1, round(rng.random(), 3)], ['rng', 2], ['ti', 0], ['ts', 0], ['cu', 3, round(rng.random(), 3)],
                   ['imm', 0], ['mut', 5], ['vals', 6, _hist_values(rng, nv), 'tuple'], ['cu', 0, round(rng.random(), 3)],
                   ['dup', 0], ['ci', 8], ['cs', 0]]
            ctx.count('stratum:hist:copies_edited_pattern')
        form = {'ap': rng.choice(AP_FORMS), 'vshape': rng.choice(SHAPES[:4]), 'meta': rng.choice([None, {}, {'type': 'Zone'}]),
                'order': rng.choice(['sorted', 'sorted', 'reversed', 'dup']), 'how': rng.choice(INST_HOWS)}
        yield 'hist', {'cls': cls, 'type': n, 'unit': rng.choice(us), 'values': _hist_values(rng, nv),
                       'timestep': ts, 'leap': rng.random() < 0.3, 'ops': ops, 'form': form}


def _thist_cases(ctx, count):
    """Histories of data-type calls on shared instances: sibling types asked the same range question one after the
    other (bounded before unbounded and the reverse), the same object asked for several unit pairs and asked twice,
    refused calls first."""
    rng = ctx.rng
    try:
        import ladybug.datatype as dtm
        all_types = sorted(dtm.TYPES)
    except Exception:
        return
    fams = {}
    for n in all_types:
        try:
            fams.setdefault(_root(_inst(n)), []).append(n)
        except Exception:
            pass
    fam_keys = sorted(k for k in fams if k)
    for q in range(count):
        root = fam_keys[q % len(fam_keys)] if q < len(fam_keys) else rng.choice(fam_keys)
        sibs = list(fams[root])
        rng.shuffle(sibs)
        us = list(SI[root])
        steps = []
        for u in rng.sample(us, min(len(us), 3)):
            if rng.random() < 0.5:
                steps.append(['reject', {'type': sibs[0], 'unit': rng.choice(UNKNOWN_UNITS), 'where': rng.choice(
                    ['from', 'to', 'in_range', 'header']), 'other': u}])
            for n in sibs[:6]:
                steps.append(['range', {'type': n, 'unit': u}])
            n = rng.choice(sibs)
            v, w = rng.choice(us), rng.choice(us)
            x = rng.choice(ORACLE_X)
            steps += [['si_pair', {'type': n, 'from': u, 'to': v, 'x': x}],
                      ['si_pair', {'type': n, 'from': w, 'to': u, 'x': x}],
                      ['si_pair', {'type': n, 'from': u, 'to': v, 'x': x}],
                      ['sys', {'type': n, 'from': u, 'which': rng.choice(['ip', 'si']), 'values': [x, 1.0]}],
                      ['roundtrip', {'type': n, 'from': v, 'to': u, 'x': x}]]
        ctx.count('oracle_thist_steps', len(steps))
        yield 'thist', {'steps': steps}


def _rarity(case):
    """Smaller = rarer class of the quantifier (used to put rare cases first / last in a fresh process)."""
    op, inp = case
    if op == 'reject':
        return 0
    if op == 'range':
        return 1
    if op == 'time_agg':
        return 1 if (inp['cls'].startswith('Daily') or inp.get('timestep', 1) != 1) else 4
    if op in ('hist', 'thist'):
        return 2
    if op == 'norm_agg':
        return 2 if inp['area_unit'] == 'ft2' else 4
    if op == 'coll':
        return 2 if any(len(o) > 1 and o[1] in UNKNOWN_UNITS for o in inp['ops']) else 4
    if op == 'sys':
        return 3
    if op in ('shape', 'coll_range'):
        return 1
    if op == 'alias':
        return 2
    if op in ('si_pair', 'roundtrip', 'identity') and (inp.get('shape', 'list') != 'list' or inp.get('how') or
                                                        not (1e-7 < abs(inp.get('x', 1.0)) < 1e10)):
        return 3
    return 5


def _order_slices(ctx, pool):
    """2-4 orders of one slice of the oracle stream, each evaluated in a fresh Python process."""
    rng = ctx.rng
    big = ctx.searching or not ctx.quick
    by_op = {}
    for c in pool:
        by_op.setdefault(c[0], []).append(c)
    quota = {'range': 10 ** 6, 'reject': 120, 'sys': 300, 'si_pair': 300, 'roundtrip': 100, 'identity': 60,
             'time_agg': 120, 'norm_agg': 60, 'coll': 80, 'hist': 80, 'thist': 40, 'units_known': 0}
    sl = []
    for op, cs in sorted(by_op.items()):
        k = quota.get(op, 50) * (3 if big else 1)
        sl += cs if len(cs) <= k else rng.sample(cs, k)
    rng.shuffle(sl)
    rare_first = sorted(sl, key=_rarity)
    # within the range cases of the rare-first order: subtypes with limits before the types without
    common_first = list(reversed(rare_first))
    shuffled = list(sl)
    rng.shuffle(shuffled)
    orders = [('rare-first', rare_first), ('common-first', common_first), ('shuffled', shuffled)]
    if big:
        again = list(sl)
        rng.shuffle(again)
        orders.append(('shuffled-2', again))
    return orders


def _run_order_slices(ctx, pool):
    for tag, order in _order_slices(ctx, pool):
        ctx.count('order_process:' + tag)
        ctx.count('order_process_cases', len(order))
        fails = _subprocess_eval(order, cap=5)
        for op, inp in order:
            ctx.count('order:' + op)
        ctx.case(('order', tag, len(order)))
        if not fails:
            continue
        k, res = fails[0]
        last = order[k]
        kept = _shrink_order(order[:k], last, budget=30 if ctx.searching else 16)
        if not kept:
            # fails on its own in a fresh process: report the plain case
            ctx.fail(last[0], last[1], res['required'], res['observed'], res.get('sig'))
            if ctx.failures and ctx.failures[-1]['input'] is last[1]:
                ctx.failures[-1]['_fresh'] = True
        else:
            inp = {'order': kept + [last]}
            r2 = _check_order(inp) or {'required': res['required'], 'observed': res['observed'], 'sig': res.get('sig')}
            ctx.fail('order', inp, r2['required'], r2['observed'], dict(r2.get('sig') or {}, order=True))


_UNITS_CACHE = {}


def _count_branches(ctx, op, inp):
    """Which branch of the anchored functions an oracle input takes (computed from the input, not by instrumenting
    the code): the counters land in evidence as `branch:...` (round 4, kind j)."""
    try:
        n = inp.get('type')
        if n is None:
            return
        if n not in _UNITS_CACHE:
            t = _inst(n)
            _UNITS_CACHE[n] = (list(t.units), _as_tuple(t.si_units), _as_tuple(t.ip_units), _root(t))
        us, si, ip, root = _UNITS_CACHE[n]
        if op in ('si_pair', 'roundtrip'):
            u, v = inp['from'], inp['to']
            ctx.count('branch:to_unit_base:%s' % ('both_base' if u == us[0] and v == us[0] else 'from_is_base' if u == us[0]
                                                  else 'to_is_base' if v == us[0] else 'two_legs'))
        elif op == 'sys':
            u, listed = inp['from'], (ip if inp['which'] == 'ip' else si)
            ctx.count('branch:to_%s:%s' % (inp['which'], 'already_listed' if u in listed else
                                           'neither_si_nor_ip' if (u not in si and u not in ip) else 'converted'))
            ctx.count('branch:to_%s:%s:%s' % (inp['which'], root, u))
        elif op == 'reject':
            ctx.count('branch:reject:' + inp['where'])
        elif op == 'range':
            ctx.count('branch:is_in_range:' + ('first_unit' if inp['unit'] == us[0] else 'converted_limits'))
        elif op == 'coll':
            cls = inp['cls']
            for o in inp['ops']:
                ctx.count('branch:coll:%s:%s' % (o[0], 'immutable' if cls.endswith('Immutable') else 'mutable'))
            ctx.count('branch:header:' + ('metadata_none' if (inp.get('form') or {}).get('meta') is None else 'metadata_dict'))
    except Exception:
        pass


def oracle(ctx):
    big = ctx.searching or not ctx.quick
    pool = []

    def keep(gen):
        for c in gen:
            pool.append(c)
            _count_branches(ctx, c[0], c[1])
            yield c

    run_oracle_cases(ctx, keep(_oracle_cases(ctx)), check_case)
    run_oracle_cases(ctx, keep(_oracle_area_time_cases(ctx)), check_case)
    run_oracle_cases(ctx, keep(_blind_hist_cases(ctx, 12000 if big else 900)), check_case)
    run_oracle_cases(ctx, keep(_thist_cases(ctx, 1000 if big else 90)), check_case)
    del ctx.failures[150:]      # (the core keeps at most 200) leave room for what the fresh processes find
    n_in_process = len(ctx.failures)
    # process-order independence: the same kinds of cases, in fresh processes, in 3-4 different orders
    _run_order_slices(ctx, pool)
    # a failure seen only in THIS process (which has a long history behind it) is a usable replay only if it also
    # fails on its own in a fresh process: put the reproducible ones first
    if ctx.failures:
        checked = 0
        for f in ctx.failures[:n_in_process]:
            if checked >= 6:
                break
            checked += 1
            try:
                f['_fresh'] = bool(_subprocess_eval([[f['op'], f['input']]], cap=1))
            except Exception:
                f['_fresh'] = False
        ctx.failures.sort(key=lambda f: 0 if (f.get('_fresh') or f['op'] == 'order') else 1 if '_fresh' not in f else 2)
        for f in ctx.failures:
            f.pop('_fresh', None)
        f = ctx.failures[0]
        if f['op'] == 'hist':
            try:
                small = _shrink_hist(f['input'], f['sig'])
                if len(small['ops']) < len(f['input']['ops']):
                    got = _subprocess_eval([['hist', small]], cap=1)
                    if got:
                        f['input'], f['required'], f['observed'] = small, got[0][1]['required'], got[0][1]['observed']
            except Exception:
                pass
