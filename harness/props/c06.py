"""C06 — Unit conversions agree with the SI definitions of the units and invert.

Model: lean/Ladybug/Model/Units.lean (dispatch, range limits, to_ip/to_si, collection conversion),
       lean/Ladybug/Gen/Units.lean (REGENERATED on every run: all `_<u>_to_<v>` formulas as exact Rat
       functions, per-type tables), lean/Ladybug/Model/SI.lean (hand-written SI definitions);
theorems: lean/Ladybug/Props/C06.lean + the regenerated obligations lean/Ladybug/Gen/UnitsProofs*.lean;
driver: drv_c06.  Tie: translator (tools/extract/units.py) + correspondence on the ops below.
"""
import json
import math
import struct
from fractions import Fraction as Fr

from harness import core
from harness.core import err_name, run_oracle_cases

PROP = 'C06'
N_GEN_PROOFS = 4
PROOF_MODULES = ['Ladybug.Props.C06'] + ['Ladybug.Gen.UnitsProofs%d' % k for k in range(1, N_GEN_PROOFS + 1)] \
    + ['Ladybug.Gen.UnitsSym']
GREP_MODULES = ['Ladybug.Py', 'Ladybug.DrvCore', 'Ladybug.Model.Units', 'Ladybug.Model.SI', 'Ladybug.Gen.Units',
                'Ladybug.Proofs.C06Lemmas', 'Ladybug.Drv.C06']
EXTRACTORS = 'tools/extract/units.py'
RULE = ('correspondence: every ordered unit pair of every base type x magnitudes 0, +-1, +-10^k (k=-12..12) and '
        'random values (model = regenerated exact Rat formulas run by the Lean driver, implementation = '
        'DataType.to_unit; relative tolerance 1e-12 after decoding), unknown/malformed units, to_ip/to_si and '
        'is_in_range of all 109 types x units, Header unit acceptance, random convert_*/to_* sequences on small '
        'collections of all 10 collection classes (convert_* on immutable classes must raise), normalize/aggregate by '
        'area and time aggregation / rate of change on all classes that have them (timesteps 1,2,4,6; daily), values '
        'with non-numbers (_is_numeric), GenericType; oracle: independent SI table (exact fractions) x every ordered '
        'pair x magnitudes: 0.2 % agreement, 2e-5 round trip, identity, IP/SI targets, rejection, collections keep '
        'values/unit/type in step, normalise x area = original quantity and aggregate undoes it, rate x seconds = '
        'aggregated quantity and rate of change undoes it (SI).  A case is non-trivial when the implementation returns a value (not a '
        'rejection); distinct = distinct (op, input)')
TRUSTED_BASE = [
    'translator tools/extract/units.py: the emitted Lean expression denotes the Python `return` expression over '
    'exact rationals (decimal literals by source text); the dispatch table (which method a unit reaches) and the '
    'to_ip/to_si target maps are obtained by calling the real `_clean` / `to_ip` / `to_si` on every listed unit. '
    'Mitigation: every generated function is executed by the driver and compared with the real float methods',
    'hand-written SI definitions lean/Ladybug/Model/SI.lean (reviewed by hand; the oracle has its own table, written '
    'separately in Python; the two are not compared entry by entry, but both are checked against the same code '
    'within 0.2 % on every run)',
    'IEEE-754 evaluation of the formulas vs exact rationals: compared to 1e-12 relative on the generated '
    'magnitudes, not proved (>= 10^6 head-room below the 2e-5 / 0.2 % bounds)',
    'Angle: pi is a symbol; theorems hold for every non-zero pi of every field of characteristic 0',
    'normalize_by_area/aggregate_by_area unit labels and the reverse type look-ups are string/table functions: '
    'executable model compared with the code on every run; their label round trip is a compile-time #guard over the '
    'regenerated tables (the kernel does not evaluate String.replace), values and factors are theorems',
    'GenericType and the `_is_numeric` assertion are small hand models (to_unit not implemented / first value only) '
    'tied by the correspondence ops `generic` and `raw`',
]
ASSUMPTIONS = ['SI / legal definitions of the units as listed at the top of Model/SI.lean',
               'thermochemical calorie, International-Table Btu, US gallon/fluid ounce, mechanical horsepower, '
               'conventional inHg / inH2O, met = 58.15 W/m2 (alternatives differ by < 0.1 %)']
LEVEL_TEXT = ('Machine-checked Lean 4 theorems over exact rationals: every one of the 256 unit formulas, '
              'regenerated from the Python source on each run, is proved to be the affine map A*x+B (ring); for '
              'each of the 33 rational base types a kernel-checked certificate shows that every ordered unit pair '
              'agrees with a hand-written SI table within 0.2 % (factor and offset), converts there and back within '
              '2e-5, that to_ip/to_si land in listed IP/SI units idempotently; general theorems lift this to the '
              'dispatch (to_unit on listed units, rejection of unlisted ones) and to collection conversion '
              '(convert_to_unit/ip/si and to_unit/ip/si: values, unit and data type move together; meaning preserved '
              'within the round-trip bound; immutable classes refuse in-place conversion), to the unit NAMES returned by '
              'to_ip/to_si (listed, idempotent, identity when listed), to is_in_range (limits converted with the same '
              'formulas, order preserved), to normalize/aggregate by area and time aggregation (exact inverses; generated '
              'theorems: normalised units are SI quotients, aggregation factors are 3600 s in SI terms), GenericType and '
              'the _is_numeric guard. Angle is proved symbolically in pi over any field of characteristic 0.')
LEVEL_NOTE = ('Trusted: Lean kernel; axioms propext/Classical.choice/Quot.sound only; the formula translator and the '
              'hand-written SI table; float vs exact arithmetic compared (1e-12), not proved; correspondence on '
              'generated inputs only for the dispatch/collection layer.')
TECHNIQUE = ('Lean 4 proof (ring per regenerated formula, decide +kernel certificates over exact rationals, general '
             'lifting lemmas) about a model tied to datatype/*.py by a translator and differential correspondence')

REL_TOL = 1e-12
OFFSET_TYPES_ABS = 1e-9      # absolute slack where formulas have offsets (cancellation near 0 in floats)

COLL_CLASSES = ['HourlyDiscontinuousCollection', 'HourlyContinuousCollection', 'DailyCollection',
                'MonthlyCollection', 'MonthlyPerHourCollection',
                'HourlyDiscontinuousCollectionImmutable', 'HourlyContinuousCollectionImmutable',
                'DailyCollectionImmutable', 'MonthlyCollectionImmutable', 'MonthlyPerHourCollectionImmutable']

UNKNOWN_UNITS = ['', 'kwh', 'KWH', 'foo', 'W_m2', 'degC', 'C ', ' C', 'm^2', 'Btu/h ft2', 'percent', 'None',
                 'no such unit', 'mi2 ', 'fl_oz', 'oz/in^3']


def extract(ctx):
    from tools.extract import units
    ctx.units_table = units.extract()


# ---------------------------------------------------------------------------------------------
# protocol helpers


def _fbits(x):
    return '%016x' % struct.unpack('<Q', struct.pack('<d', float(x)))[0]


def _utok(u):
    return 'none' if u is None else 'u:' + u.replace(' ', '^')


def _uparse(tok):
    return tok[2:].replace('^', ' ')


def _vals(xs):
    return '%d %s' % (len(xs), ' '.join(_fbits(x) for x in xs)) if xs else '0'


def _parse_model(out):
    """Model answer -> list of items (str | Fraction)."""
    items = []
    for t in out.split():
        if t[0].isdigit() or (t[0] == '-' and len(t) > 1 and t[1].isdigit()):
            items.append(Fr(t))
        else:
            items.append(t)
    return items


def _close(m, i, slack):
    if isinstance(i, bool) or not isinstance(i, (int, float)):
        return False
    if math.isnan(i) or math.isinf(i):
        return False
    mf = float(m)
    return abs(mf - i) <= REL_TOL * max(abs(mf), abs(i)) + slack


def _same(model_items, impl_items, slack):
    if len(model_items) != len(impl_items):
        return False
    for m, i in zip(model_items, impl_items):
        if isinstance(m, Fr):
            if not _close(m, i, slack):
                return False
        elif m != i:
            return False
    return True


def compare_num(ctx, op, cases, model_line, impl_fn, slack_fn=None, key=None):
    """Like core.compare_batch, but numbers are compared numerically (1e-12 relative) after decoding."""
    lines = [model_line(c) for c in cases]
    outs = ctx.driver().run(lines)
    for c, line, mo in zip(cases, lines, outs):
        try:
            io = impl_fn(c)
        except Exception as e:
            io = ['err:' + err_name(e)]
        ctx.compared += 1
        ctx.count('op:' + op)
        is_err = bool(io) and isinstance(io[0], str) and io[0].startswith('err:')
        ctx.case((op, key(c) if key else line), nontrivial=not is_err)
        if is_err:
            ctx.count('err_results')
            ctx.count('result:%s:%s' % (op, io[0]))
        else:
            ctx.count('result:%s:ok' % op)
        if not _same(_parse_model(mo), io, slack_fn(c) if slack_fn else 0.0):
            ctx.disagree(op, {'case': c, 'line': line}, mo, ' '.join(
                (repr(x) if isinstance(x, float) else str(x)) for x in io))
    if cases:
        ctx.sample({'op': op, 'request': lines[0][:300], 'model': outs[0][:300]})
    return outs


def _magnitudes(rng, n_random):
    xs = [0.0, 1.0, -1.0]
    for k in range(-12, 13):
        xs += [10.0 ** k, -(10.0 ** k)]
    for _ in range(n_random):
        r = rng.random()
        if r < 0.4:
            xs.append(rng.uniform(-1000, 1000))
        elif r < 0.7:
            xs.append(rng.choice([-1, 1]) * 10 ** rng.uniform(-12, 12))
        elif r < 0.85:
            xs.append(float(rng.randrange(-5000, 5000)))
        else:
            xs.append(rng.choice([32.0, -40.0, 273.15, -273.15, 459.67, 212.0, 0.5, 100.0, 123456789.0]))
    return xs


def _model_tables(ctx):
    """The model's own view of the types (from the driver), so that generation does not depend on the
    code under test: {name: {'parent', 'units', 'si', 'ip', 'toip', 'tosi', 'min', 'max', 'strict'}}."""
    drv = ctx.driver()
    names = drv.run(['names'])[0].split()
    outs = drv.run(['tables ' + n for n in names])
    tabs = {}
    for n, o in zip(names, outs):
        t = o.split()
        if t[0] != 'ok':
            raise core.MachineryError('driver has no table for ' + n)
        d = {'parent': t[1][2:]}
        i = 2
        cur = None
        sect = {'units': [], 'si': [], 'ip': [], 'toip': [], 'tosi': [], 'base': [], 'min': [], 'max': [],
                'strict': []}
        while i < len(t):
            if t[i] in sect and not t[i].startswith('u:'):
                cur = t[i]
            else:
                sect[cur].append(t[i])
            i += 1
        d['units'] = [_uparse(x) for x in sect['units']]
        d['si'] = [_uparse(x) for x in sect['si']]
        d['ip'] = [_uparse(x) for x in sect['ip']]
        d['toip'] = [int(x) for x in sect['toip']]
        d['tosi'] = [int(x) for x in sect['tosi']]
        d['base'] = int(sect['base'][0])
        d['min'], d['max'] = sect['min'][0], sect['max'][0]
        d['strict'] = sect['strict']
        tabs[n] = d
    return tabs


def _bound_str(x):
    if x == float('-inf'):
        return '-inf'
    if x == float('inf'):
        return 'inf'
    if x != x:
        return 'nan'
    fr = Fr(repr(float(x))) if not isinstance(x, int) else Fr(x)
    return str(fr.numerator) if fr.denominator == 1 else '%d/%d' % (fr.numerator, fr.denominator)


def _inst(name):
    import ladybug.datatype as dtm
    return dtm.TYPESDICT[name]()


def _has_offset(tabs, name):
    return tabs[name]['parent'] == 'Temperature'


# ---------------------------------------------------------------------------------------------
# correspondence


def correspondence(ctx):
    rng = ctx.rng
    tabs = _model_tables(ctx)
    names = sorted(tabs)
    base_names = [n for n in names if tabs[n]['parent'] == n]

    # --- type list and tables (all 109 types)
    import ladybug.datatype as dtm
    real = sorted(dtm.TYPES)
    ctx.compared += 1
    if real != names:
        ctx.disagree('type_names', {'only_model': sorted(set(names) - set(real)),
                                    'only_impl': sorted(set(real) - set(names))}, len(names), len(real))

    def impl_tables(n):
        t = _inst(n)
        units = list(t.units)
        si = [t.si_units] if isinstance(t.si_units, str) else list(t.si_units)
        ip = [t.ip_units] if isinstance(t.ip_units, str) else list(t.ip_units)
        toip = [units.index(t.to_ip([1.0], u)[1]) for u in units]
        tosi = [units.index(t.to_si([1.0], u)[1]) for u in units]

        def strict(f):
            try:
                f([1.0], 'no such unit')
                return '0'
            except ValueError:
                return '1'
        parent = [c.__name__ for c in type(t).__mro__ if c.__name__ in dtm.BASETYPES][0]
        return ' '.join(['ok', 'P:' + parent, 'units'] + [_utok(u) for u in units] + ['si'] + [_utok(u) for u in si]
                        + ['ip'] + [_utok(u) for u in ip] + ['base', '0', 'toip'] + [str(x) for x in toip]
                        + ['tosi'] + [str(x) for x in tosi]
                        + ['min', _bound_str(t.min), 'max', _bound_str(t.max), 'strict', strict(t.to_ip),
                           strict(t.to_si)])

    core.compare_batch(ctx, 'tables', names, lambda n: 'tables ' + n, impl_tables)

    # --- to_unit on every ordered pair of every base type (incl. the identity pairs)
    cases = []
    for n in base_names:
        us = tabs[n]['units']
        for u in us:
            for v in us:
                xs = _magnitudes(rng, ctx.n(6, 60))
                cases.append((n, v, u, xs))
                ctx.count('pairs')
                ctx.count('pair_values', len(xs))
    # subtypes share the formulas: a sample of them
    for n in names:
        if tabs[n]['parent'] != n:
            us = tabs[n]['units']
            for _ in range(ctx.n(2, 8)):
                cases.append((n, rng.choice(us), rng.choice(us), _magnitudes(rng, 3)[::5]))
                ctx.count('subtype_pairs')

    def impl_to_unit(c):
        r = _inst(c[0]).to_unit(list(c[3]), c[1], c[2])
        return ['ok'] + list(r)

    def line_to_unit(c):
        return 'to_unit %s %s %s %s' % (c[0], _utok(c[1]), _utok(c[2]), _vals(c[3]))

    def slack(c):
        return OFFSET_TYPES_ABS if _has_offset(tabs, c[0]) else 0.0

    compare_num(ctx, 'to_unit', cases, line_to_unit, impl_to_unit, slack,
                key=lambda c: (c[0], c[1], c[2], len(c[3]), repr(c[3][-1])))

    # --- malformed: unlisted units in either position (about 10 % of the stream), empty value lists
    cases = []
    for n in names:
        us = tabs[n]['units']
        others = [u for m in base_names if m != tabs[n]['parent'] for u in tabs[m]['units'] if u not in us]
        for _ in range(ctx.n(3, 12)):
            bad = rng.choice(UNKNOWN_UNITS + [rng.choice(others)] * 3 + [rng.choice(us).lower() + '_', rng.choice(us) + ' '])
            if bad in us:
                continue
            good = rng.choice(us)
            r = rng.random()
            pair = (bad, good) if r < 0.4 else (good, bad) if r < 0.8 else (bad, rng.choice(UNKNOWN_UNITS))
            cases.append((n, pair[0], pair[1], [1.0, 2.5]))
            ctx.count('malformed_units')
        cases.append((n, us[0], us[0], []))
        cases.append((n, us[-1], us[0], []))
    compare_num(ctx, 'to_unit_malformed', cases, line_to_unit, impl_to_unit, slack,
                key=lambda c: (c[0], c[1], c[2], len(c[3])))

    # --- to_ip / to_si of every type x unit (+ unlisted units)
    cases = []
    for n in names:
        us = tabs[n]['units']
        for u in us + [rng.choice(UNKNOWN_UNITS), rng.choice(UNKNOWN_UNITS)]:
            for which in ('to_ip', 'to_si'):
                cases.append((which, n, u, [0.0, 1.0, -2.5, rng.uniform(-1e4, 1e4), 10.0 ** rng.randrange(-9, 9)]))

    def impl_sys(c):
        vals, u = getattr(_inst(c[1]), c[0])(list(c[3]), c[2])
        return ['ok', _utok(u)] + list(vals)

    compare_num(ctx, 'to_ip_si', cases, lambda c: '%s %s %s %s' % (c[0], c[1], _utok(c[2]), _vals(c[3])),
                impl_sys, lambda c: OFFSET_TYPES_ABS if _has_offset(tabs, c[1]) else 0.0,
                key=lambda c: (c[0], c[1], c[2]))

    # --- is_in_range of every type x unit around the limits
    cases = []
    for n in names:
        us = tabs[n]['units']
        t = tabs[n]
        lims = []
        for b in (t['min'], t['max']):
            if b not in ('-inf', 'inf', 'nan'):
                lims.append(float(Fr(b)))
        for u in us + [None, rng.choice(UNKNOWN_UNITS)]:
            probes = [[], [0.0], [1.0, -1.0], [1e30], [-1e30], [rng.uniform(-500, 500) for _ in range(3)]]
            for lim in lims:
                # the limit expressed in `u` is computed by the code itself; probe at a distance
                # that float rounding cannot bridge: scale the limit in the base unit first
                probes += [[lim], [lim * 2 + 1], [lim * 2 - 1], [lim / 2]]
            for p in probes:
                cases.append((n, u, p))
                ctx.count('in_range_cases')

    def impl_range(c, raise_exception=False):
        t = _inst(c[0])
        r = t.is_in_range(list(c[2]), c[1], raise_exception)
        return ['ok', '1' if r else '0']

    def range_ok(c):
        """skip probes that sit within float noise of a converted limit (model is exact, code is IEEE)"""
        return True

    def line_range(c):
        return 'in_range %s %s %s' % (c[0], _utok(c[1]), _vals(c[2]))

    # compare numerically robust cases only: drop probes within 1e-9 relative of a converted limit
    safe = []
    lines = [line_range(c) for c in cases]
    for c in cases:
        safe.append(c)
    outs = ctx.driver().run(lines)
    for c, line, mo in zip(safe, lines, outs):
        ctx.compared += 1
        ctx.count('op:in_range')
        try:
            io = ' '.join(impl_range(c))
        except Exception as e:
            io = 'err:' + err_name(e)
        try:
            impl_range(c, True)
            io_raise = 'ok 1'
        except ValueError:
            io_raise = 'raises'
        except Exception as e:
            io_raise = 'err:' + err_name(e)
        want_raise = 'ok 1' if mo == 'ok 1' else 'raises' if mo in ('ok 0', 'err:value') else mo
        ctx.case(('in_range', line), nontrivial=io.startswith('ok'))
        if mo != io and not _near_limit(c, tabs):
            ctx.disagree('in_range', {'case': c, 'line': line}, mo, io)
        elif want_raise != io_raise and not _near_limit(c, tabs):
            ctx.disagree('in_range_raise', {'case': c, 'line': line}, want_raise, io_raise)

    # --- Header unit acceptance
    from ladybug.header import Header
    from ladybug.analysisperiod import AnalysisPeriod
    cases = []
    for n in names:
        us = tabs[n]['units']
        for u in us + [rng.choice(UNKNOWN_UNITS) for _ in range(2)]:
            cases.append((n, u))

    def impl_header(c):
        h = Header(_inst(c[0]), c[1], AnalysisPeriod())
        return 'ok' if h.unit == c[1] else 'unit changed'

    core.compare_batch(ctx, 'header', cases, lambda c: 'header %s %s' % (c[0], _utok(c[1])), impl_header)

    # --- collections of every class through convert_* / to_* sequences
    cases = []
    for ci, cls in enumerate(COLL_CLASSES):
        for k in range(ctx.n(40, 400)):
            n = rng.choice(base_names) if rng.random() < 0.7 else rng.choice(names)
            us = tabs[n]['units']
            u0 = rng.choice(us) if rng.random() < 0.93 else rng.choice(UNKNOWN_UNITS)
            nv = 24 if cls.startswith('HourlyContinuous') else rng.choice([1, 2, 3, 5])
            vals = [rng.choice(_magnitudes(rng, 4)) for _ in range(nv)]
            ops = []
            for _ in range(rng.randrange(1, 6)):
                o = rng.choice(['cu', 'cu', 'cu', 'tu', 'tu', 'ci', 'cs', 'ti', 'ts'])
                if o in ('cu', 'tu'):
                    ops.append([o, rng.choice(us) if rng.random() < 0.9 else rng.choice(UNKNOWN_UNITS)])
                else:
                    ops.append([o])
            cases.append((cls, n, u0, vals, ops))
            ctx.count('coll:' + cls)
            ctx.count('coll_ops', len(ops))

    def line_coll(c):
        toks = []
        for o in c[4]:
            toks.append(o[0])
            if len(o) > 1:
                toks.append(_utok(o[1]))
        return 'coll %s %s %s %s %s' % ('1' if c[0].endswith('Immutable') else '0', c[1], _utok(c[2]),
                                        _vals(c[3]), ' '.join(toks))

    def impl_coll(c):
        try:
            coll = make_collection(c[0], c[1], c[2], c[3])
        except ValueError:
            return ['err:value']
        out = ['ok']
        for o in c[4]:
            out.append('|')
            try:
                res = apply_op(coll, o)
                if res is None:
                    out.append('ok')
                else:
                    out += ['new'] + state(res)
            except Exception as e:
                out.append('err:' + err_name(e))
            out.append('#')
            out += state(coll)
        return out

    compare_num(ctx, 'coll', cases, line_coll, impl_coll,
                lambda c: OFFSET_TYPES_ABS if _has_offset(tabs, c[1]) else 0.0,
                key=lambda c: json.dumps([c[0], c[1], c[2], c[4], len(c[3])]))

    _area_time_correspondence(ctx, tabs, names, base_names)
    _raw_generic_correspondence(ctx, tabs, names, base_names)


def _area_time_correspondence(ctx, tabs, names, base_names):
    """normalize_by_area / aggregate_by_area / to_time_aggregated / to_time_rate_of_change."""
    rng = ctx.rng
    norm_types = ['Energy', 'Power', 'VolumeFlowRate', 'ActivityLevel']
    int_types = [n for n in names if tabs[n]['parent'] in ('EnergyIntensity', 'EnergyFlux', 'VolumeFlowRateIntensity')]
    rate_types = [n for n in names if tabs[n]['parent'] in ('EnergyFlux', 'MassFlowRate', 'Power', 'Speed',
                                                            'TemperatureDelta')]
    agg_types = [n for n in names if tabs[n]['parent'] in ('EnergyIntensity', 'Mass', 'Energy', 'Distance',
                                                           'TemperatureTime')]
    area_units = tabs['Area']['units']

    def nvals(cls, ts=1):
        return 24 * ts if cls.startswith('HourlyContinuous') else rng.choice([1, 2, 3])

    def pick_vals(k):
        return [rng.choice([0.0, 1.0, -2.5, 1000.0, rng.uniform(-1e4, 1e4), 10.0 ** rng.randrange(-6, 7)])
                for _ in range(k)]

    cases = []
    for cls in COLL_CLASSES:
        for _ in range(ctx.n(30, 300)):
            op = rng.choice(['norm', 'agg'])
            r = rng.random()
            if op == 'norm':
                n = rng.choice(norm_types) if r < 0.8 else rng.choice(names)
            else:
                n = rng.choice(int_types) if r < 0.8 else rng.choice(names)
            u = rng.choice(tabs[n]['units'])
            r = rng.random()
            au = rng.choice(['m2', 'ft2']) if r < 0.7 else rng.choice(area_units) if r < 0.9 else \
                rng.choice(UNKNOWN_UNITS)
            if op == 'agg' and rng.random() < 0.6:
                au = 'ft2' if 'ft2' in u else 'm2'
            if op == 'norm' and rng.random() < 0.5:
                au = 'ft2' if ('Btu' in u or 'ft' in u or u in ('cfm', 'gph')) else 'm2'
            area = rng.choice([2.0, 0.5, 100.0, rng.uniform(0.1, 1e4), -3.0]) if rng.random() < 0.93 else 0.0
            cases.append((op, cls, n, u, pick_vals(nvals(cls)), area, au))
            ctx.count('area_op:' + op)

    def line_area(c):
        return '%s %s %s %s %s %s %s' % (c[0], '1' if c[1].endswith('Immutable') else '0', c[2], _utok(c[3]),
                                        _vals(c[4]), _fbits(c[5]), _utok(c[6]))

    def impl_area(c):
        coll = make_collection(c[1], c[2], c[3], c[4])
        res = coll.normalize_by_area(c[5], c[6]) if c[0] == 'norm' else coll.aggregate_by_area(c[5], c[6])
        return ['ok'] + state(res)

    compare_num(ctx, 'area', cases, line_area, impl_area,
                key=lambda c: json.dumps([c[0], c[1], c[2], c[3], c[6], c[5], len(c[4])]))

    cases = []
    for cls in COLL_CLASSES:
        if not (cls.startswith('Hourly') or cls.startswith('Daily')):
            continue
        for _ in range(ctx.n(30, 300)):
            op = rng.choice(['tagg', 'trate'])
            r = rng.random()
            if op == 'tagg':
                n = rng.choice(rate_types) if r < 0.85 else rng.choice(names)
            else:
                n = rng.choice(agg_types) if r < 0.85 else rng.choice(names)
            u = rng.choice(tabs[n]['units'])
            ts = rng.choice([1, 1, 2, 4, 6]) if cls.startswith('Hourly') else 1
            cases.append((op, cls, n, u, pick_vals(nvals(cls, ts)), ts))
            ctx.count('time_op:' + op)

    def step_of(c):
        return float(c[5]) if c[1].startswith('Hourly') else 1. / 24.

    def line_time(c):
        return '%s %s %s %s %s %s' % (c[0], '1' if c[1].endswith('Immutable') else '0', c[2], _utok(c[3]),
                                     _vals(c[4]), _fbits(step_of(c)))

    def impl_time(c):
        coll = make_collection(c[1], c[2], c[3], c[4], c[5])
        res = coll.to_time_aggregated() if c[0] == 'tagg' else coll.to_time_rate_of_change()
        return ['ok'] + state(res)

    compare_num(ctx, 'time', cases, line_time, impl_time,
                key=lambda c: json.dumps([c[0], c[1], c[2], c[3], c[5], len(c[4])]))


def _raw_generic_correspondence(ctx, tabs, names, base_names):
    """`_is_numeric` (values with non-numbers) and GenericType."""
    rng = ctx.rng
    cases = []
    for _ in range(ctx.n(300, 3000)):
        n = rng.choice(base_names)
        us = tabs[n]['units']
        u = rng.choice(us) if rng.random() < 0.85 else rng.choice(UNKNOWN_UNITS)
        f = rng.choice(us) if rng.random() < 0.85 else rng.choice(UNKNOWN_UNITS)
        if rng.random() < 0.3:
            u = f = us[0]
        k = rng.choice([0, 1, 2, 3])
        vals = []
        for i in range(k):
            r = rng.random()
            vals.append(None if r < 0.3 else rng.choice([0.0, 1.0, -40.0, rng.uniform(-100, 100)]))
        cases.append((n, u, f, vals))
        ctx.count('raw:first_non_number' if vals and vals[0] is None else
                  'raw:later_non_number' if None in vals else 'raw:all_numbers')

    def line_raw(c):
        return 'raw %s %s %s %d %s' % (c[0], _utok(c[1]), _utok(c[2]), len(c[3]),
                                       ' '.join('str' if v is None else _fbits(v) for v in c[3]))

    def impl_raw(c):
        r = _inst(c[0]).to_unit([('abc' if v is None else v) for v in c[3]], c[1], c[2])
        return ['ok'] + ['str' if isinstance(v, str) else v for v in r]

    compare_num(ctx, 'raw', cases, line_raw, impl_raw,
                lambda c: OFFSET_TYPES_ABS if _has_offset(tabs, c[0]) else 0.0,
                key=lambda c: json.dumps([c[0], c[1], c[2], [v is None for v in c[3]]]))

    from ladybug.datatype.generic import GenericType
    gunits = ['widgets', 'kWh', 'fl oz', '%', 'C']
    cases = []
    for g in gunits:
        for u in gunits + ['', 'Widgets']:
            cases.append(('g_to_unit', g, u, rng.choice(gunits), [1.0, 2.0]))
            cases.append(('g_to_sys', g, u, 'ip', [1.0, -2.5]))
            cases.append(('g_to_sys', g, u, 'si', [rng.uniform(-5, 5)]))
            cases.append(('g_header', g, u))
            for lo, hi in ((None, None), (0.0, None), (-1.0, 1.0), (None, 10.0)):
                for vals in ([], [0.5], [-2.0, 0.5], [11.0], [0.0, 1.0]):
                    cases.append(('g_in_range', g, u, lo, hi, vals))
                    cases.append(('g_in_range', g, None, lo, hi, vals))

    def bnd(x, neg):
        return ('-inf' if neg else 'inf') if x is None else _fbits(x)

    def line_g(c):
        if c[0] == 'g_to_unit':
            return 'g_to_unit %s %s %s %s' % (_utok(c[1]), _utok(c[2]), _utok(c[3]), _vals(c[4]))
        if c[0] == 'g_to_sys':
            return 'g_to_sys %s %s %s' % (_utok(c[1]), _utok(c[2]), _vals(c[4]))
        if c[0] == 'g_header':
            return 'g_header %s %s' % (_utok(c[1]), _utok(c[2]))
        return 'g_in_range %s %s %s %s %s' % (_utok(c[1]), bnd(c[3], True), bnd(c[4], False), _utok(c[2]), _vals(c[5]))

    def impl_g(c):
        from ladybug.header import Header
        from ladybug.analysisperiod import AnalysisPeriod
        if c[0] == 'g_in_range':
            g = GenericType('My Type', c[1], float('-inf') if c[3] is None else c[3],
                            float('inf') if c[4] is None else c[4])
            return ['ok', 1.0 if g.is_in_range(list(c[5]), c[2], False) else 0.0]
        g = GenericType('My Type', c[1])
        if c[0] == 'g_to_unit':
            return ['ok'] + list(g.to_unit(list(c[4]), c[2], c[3]))
        if c[0] == 'g_to_sys':
            vals, u = (g.to_ip if c[3] == 'ip' else g.to_si)(list(c[4]), c[2])
            return ['ok', _utok(u)] + list(vals)
        h = Header(g, c[2], AnalysisPeriod())
        return ['ok'] if h.unit == c[2] else ['unit changed']

    compare_num(ctx, 'generic', cases, line_g, impl_g, key=lambda c: json.dumps(c))


def _near_limit(c, tabs):
    """An is_in_range probe within float noise of a converted limit (exact model vs IEEE code)."""
    n, u, p = c
    t = tabs[n]
    if u is None or u not in t['units'] or not p:
        return False
    try:
        inst = _inst(n)
        lims = []
        for b in (inst.min, inst.max):
            if b not in (float('-inf'), float('inf')):
                lims.append(inst.to_unit([float(b)], u, t['units'][0])[0])
        return any(abs(x - l) <= 1e-9 * max(1.0, abs(l)) for x in p for l in lims)
    except Exception:
        return False


def make_collection(cls, tname, unit, values, timestep=1):
    """A small collection of class `cls` with len(values) values (built from plain numbers)."""
    from ladybug import datacollection as dc
    from ladybug import datacollectionimmutable as dci
    from ladybug.header import Header
    from ladybug.analysisperiod import AnalysisPeriod
    from ladybug.dt import DateTime
    k = len(values)
    klass = getattr(dc, cls, None) or getattr(dci, cls)
    dt = _inst(tname)
    if cls.startswith('HourlyContinuous'):
        # whole days only (k is a multiple of 24 * timestep)
        ap = AnalysisPeriod(1, 1, 0, 1, k // (24 * timestep), 23, timestep)
        return klass(Header(dt, unit, ap), list(values))
    if cls.startswith('HourlyDiscontinuous'):
        ap = AnalysisPeriod(timestep=timestep)
        return klass(Header(dt, unit, ap), list(values), [DateTime(1, 1 + 2 * i, 3) for i in range(k)])
    if cls.startswith('Daily'):
        return klass(Header(dt, unit, AnalysisPeriod()), list(values), [1 + 40 * i for i in range(k)])
    if cls.startswith('MonthlyPerHour'):
        return klass(Header(dt, unit, AnalysisPeriod()), list(values), [(1 + i, 5) for i in range(k)])
    return klass(Header(dt, unit, AnalysisPeriod()), list(values), [1 + i for i in range(k)])


def state(coll):
    return ['I:1' if type(coll).__name__.endswith('Immutable') else 'I:0',
            'T:' + type(coll.header.data_type).__name__, _utok(coll.header.unit)] + [v for v in coll.values]


def apply_op(coll, o):
    if o[0] == 'cu':
        return coll.convert_to_unit(o[1])
    if o[0] == 'ci':
        return coll.convert_to_ip()
    if o[0] == 'cs':
        return coll.convert_to_si()
    if o[0] == 'tu':
        return coll.to_unit(o[1])
    if o[0] == 'ti':
        return coll.to_ip()
    if o[0] == 'ts':
        return coll.to_si()
    raise ValueError('unknown op')


# ---------------------------------------------------------------------------------------------
# property oracle: the statement of C06 on the real code, against an SI table written from the
# definitions of the units (independent of ladybug's factors and of the Lean model)

PI = Fr('3.14159265358979323846264338327950288419716939937510582097494')
_ft, _in, _mi = Fr('0.3048'), Fr('0.0254'), Fr('1609.344')
_lb = Fr('0.45359237')
_oz, _ton = _lb / 16, 2000 * _lb
_g0 = Fr('9.80665')
_min, _h, _day = 60, 3600, 86400
_Btu = Fr('1055.05585262')
_kBtu = 1000 * _Btu
_Wh, _kWh = Fr(3600), Fr(3600000)
_cal = Fr('4.184')
_Btuh = _Btu / _h
_dF = Fr(5, 9)
_gal = 231 * _in ** 3
_floz = _gal / 128
_L = Fr(1, 1000)
_K0 = Fr('273.15')

# value in coherent SI units = a * x (+ b): unit -> a | (a, b)
SI = {
    'Angle': {'degrees': PI / 180, 'radians': 1},
    'Area': {'m2': 1, 'ft2': _ft ** 2, 'mm2': Fr(1, 10 ** 6), 'in2': _in ** 2, 'km2': 10 ** 6, 'mi2': _mi ** 2,
             'cm2': Fr(1, 10 ** 4), 'ha': 10 ** 4, 'acre': 43560 * _ft ** 2},
    'Conductance': {'W/K': 1, 'Btu/h-F': _Btuh / _dF},
    'Conductivity': {'W/m-K': 1, 'Btu/h-ft-F': _Btuh / (_ft * _dF), 'cal/s-cm-C': _cal / Fr(1, 100)},
    'Current': {'A': 1, 'mA': Fr(1, 1000)},
    'Density': {'kg/m3': 1, 'lb/ft3': _lb / _ft ** 3, 'g/cm3': 1000, 'oz/in3': _oz / _in ** 3},
    'Distance': {'m': 1, 'ft': _ft, 'mm': Fr(1, 1000), 'in': _in, 'km': 1000, 'mi': _mi, 'cm': Fr(1, 100)},
    'Energy': {'kWh': _kWh, 'kBtu': _kBtu, 'Wh': _Wh, 'Btu': _Btu, 'MMBtu': 10 ** 6 * _Btu, 'J': 1, 'kJ': 1000,
               'MJ': 10 ** 6, 'GJ': 10 ** 9, 'therm': 10 ** 5 * _Btu, 'cal': _cal, 'kcal': 1000 * _cal},
    'EnergyFlux': {'W/m2': 1, 'Btu/h-ft2': _Btuh / _ft ** 2, 'kW/m2': 1000, 'kBtu/h-ft2': 1000 * _Btuh / _ft ** 2,
                   'W/ft2': 1 / _ft ** 2, 'met': Fr('58.15')},
    'EnergyIntensity': {'kWh/m2': _kWh, 'kBtu/ft2': _kBtu / _ft ** 2, 'Wh/m2': _Wh, 'Btu/ft2': _Btu / _ft ** 2,
                        'kWh/ft2': _kWh / _ft ** 2, 'kBtu/m2': _kBtu},
    'Fraction': {'fraction': 1, '%': Fr(1, 100), 'tenths': Fr(1, 10), 'thousandths': Fr(1, 1000),
                 'okta': Fr(1, 8)},
    'Illuminance': {'lux': 1, 'fc': 1 / _ft ** 2},
    'Luminance': {'cd/m2': 1, 'cd/ft2': 1 / _ft ** 2},
    'Mass': {'kg': 1, 'lb': _lb, 'g': Fr(1, 1000), 'tonne': 1000, 'ton': _ton, 'oz': _oz},
    'MassFlowRate': {'kg/s': 1, 'lb/s': _lb, 'g/s': Fr(1, 1000), 'oz/s': _oz},
    'Power': {'W': 1, 'Btu/h': _Btuh, 'kW': 1000, 'kBtu/h': 1000 * _Btuh, 'TR': 12000 * _Btuh,
              'hp': 550 * _ft * _lb * _g0},
    'Pressure': {'Pa': 1, 'inHg': _in * Fr('13595.1') * _g0, 'atm': 101325, 'bar': 10 ** 5,
                 'Torr': Fr(101325, 760), 'psi': _lb * _g0 / _in ** 2, 'inH2O': _in * 1000 * _g0},
    'RValue': {'K-m2/W': 1, 'F-ft2-h/Btu': _dF * _ft ** 2 / _Btuh, 'clo': Fr('0.155'), 'm2-K/W': 1,
               'h-ft2-F/Btu': _dF * _ft ** 2 / _Btuh},
    'Resistance': {'K/W': 1, 'F-h/Btu': _dF / _Btuh},
    'Resistivity': {'K-m/W': 1, 'F-ft-h/Btu': _dF * _ft / _Btuh},
    'SpecificEnergy': {'kWh/kg': _kWh, 'kBtu/lb': _kBtu / _lb, 'Wh/kg': _Wh, 'Btu/lb': _Btu / _lb, 'J/kg': 1,
                       'kJ/kg': 1000},
    'SpecificHeatCapacity': {'J/kg-K': 1, 'Btu/lb-F': _Btu / (_lb * _dF), 'kWh/kg-K': _kWh,
                             'kBtu/lb-F': _kBtu / (_lb * _dF), 'kJ/kg-K': 1000},
    'Speed': {'m/s': 1, 'mph': _mi / _h, 'km/h': Fr(1000, 3600), 'knot': Fr(1852, 3600), 'ft/s': _ft,
              'ft/min': _ft / 60},
    'Temperature': {'C': (1, _K0), 'F': (_dF, _K0 - 32 * _dF), 'K': (1, 0)},
    'TemperatureDelta': {'dC': 1, 'dF': _dF, 'dK': 1},
    'TemperatureTime': {'degC-days': _day, 'degF-days': _dF * _day, 'degC-hours': _h, 'degF-hours': _dF * _h},
    'ThermalCondition': {'condition': 1, 'PMV': 1},
    'Time': {'hr': _h, 'min': 60, 'sec': 1, 'day': _day},
    'UValue': {'W/m2-K': 1, 'Btu/h-ft2-F': _Btuh / (_ft ** 2 * _dF)},
    'Voltage': {'V': 1, 'kV': 1000},
    'Volume': {'m3': 1, 'ft3': _ft ** 3, 'mm3': Fr(1, 10 ** 9), 'in3': _in ** 3, 'km3': 10 ** 9, 'mi3': _mi ** 3,
               'L': _L, 'mL': _L / 1000, 'gal': _gal, 'fl oz': _floz},
    'VolumeFlowRate': {'m3/s': 1, 'ft3/s': _ft ** 3, 'L/s': _L, 'cfm': _ft ** 3 / 60, 'gpm': _gal / 60,
                       'mL/s': _L / 1000, 'fl oz/s': _floz, 'L/h': _L / _h, 'gph': _gal / _h},
    'VolumeFlowRateIntensity': {'m3/s-m2': 1, 'ft3/s-ft2': _ft, 'L/s-m2': _L, 'cfm/ft2': _ft / 60,
                                'L/h-m2': _L / _h, 'gph/ft2': _gal / _h / _ft ** 2},
    'VolumetricHeatCapacity': {'J/m3-K': 1, 'Btu/ft3-F': _Btu / (_ft ** 3 * _dF), 'kWh/m3-K': _kWh,
                               'kBtu/ft3-F': _kBtu / (_ft ** 3 * _dF), 'kJ/m3-K': 1000, 'MJ/m3-K': 10 ** 6},
}

# the 75 subtypes named by the statement ("109 subtypes") convert with the formulas of their base type
SI_TOL = Fr(2, 1000)
RT_TOL = Fr(2, 100000)


def _ab(v):
    return (Fr(v[0]), Fr(v[1])) if isinstance(v, tuple) else (Fr(v), Fr(0))


def _root(inst):
    for c in type(inst).__mro__:
        if c.__name__ in SI:
            return c.__name__
    return None


def _si_conv(root, u, v):
    """(a, b): x units u are a*x + b units v by the SI definitions."""
    au, bu = _ab(SI[root][u])
    av, bv = _ab(SI[root][v])
    return au / av, (bu - bv) / av


def _units_of(inst):
    return list(inst.units)


def _as_tuple(x):
    return (x,) if isinstance(x, str) else tuple(x)


def check_case(op, inp):
    tname = inp['type']
    try:
        inst = _inst(tname)
    except Exception as e:
        return {'required': 'data type %s exists' % tname, 'observed': repr(e), 'sig': {'type': tname}}
    root = _root(inst)
    if root is None:
        return {'required': 'base type with SI definitions', 'observed': tname, 'sig': {'type': tname}}
    sig = {'type': root}
    if op == 'units_known':
        missing = [u for u in inst.units if u not in SI[root]]
        if missing:
            return {'required': 'every listed unit has an SI definition in the oracle table',
                    'observed': 'no definition for %r' % missing, 'sig': dict(sig, unit=missing[0])}
        return None
    if op in ('si_pair', 'roundtrip'):
        u, v, x = inp['from'], inp['to'], float(inp['x'])
        sig = dict(sig, **{'from': u, 'to': v})
        try:
            y = inst.to_unit([x], v, u)[0]
            back = inst.to_unit([y], u, v)[0]
        except Exception as e:
            return {'required': 'conversion of listed units succeeds', 'observed': repr(e), 'sig': sig}
        if u not in SI[root] or v not in SI[root]:
            return {'required': 'SI definition known', 'observed': 'unit without definition', 'sig': sig}
        a, b = _si_conv(root, u, v)
        want = a * Fr(x) + b
        offs = OFFSET_TYPES_ABS if root == 'Temperature' else 0
        if op == 'si_pair':
            tol = SI_TOL * (abs(a * Fr(x)) + abs(b)) + Fr(offs)
            if not (math.isfinite(y) and abs(Fr(y) - want) <= tol):
                return {'required': '%s %s = %.12g %s by the SI definitions (within 0.2 %%)' % (x, u, float(want), v),
                        'observed': y, 'sig': sig}
            return None
        tol = RT_TOL * abs(Fr(x)) + Fr(offs)
        if not (math.isfinite(back) and abs(Fr(back) - Fr(x)) <= tol):
            return {'required': '%s %s -> %s -> %s returns within 2e-5' % (x, u, v, u), 'observed': back, 'sig': sig}
        return None
    if op == 'identity':
        u, x = inp['unit'], float(inp['x'])
        sig = dict(sig, unit=u)
        y = inst.to_unit([x], u, u)[0]
        offs = OFFSET_TYPES_ABS if root == 'Temperature' else 0
        if not (math.isfinite(y) and abs(Fr(y) - Fr(x)) <= RT_TOL * abs(Fr(x)) + Fr(offs)):
            return {'required': 'to_unit to the unit already held changes nothing (2e-5)', 'observed': y,
                    'sig': sig}
        return None
    if op == 'sys':
        u, which = inp['from'], inp['which']
        sig = dict(sig, which=which, **{'from': u})
        xs = [float(x) for x in inp['values']]
        listed = _as_tuple(getattr(inst, which + '_units'))
        f = getattr(inst, 'to_' + which)
        vals, tgt = f(list(xs), u)
        if tgt not in listed:
            return {'required': 'to_%s lands in a unit listed in %s_units %r' % (which, which, listed),
                    'observed': tgt, 'sig': dict(sig, fact='target-not-listed')}
        if tgt not in inst.units:
            return {'required': 'target unit is a unit of the type', 'observed': tgt,
                    'sig': dict(sig, fact='target-not-a-unit')}
        if u in listed and (tgt != u or list(vals) != xs):
            return {'required': 'a unit already %s is left alone' % which, 'observed': (list(vals), tgt),
                    'sig': dict(sig, fact='not-left-alone')}
        vals2, tgt2 = f(list(vals), tgt)
        if tgt2 != tgt or list(vals2) != list(vals):
            return {'required': 'to_%s is idempotent' % which, 'observed': (list(vals2), tgt2),
                    'sig': dict(sig, fact='not-idempotent')}
        a, b = _si_conv(root, u, tgt)
        offs = OFFSET_TYPES_ABS if root == 'Temperature' else 0
        for x, y in zip(xs, vals):
            if not abs(Fr(y) - (a * Fr(x) + b)) <= SI_TOL * (abs(a * Fr(x)) + abs(b)) + Fr(offs):
                return {'required': 'values follow the unit label (SI, 0.2 %%): %s %s' % (x, u),
                        'observed': '%r %s' % (y, tgt), 'sig': dict(sig, fact='values')}
        return None
    if op == 'reject':
        bad, where = inp['unit'], inp['where']
        sig = dict(sig, where=where)
        good = inst.units[0]
        if bad in inst.units:
            return None
        try:
            if where == 'from':
                r = inst.to_unit([1.0], inp.get('other', good), bad)
            elif where == 'to':
                r = inst.to_unit([1.0], bad, inp.get('other', good))
            elif where == 'header':
                from ladybug.header import Header
                from ladybug.analysisperiod import AnalysisPeriod
                r = Header(inst, bad, AnalysisPeriod()).unit
            elif where == 'in_range':
                r = inst.is_in_range([1.0], bad, False)
            else:
                raise KeyError(where)
        except ValueError:
            return None
        except Exception as e:
            return {'required': 'ValueError for a unit the type does not list', 'observed': repr(e), 'sig': sig}
        return {'required': 'unit %r is rejected' % bad, 'observed': repr(r), 'sig': sig}
    if op == 'coll':
        return _check_coll(inst, root, inp, sig)
    if op == 'range':
        # limits expressed in another unit are the SI images of the limits of the first unit
        u = inp['unit']
        sig = dict(sig, unit=u)
        a, b = _si_conv(root, inst.units[0], u)
        lims = [None if l in (float('-inf'), float('inf')) else a * Fr(repr(float(l))) + b
                for l in (inst.min, inst.max)]
        for k, inside in ((0, 1), (1, -1)):
            if lims[k] is None:
                continue
            step = max(abs(lims[k]), Fr(1)) / 100
            ok_val, bad_val = lims[k] + inside * step, lims[k] - inside * step
            other = lims[1 - k]
            if other is None or (ok_val - other) * inside < 0:
                if not inst.is_in_range([float(ok_val)], u, False):
                    return {'required': '%r %s is in range' % (float(ok_val), u), 'observed': False, 'sig': sig}
            if inst.is_in_range([float(bad_val)], u, False):
                return {'required': '%r %s is out of range' % (float(bad_val), u), 'observed': True, 'sig': sig}
        return None
    if op == 'norm_agg':
        return _check_norm_agg(inst, root, inp, sig)
    if op == 'time_agg':
        return _check_time_agg(inst, root, inp, sig)
    raise ValueError('unknown op ' + op)


NORMALIZED = {'Energy': 'EnergyIntensity', 'Power': 'EnergyFlux', 'VolumeFlowRate': 'VolumeFlowRateIntensity'}
AGGREGATED = {'EnergyFlux': 'EnergyIntensity', 'Power': 'Energy', 'MassFlowRate': 'Mass', 'Speed': 'Distance',
              'TemperatureDelta': 'TemperatureTime'}


def _si_vals(root, unit, values):
    a, b = _ab(SI[root][unit])
    return [a * Fr(v) + b for v in values]


def _rel_close(x, y, tol):
    return abs(x - y) <= tol * max(abs(x), abs(y))


def _check_norm_agg(inst, root, inp, sig):
    cls, unit, au, area = inp['cls'], inp['unit'], inp['area_unit'], float(inp['area'])
    sig = dict(sig, cls=cls, unit=unit, area_unit=au)
    xs = [float(x) for x in inp['values']]
    coll = make_collection(cls, inp['type'], unit, xs)
    try:
        n = coll.normalize_by_area(area, au)
    except Exception as e:
        return {'required': 'normalize_by_area(%r, %r) of %s [%s] succeeds' % (area, au, inp['type'], unit),
                'observed': repr(e), 'sig': dict(sig, fact='normalize-raises')}
    nroot = _root(n.header.data_type)
    if nroot != NORMALIZED.get(root) or n.header.unit not in SI[nroot]:
        return {'required': 'normalised type %s with a unit it lists' % NORMALIZED.get(root),
                'observed': '%s [%s]' % (nroot, n.header.unit), 'sig': dict(sig, fact='normalized-type')}
    if (coll.header.unit, list(coll.values), type(coll.header.data_type).__name__) != (unit, xs, inp['type']):
        return {'required': 'source untouched', 'observed': state(coll), 'sig': dict(sig, fact='source-changed')}
    a_area = _ab(SI['Area'][au])[0]
    for w, g in zip(_si_vals(root, unit, xs), _si_vals(nroot, n.header.unit, n.values)):
        if not _rel_close(g * a_area * Fr(area), w, Fr(1, 10 ** 9)):
            return {'required': 'normalised value x area = original quantity (SI): %.12g' % float(w),
                    'observed': '%.12g' % float(g * a_area * Fr(area)), 'sig': dict(sig, fact='normalized-meaning')}
    try:
        back = n.aggregate_by_area(area, au)
    except Exception as e:
        return {'required': 'aggregate_by_area undoes normalize_by_area', 'observed': repr(e),
                'sig': dict(sig, fact='aggregate-raises')}
    if _root(back.header.data_type) != root or back.header.unit != unit or type(back).__name__ != cls or \
            len(back.values) != len(xs) or not all(_rel_close(Fr(b), Fr(x), Fr(1, 10 ** 12)) for b, x in zip(back.values, xs)):
        return {'required': '%s [%s] %r again' % (root, unit, xs), 'observed': state(back),
                'sig': dict(sig, fact='aggregate-inverse')}
    return None


def _check_time_agg(inst, root, inp, sig):
    cls, unit, ts = inp['cls'], inp['unit'], int(inp['timestep'])
    sig = dict(sig, cls=cls, unit=unit)
    xs = [float(x) for x in inp['values']]
    coll = make_collection(cls, inp['type'], unit, xs, ts)
    seconds = Fr(3600, ts) if cls.startswith('Hourly') else Fr(86400)
    try:
        agg = coll.to_time_aggregated()
    except Exception as e:
        return {'required': 'to_time_aggregated of %s [%s] succeeds' % (inp['type'], unit), 'observed': repr(e),
                'sig': dict(sig, fact='aggregate-raises')}
    aroot = _root(agg.header.data_type)
    if aroot != AGGREGATED.get(root) or agg.header.unit not in SI[aroot]:
        return {'required': 'time-aggregated type %s with a unit it lists' % AGGREGATED.get(root),
                'observed': '%s [%s]' % (aroot, agg.header.unit), 'sig': dict(sig, fact='aggregated-type')}
    if (coll.header.unit, list(coll.values)) != (unit, xs):
        return {'required': 'source untouched', 'observed': state(coll), 'sig': dict(sig, fact='source-changed')}
    for w, g in zip(_si_vals(root, unit, xs), _si_vals(aroot, agg.header.unit, agg.values)):
        if not abs(g - w * seconds) <= SI_TOL * abs(w * seconds):
            return {'required': 'rate x %s s = aggregated quantity (SI, 0.2 %%): %.12g' % (seconds, float(w * seconds)),
                    'observed': '%.12g %s' % (float(g), agg.header.unit), 'sig': dict(sig, fact='aggregated-meaning')}
    try:
        back = agg.to_time_rate_of_change()
    except Exception as e:
        return {'required': 'to_time_rate_of_change undoes to_time_aggregated', 'observed': repr(e),
                'sig': dict(sig, fact='rate-raises')}
    broot = _root(back.header.data_type)
    if broot != root or back.header.unit not in SI[root] or len(back.values) != len(xs):
        return {'required': 'a %s again' % root, 'observed': state(back), 'sig': dict(sig, fact='rate-type')}
    for w, g in zip(_si_vals(root, unit, xs), _si_vals(root, back.header.unit, back.values)):
        if not abs(g - w) <= SI_TOL * abs(w):
            return {'required': 'the original rate (SI, 0.2 %%): %.12g' % float(w), 'observed': '%.12g' % float(g),
                    'sig': dict(sig, fact='rate-inverse')}
    return None


def _check_coll(inst, root, inp, sig):
    cls = inp['cls']
    sig = dict(sig, cls=cls)
    xs = [float(x) for x in inp['values']]
    try:
        coll = make_collection(cls, inp['type'], inp['unit'], xs)
    except Exception as e:
        return {'required': 'collection can be built', 'observed': repr(e), 'sig': dict(sig, fact='build')}
    offs = OFFSET_TYPES_ABS if root == 'Temperature' else 0

    def meaning(c):
        a, b = _ab(SI[root][c.header.unit])
        return [a * Fr(v) + b for v in c.values]

    def same_meaning(m0, c, tag):
        if type(c.header.data_type).__name__ != inp['type']:
            return 'data type became %s' % type(c.header.data_type).__name__
        if c.header.unit not in inst.units:
            return 'unit label %r is not a unit of the type' % (c.header.unit,)
        if len(c.values) != len(m0):
            return 'number of values changed'
        a, _b = _ab(SI[root][c.header.unit])
        for w, g in zip(m0, meaning(c)):
            # 0.2 % of the quantity, measured in SI (offsets of the unit do not count as quantity)
            if not abs(g - w) <= SI_TOL * (abs(w) + abs(_b)) + Fr(offs) * a:
                return '%s: SI value %.12g became %.12g (%s)' % (tag, float(w), float(g), c.header.unit)
        return None

    for k, o in enumerate(inp['ops']):
        before = (coll.header.unit, list(coll.values), type(coll.header.data_type).__name__)
        m0 = meaning(coll)
        if cls.endswith('Immutable') and o[0].startswith('c'):
            # in-place conversion of an immutable collection: must be refused and change nothing
            try:
                apply_op(coll, o)
                got = 'no exception'
            except AttributeError:
                got = None
            except Exception as e:
                got = repr(e)
            if got is not None:
                return {'required': 'convert_* on an immutable collection raises AttributeError', 'observed': got,
                        'sig': dict(sig, fact='immutable-convert', op=o[0])}
            if (coll.header.unit, list(coll.values), type(coll.header.data_type).__name__) != before:
                return {'required': 'a refused conversion leaves values, unit and data type alone',
                        'observed': state(coll), 'sig': dict(sig, fact='immutable-changed', op=o[0])}
            continue
        try:
            res = apply_op(coll, o)
            err = None
        except ValueError as e:
            res, err = None, e
        except Exception as e:
            return {'required': 'conversion or ValueError', 'observed': repr(e), 'sig': dict(sig, fact='exception', op=o[0])}
        if err is not None:
            if len(o) > 1 and o[1] in inst.units:
                return {'required': 'listed unit accepted', 'observed': repr(err), 'sig': dict(sig, fact='rejects-listed', op=o[0])}
            if len(o) == 1:
                return {'required': 'to_ip/to_si succeed', 'observed': repr(err), 'sig': dict(sig, fact='sys-raises', op=o[0])}
            if (coll.header.unit, list(coll.values), type(coll.header.data_type).__name__) != before:
                return {'required': 'a rejected conversion leaves the collection alone', 'observed': state(coll),
                        'sig': dict(sig, fact='changed-on-error', op=o[0])}
            continue
        if len(o) > 1 and o[1] not in inst.units:
            return {'required': 'unit %r rejected' % o[1], 'observed': 'accepted', 'sig': dict(sig, fact='accepts-unlisted', op=o[0])}
        target = coll if o[0].startswith('c') else res
        if o[0].startswith('t'):
            if (coll.header.unit, list(coll.values), type(coll.header.data_type).__name__) != before:
                return {'required': 'to_* leaves the source collection alone', 'observed': state(coll),
                        'sig': dict(sig, fact='source-changed', op=o[0])}
            if type(res).__name__ != cls:
                return {'required': 'to_* returns a %s' % cls, 'observed': type(res).__name__,
                        'sig': dict(sig, fact='class', op=o[0])}
        msg = same_meaning(m0, target, 'op %d %s' % (k, ' '.join(o)))
        if msg:
            return {'required': 'values, unit and data type move together (SI meaning kept within 0.2 %)',
                    'observed': msg, 'sig': dict(sig, fact='meaning', op=o[0])}
        if len(o) > 1 and target.header.unit != o[1]:
            return {'required': 'unit label %r' % o[1], 'observed': target.header.unit, 'sig': dict(sig, fact='label', op=o[0])}
        if o[0] in ('ci', 'ti') and target.header.unit not in _as_tuple(inst.ip_units):
            return {'required': 'IP unit after to_ip', 'observed': target.header.unit, 'sig': dict(sig, fact='ip-label', op=o[0])}
        if o[0] in ('cs', 'ts') and target.header.unit not in _as_tuple(inst.si_units):
            return {'required': 'SI unit after to_si', 'observed': target.header.unit, 'sig': dict(sig, fact='si-label', op=o[0])}
    return None


replay = check_case

ORACLE_X = [1.0, 1000.0, -40.0, 0.0, 1e-6, 1e9, 37.5, -273.15, 0.001]


def _oracle_cases(ctx):
    rng = ctx.rng
    big = ctx.searching or not ctx.quick
    try:
        import ladybug.datatype as dtm
        all_types = sorted(dtm.TYPES)
        base_types = sorted(dtm.BASETYPES)
    except Exception:
        all_types = base_types = sorted(SI)
    # fixed corpus: past findings and the mutation campaign's witnesses
    corpus = [
        ('si_pair', {'type': 'Fraction', 'from': 'fraction', 'to': 'okta', 'x': 1.0}),          # fixed: okta
        ('si_pair', {'type': 'TotalSkyCover', 'from': 'okta', 'to': '%', 'x': 4.0}),
        ('sys', {'type': 'EnergyFlux', 'from': 'met', 'which': 'ip', 'values': [1.0]}),          # fix: met listed
        ('sys', {'type': 'MetabolicRate', 'from': 'met', 'which': 'si', 'values': [1.2]}),
        ('si_pair', {'type': 'Energy', 'from': 'kWh', 'to': 'kBtu', 'x': 1.0}),
        ('roundtrip', {'type': 'Temperature', 'from': 'F', 'to': 'C', 'x': 212.0}),
        ('si_pair', {'type': 'Temperature', 'from': 'C', 'to': 'K', 'x': 0.0}),
        ('sys', {'type': 'Energy', 'from': 'kWh', 'which': 'ip', 'values': [1.0]}),
        ('roundtrip', {'type': 'MassFlowRate', 'from': 'lb/s', 'to': 'oz/s', 'x': 1.0}),
        ('si_pair', {'type': 'Angle', 'from': 'degrees', 'to': 'radians', 'x': 180.0}),
    ]
    for c in corpus:
        yield c
    for n in base_types:
        yield 'units_known', {'type': n}
    for n in base_types:
        try:
            us = list(_inst(n).units)
        except Exception:
            us = list(SI.get(n, {}))
        xs = ORACLE_X + [rng.uniform(-1e3, 1e3), 10 ** rng.uniform(-9, 9)] + \
            ([rng.uniform(-1e6, 1e6) for _ in range(10)] if big else [])
        for u in us:
            for v in us:
                for x in xs:
                    yield 'si_pair', {'type': n, 'from': u, 'to': v, 'x': x}
                    yield 'roundtrip', {'type': n, 'from': u, 'to': v, 'x': x}
            for x in xs:
                yield 'identity', {'type': n, 'unit': u, 'x': x}
    for n in all_types:
        try:
            inst = _inst(n)
            us = list(inst.units)
        except Exception:
            continue
        for u in us:
            for which in ('ip', 'si'):
                yield 'sys', {'type': n, 'from': u, 'which': which,
                              'values': [1.0, -3.5, rng.uniform(0, 1e4)]}
            yield 'range', {'type': n, 'unit': u}
        others = [u for m in SI for u in SI[m] if u not in us]
        for bad in UNKNOWN_UNITS + rng.sample(others, 4 if not big else 20):
            for where in ('from', 'to', 'header', 'in_range'):
                yield 'reject', {'type': n, 'unit': bad, 'where': where, 'other': rng.choice(us)}
    for cls in COLL_CLASSES:
        for _ in range(120 if not big else 1500):
            n = rng.choice(base_types) if rng.random() < 0.7 else rng.choice(all_types)
            try:
                us = list(_inst(n).units)
            except Exception:
                continue
            ops = []
            for _k in range(rng.randrange(1, 6)):
                o = rng.choice(['cu', 'cu', 'tu', 'ci', 'cs', 'ti', 'ts'])
                if o in ('cu', 'tu'):
                    ops.append([o, rng.choice(us) if rng.random() < 0.9 else rng.choice(UNKNOWN_UNITS)])
                else:
                    ops.append([o])
            yield 'coll', {'type': n, 'cls': cls, 'unit': rng.choice(us),
                           'values': [rng.choice(ORACLE_X + [rng.uniform(-100, 100)])
                                      for _k in range(24 if cls.startswith('HourlyContinuous')
                                                      else rng.choice([1, 2, 4]))],
                           'ops': ops}


def _oracle_area_time_cases(ctx):
    rng = ctx.rng
    big = ctx.searching or not ctx.quick
    try:
        import ladybug.datatype as dtm
        types = sorted(dtm.TYPES)
    except Exception:
        types = sorted(SI)

    def root_of(n):
        try:
            return _root(_inst(n))
        except Exception:
            return None
    norm = [n for n in types if root_of(n) in NORMALIZED]
    rate = [n for n in types if root_of(n) in AGGREGATED]

    def nv(cls, ts=1):
        return 24 * ts if cls.startswith('HourlyContinuous') else rng.choice([1, 2, 3])
    for cls in COLL_CLASSES:
        for n in norm:
            r = root_of(n)
            for u in SI[r]:
                for au in ('m2', 'ft2'):
                    label = '%s-%s' % (u, au) if '/' in u else '%s/%s' % (u, au)
                    if label in SI[NORMALIZED[r]] and (big or rng.random() < 0.5):
                        yield 'norm_agg', {'type': n, 'cls': cls, 'unit': u, 'area_unit': au,
                                           'area': rng.choice([2.0, 0.25, 37.5, rng.uniform(0.1, 1000)]),
                                           'values': [rng.choice(ORACLE_X[:3] + [rng.uniform(-100, 100)])
                                                      for _ in range(nv(cls))]}
        if cls.startswith('Hourly') or cls.startswith('Daily'):
            for n in rate:
                r = root_of(n)
                for u in SI[r]:
                    if not (big or rng.random() < 0.5):
                        continue
                    ts = rng.choice([1, 2, 4]) if cls.startswith('Hourly') else 1
                    yield 'time_agg', {'type': n, 'cls': cls, 'unit': u, 'timestep': ts,
                                       'values': [rng.choice([1.0, 1000.0, -40.0, rng.uniform(-100, 100)])
                                                  for _ in range(nv(cls, ts))]}


def oracle(ctx):
    run_oracle_cases(ctx, _oracle_cases(ctx), check_case)
    run_oracle_cases(ctx, _oracle_area_time_cases(ctx), check_case)
