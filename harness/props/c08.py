"""C08 — Date-time <-> hour/minute/day-of-year conversions are exact bijections.

Model: lean/Ladybug/Model/Cal.lean; theorems: lean/Ladybug/Props/C08.lean; driver: drv_c08.
Tie: translator (Gen/DtTables from dt.py) + correspondence on the ops below.
"""
import copy
import json
import pickle
import struct
from datetime import date, datetime, timedelta
from fractions import Fraction

from harness import core
from harness.core import compare_batch, err_name, run_oracle_cases

PROP = 'C08'
PROOF_MODULES = ['Ladybug.Props.C08']
GREP_MODULES = ['Ladybug.Py', 'Ladybug.Model.Cal', 'Ladybug.Gen.DtTables', 'Ladybug.Proofs.CalLemmas',
                'Ladybug.Drv.C08', 'Ladybug.DrvCore']
RULE = ('correspondence: month-boundary minutes +-2, random minutes, all day numbers -2..368, all '
        '(hour, minute) normalisations, offsets, serial forms, for both leap flags (thorough: every '
        'minute of both years); oracle: inverse laws / ordering / serial round trips on the real classes; '
        'a case is non-trivial when the implementation returns a value (not a rejection); distinct = '
        'distinct (op, input)')
TRUSTED_BASE = [
    'translator tools/extract/dt_tables.py: copies the four month tables and MONTHNAMES from dt.py',
    'modelled, not verified: CPython datetime/date/time constructors, strptime/strftime, pickle/copy '
    'calling __reduce_ex__, float hour normalisation (compared exhaustively for hour 0..30 x minute 0..200)',
    'character-level lexing/zero-padding of the text form is tied by correspondence only '
    '(theorem C08_str_roundtrip is at token level)',
]
ASSUMPTIONS = ['CPython datetime arithmetic is the reference calendar for the oracle']


def extract(ctx):
    from tools.extract import dt_tables
    ctx.tables = dt_tables.extract()


def _fbits(x):
    return '%016x' % struct.unpack('<Q', struct.pack('<d', x))[0]


def _b(x):
    return '1' if x else '0'


def _show_dt(d):
    return 'ok %d %d %d %d %s %d %d %d' % (d.month, d.day, d.hour, d.minute, _b(d.leap_year),
                                          d.doy, d.int_hoy, d.moy)


def _show_d(d):
    return 'ok %d %d %s %d' % (d.month, d.day, _b(d.leap_year), d.doy)


def _show_t(t):
    return 'ok %d %d %d' % (t.hour, t.minute, t.mod)


def _year_minutes(leap):
    return 527040 if leap else 525600


def _boundary_moys(leap):
    out = set()
    year = 2016 if leap else 2017
    for m in range(1, 13):
        start = int((datetime(year, m, 1) - datetime(year, 1, 1)).total_seconds() // 60)
        for k in (-2, -1, 0, 1, 2, 59, 60, 61, 1439, 1440, 1441):
            out.add(start + k)
    n = _year_minutes(leap)
    for k in (-1441, -1440, -1439, -61, -60, -59, -2, -1, n - 2, n - 1, n, n + 1, n + 1440, 10 ** 7):
        out.add(k)
    return sorted(out)


def _rand_dt(rng, leap=None):
    from ladybug.dt import DateTime
    leap = rng.random() < 0.5 if leap is None else leap
    r = rng.random()
    if leap and r < 0.15:
        return DateTime(2, 29, rng.randrange(24), rng.randrange(60), True)
    if r < 0.3:
        m, d = rng.choice([(1, 1), (12, 31), (2, 28), (3, 1), (6, 30), (7, 31)])
        return DateTime(m, d, rng.choice([0, 23, 12]), rng.choice([0, 59, 30]), leap)
    r = _ref(leap, rng.randrange(_year_minutes(leap)))      # stdlib calendar, not the code under test
    return DateTime(r.month, r.day, r.hour, r.minute, leap)


def correspondence(ctx):
    from ladybug.dt import DateTime, Date, Time
    rng = ctx.rng

    # --- from_moy
    cases = []
    for leap in (False, True):
        for m in _boundary_moys(leap):
            cases.append((leap, m))
        if ctx.quick:
            for _ in range(10000):
                cases.append((leap, rng.randrange(_year_minutes(leap))))
        else:
            for m in range(-1500, _year_minutes(leap) + 1500):
                cases.append((leap, m))
    compare_batch(ctx, 'from_moy', cases, lambda c: 'from_moy %s %d' % (_b(c[0]), c[1]),
                  lambda c: _show_dt(DateTime.from_moy(c[1], c[0])))

    # --- from_hoy on float hours (the driver forms the IEEE product hoy * 60 itself)
    cases = []
    for leap in (False, True):
        ms = [rng.randrange(_year_minutes(leap)) for _ in range(ctx.n(3000, 60000))]
        ms += [m for m in _boundary_moys(leap) if 0 <= m < _year_minutes(leap)]
        for m in ms:
            base = m / 60.0
            for eps in (0.0, 1e-9, -1e-9, 0.5 / 60, -0.5 / 60, 0.49 / 60, 1e-13):
                h = base + eps
                if 0 <= h:
                    cases.append((leap, h))
            cases.append((leap, rng.random() * (_year_minutes(leap) / 60.0)))
    compare_batch(ctx, 'from_hoy', cases, lambda c: 'from_hoy %s %s' % (_b(c[0]), _fbits(c[1])),
                  lambda c: _show_dt(DateTime.from_hoy(c[1], c[0])), key=lambda c: (c[0], repr(c[1])))

    # --- from_doy
    cases = [(leap, k) for leap in (False, True) for k in range(-3, 370)]
    compare_batch(ctx, 'from_doy', cases, lambda c: 'from_doy %s %d' % (_b(c[0]), c[1]),
                  lambda c: _show_d(Date.from_doy(c[1], c[0])))

    # --- constructor normalisation: all (hour, minute) pairs incl. carries and rejections
    cases = [(h, m) for h in range(0, 31) for m in range(0, 201)]
    compare_batch(ctx, 'norm_hm', cases, lambda c: 'norm_hm %d %d' % c,
                  lambda c: 'ok %d %d' % Time._calculate_hour_and_minute(c[0] + c[1] / 60.0))
    compare_batch(ctx, 'time_make', cases, lambda c: 'time_make %d %d' % c,
                  lambda c: _show_t(Time(c[0], c[1])))
    cases = [m for m in range(0, 1500)]
    compare_batch(ctx, 'from_mod', cases, lambda c: 'from_mod %d' % c, lambda c: _show_t(Time.from_mod(c)))
    cases = []
    for leap in (False, True):
        for mo in range(0, 14):
            for da in (0, 1, 28, 29, 30, 31, 32):
                for h, mi in ((0, 0), (23, 59), (23, 60), (24, 0), (5, 61), (12, 30)):
                    cases.append((leap, mo, da, h, mi))
    compare_batch(ctx, 'make', cases, lambda c: 'make %s %d %d %d %d' % ((_b(c[0]),) + tuple(c[1:])),
                  lambda c: _show_dt(DateTime(c[1], c[2], c[3], c[4], c[0])))
    cases = [(leap, mo, da) for leap in (False, True) for mo in range(-1, 14) for da in range(-1, 33)]
    compare_batch(ctx, 'date_make', cases, lambda c: 'date_make %s %d %d' % (_b(c[0]), c[1], c[2]),
                  lambda c: _show_d(Date(c[1], c[2], c[0])))

    # --- offsets
    cases = []
    for _ in range(ctx.n(3000, 60000)):
        d = _rand_dt(rng)
        n = _year_minutes(d.leap_year)
        r = rng.random()
        if r < 0.6:
            k = rng.randrange(-d.moy, n - d.moy)          # stays inside the year
        elif r < 0.8:
            k = rng.choice([-d.moy - 1, n - d.moy, -d.moy, n - d.moy - 1])   # edges
        else:
            k = rng.randrange(-2 * n, 2 * n)
        cases.append((d.leap_year, d.month, d.day, d.hour, d.minute, k))
    fmt = '%s %s %d %d %d %d %d'
    compare_batch(ctx, 'add_minute', cases, lambda c: fmt % (('add_minute', _b(c[0])) + tuple(c[1:])),
                  lambda c: _show_dt(DateTime(c[1], c[2], c[3], c[4], c[0]).add_minute(c[5])))
    compare_batch(ctx, 'sub_minute', cases, lambda c: fmt % (('sub_minute', _b(c[0])) + tuple(c[1:])),
                  lambda c: _show_dt(DateTime(c[1], c[2], c[3], c[4], c[0]).sub_minute(c[5])))
    hcases = []
    for c in cases[:len(cases) // 2]:
        h = rng.choice([c[5] / 60.0, round(c[5] / 60.0), c[5] / 60.0 + 0.004, rng.uniform(-30, 30)])
        hcases.append(c[:5] + (float(h),))
    hfmt = '%s %s %d %d %d %d %s'
    compare_batch(ctx, 'add_hour', hcases,
                  lambda c: hfmt % (('add_hour', _b(c[0])) + tuple(c[1:5]) + (_fbits(c[5]),)),
                  lambda c: _show_dt(DateTime(c[1], c[2], c[3], c[4], c[0]).add_hour(c[5])),
                  key=lambda c: (c[:5], repr(c[5])))
    compare_batch(ctx, 'sub_hour', hcases,
                  lambda c: hfmt % (('sub_hour', _b(c[0])) + tuple(c[1:5]) + (_fbits(c[5]),)),
                  lambda c: _show_dt(DateTime(c[1], c[2], c[3], c[4], c[0]).sub_hour(c[5])),
                  key=lambda c: (c[:5], repr(c[5])))

    # --- serial forms
    dts = [_rand_dt(rng) for _ in range(ctx.n(1500, 20000))]
    cs = [(d.leap_year, d.month, d.day, d.hour, d.minute) for d in dts]
    f5 = '%s %s %d %d %d %d'

    def mk(c):
        return DateTime(c[1], c[2], c[3], c[4], c[0])

    compare_batch(ctx, 'to_array', cs, lambda c: f5 % (('to_array', _b(c[0])) + tuple(c[1:])),
                  lambda c: 'ok ' + ' '.join(str(int(x)) for x in mk(c).to_array()))
    compare_batch(ctx, 'from_array', cs,
                  lambda c: 'from_array ' + ' '.join(str(int(x)) for x in mk(c).to_array()),
                  lambda c: _show_dt(DateTime.from_array(mk(c).to_array())))

    def show_kv(dct):
        order = ['month', 'day', 'hour', 'minute', 'leap_year']
        return 'ok ' + ' '.join('%s=%d' % (k, int(dct[k])) for k in order if k in dct)

    compare_batch(ctx, 'to_dict', cs, lambda c: f5 % (('to_dict', _b(c[0])) + tuple(c[1:])),
                  lambda c: show_kv(mk(c).to_dict()))
    # from_dict with shuffled keys and dropped optional keys
    dcases = []
    for c in cs:
        d = mk(c).to_dict()
        d.pop('type')
        keys = list(d.keys())
        rng.shuffle(keys)
        if rng.random() < 0.3:
            keys = [k for k in keys if rng.random() < 0.7]
        dcases.append([(k, int(d[k])) for k in keys])
    compare_batch(ctx, 'from_dict', dcases,
                  lambda c: 'from_dict ' + ' '.join('%s=%d' % kv for kv in c),
                  lambda c: _show_dt(DateTime.from_dict({k: (bool(v) if k == 'leap_year' else v) for k, v in c})),
                  key=lambda c: tuple(c))
    compare_batch(ctx, 'reduce', cs, lambda c: f5 % (('reduce', _b(c[0])) + tuple(c[1:])),
                  lambda c: _show_dt(pickle.loads(pickle.dumps(mk(c)))))
    compare_batch(ctx, 'str', cs, lambda c: f5 % (('str', _b(c[0])) + tuple(c[1:])),
                  lambda c: 'ok ' + str(mk(c)))
    pcases = [(c[0], str(mk(c))) for c in cs] + [(not c[0], str(mk(c))) for c in cs[:300]]
    pcases += [(l, s) for l in (False, True) for s in
               ('29 Feb 03:05', '30 Feb 00:00', '31 Apr 10:10', '00 Jan 00:00', '01 Foo 00:00', '01 Jan 24:00',
                '01 Jan 23:60', '31 Dec 23:59', '1 Jan 0:0')]
    compare_batch(ctx, 'parse', pcases, lambda c: 'parse %s %s' % (_b(c[0]), c[1]),
                  lambda c: _show_dt(DateTime.from_date_time_string(c[1], c[0])))
    dcs = sorted(set((c[0], c[1], c[2]) for c in cs))
    compare_batch(ctx, 'date_to_array', dcs, lambda c: 'date_to_array %s %d %d' % (_b(c[0]), c[1], c[2]),
                  lambda c: 'ok ' + ' '.join(str(int(x)) for x in Date(c[1], c[2], c[0]).to_array()))
    compare_batch(ctx, 'date_from_array', dcs,
                  lambda c: 'date_from_array ' + ' '.join(str(int(x)) for x in Date(c[1], c[2], c[0]).to_array()),
                  lambda c: _show_d(Date.from_array(Date(c[1], c[2], c[0]).to_array())))
    compare_batch(ctx, 'date_reduce', dcs, lambda c: 'date_reduce %s %d %d' % (_b(c[0]), c[1], c[2]),
                  lambda c: _show_d(copy.deepcopy(Date(c[1], c[2], c[0]))))

    # --- Py.lean helpers vs CPython (rationals are exact on both sides)
    rc = []
    for _ in range(ctx.n(3000, 100000)):
        den = rng.choice([1, 2, 3, 4, 5, 8, 10, 60, 100, 1000, rng.randrange(1, 10 ** 6)])
        num = rng.randrange(-10 ** 7, 10 ** 7)
        if rng.random() < 0.3:
            num = (2 * rng.randrange(-500, 500) + 1) * den // 2 if den % 2 == 0 else num   # ties
        rc.append((num, den))

    def py_round(c):
        return 'ok %d' % round(Fraction(c[0], c[1]))

    def py_trunc(c):
        return 'ok %d' % int(Fraction(c[0], c[1]))

    compare_batch(ctx, 'py_round', rc, lambda c: 'py_round %d/%d' % c, py_round)
    compare_batch(ctx, 'py_trunc', rc, lambda c: 'py_trunc %d/%d' % c, py_trunc)
    ic = [(rng.randrange(-10 ** 6, 10 ** 6), rng.choice([-7, -3, -1, 1, 2, 24, 60, 1440, rng.randrange(1, 5000)]))
          for _ in range(ctx.n(3000, 100000))]
    compare_batch(ctx, 'py_floordiv', ic, lambda c: 'py_floordiv %d %d' % c, lambda c: 'ok %d' % (c[0] // c[1]))
    compare_batch(ctx, 'py_mod', ic, lambda c: 'py_mod %d %d' % c, lambda c: 'ok %d' % (c[0] % c[1]))
    fc = [rng.uniform(-1e6, 1e6) for _ in range(ctx.n(2000, 50000))] + [0.1, 0.5, 1e-300, 5e-324, 2.0 ** 60, -0.0]

    def show_rat(x):
        fr = Fraction(x)
        return 'ok %d' % fr.numerator if fr.denominator == 1 else 'ok %d/%d' % (fr.numerator, fr.denominator)

    compare_batch(ctx, 'py_float', fc, lambda c: 'py_float ' + _fbits(c), show_rat, key=repr)

    # float hour normalisation is modelled as exact: round-trip hoy of the model vs float hoy
    hc = cs[:500]
    outs = ctx.driver().run([f5 % (('hoy', _b(c[0])) + tuple(c[1:])) for c in hc])
    for c, o in zip(hc, outs):
        ctx.compared += 1
        want = Fraction(o[3:]) if o.startswith('ok ') else None
        got = mk(c).hoy
        if want is None or abs(float(want) - got) > 1e-9:
            ctx.disagree('hoy', list(c), o, repr(got))


# ---------------------------------------------------------------------------------------------
# property oracle: the statement of C08 evaluated on the real classes, independent of the model


def _ref(leap, moy):
    year = 2016 if leap else 2017
    return datetime(year, 1, 1) + timedelta(minutes=moy)


def check_case(op, inp):
    from ladybug.dt import DateTime, Date, Time
    leap = bool(inp.get('leap', False))
    sig = {'leap': leap}
    if op == 'moy_roundtrip':
        m = inp['moy']
        d = DateTime.from_moy(m, leap)
        r = _ref(leap, m)
        got = (d.month, d.day, d.hour, d.minute, d.leap_year, d.moy, d.doy, d.int_hoy)
        want = (r.month, r.day, r.hour, r.minute, leap, m, m // 1440 + 1, m // 60)
        if got != want:
            return {'required': want, 'observed': got, 'sig': sig}
        if abs(d.hoy - m / 60.0) > 1e-9:
            return {'required': m / 60.0, 'observed': d.hoy, 'sig': sig}
        return None
    if op == 'hoy_roundtrip':
        m = inp['moy']
        d = DateTime.from_hoy(m / 60.0, leap)
        if d.moy != m or d != DateTime.from_moy(m, leap):
            return {'required': m, 'observed': d.moy, 'sig': sig}
        return None
    if op == 'doy_roundtrip':
        k = inp['doy']
        d = Date.from_doy(k, leap)
        r = date(2016 if leap else 2017, 1, 1) + timedelta(days=k - 1)
        if (d.month, d.day, d.doy, d.leap_year) != (r.month, r.day, k, leap):
            return {'required': (r.month, r.day, k, leap), 'observed': (d.month, d.day, d.doy, d.leap_year),
                    'sig': sig}
        return None
    if op == 'reject':
        what, v = inp['what'], inp['value']
        try:
            if what == 'moy':
                r = DateTime.from_moy(v, leap)
            else:
                r = Date.from_doy(v, leap)
        except ValueError:
            return None
        except Exception as e:
            return None if isinstance(e, (IndexError,)) else {
                'required': 'ValueError', 'observed': repr(e), 'sig': dict(sig, what=what)}
        return {'required': 'rejected', 'observed': str(r), 'sig': dict(sig, what=what)}
    if op == 'order':
        a, b = inp['a'], inp['b']
        da, db = DateTime.from_moy(a, leap), DateTime.from_moy(b, leap)
        if (a < b) != (da < db) or (a == b) != (da == db):
            return {'required': 'order of %d,%d' % (a, b), 'observed': '%s vs %s' % (da, db), 'sig': sig}
        return None
    if op == 'add_sub':
        d0 = DateTime.from_moy(inp['moy'], leap)
        k = inp['k']
        if inp.get('unit') == 'hour':
            back = d0.add_hour(k).sub_hour(k)
        else:
            fwd = d0.add_minute(k)
            if fwd.moy != inp['moy'] + k:
                return {'required': inp['moy'] + k, 'observed': fwd.moy, 'sig': dict(sig, unit='minute')}
            back = fwd.sub_minute(k)
        if back != d0 or back.leap_year != leap:
            return {'required': str(d0), 'observed': str(back), 'sig': dict(sig, unit=inp.get('unit', 'minute'))}
        return None
    if op == 'serial':
        d = DateTime.from_moy(inp['moy'], leap)
        forms = {
            'array': lambda x: type(x).from_array(x.to_array()),
            'dict': lambda x: type(x).from_dict(json.loads(json.dumps(x.to_dict()))),
            'pickle': lambda x: pickle.loads(pickle.dumps(x)),
            'copy': lambda x: copy.copy(x),
            'deepcopy': lambda x: copy.deepcopy(x),
        }
        objs = {'DateTime': d, 'Date': d.date, 'Time': d.time}
        for cname, obj in objs.items():
            for fname, f in forms.items():
                try:
                    back = f(obj)
                    ok = back == obj and type(back) is type(obj) and \
                        getattr(back, 'leap_year', None) == getattr(obj, 'leap_year', None)
                    obs = str(back)
                except Exception as e:
                    ok, obs = False, 'raises %s' % type(e).__name__
                if not ok:
                    return {'required': str(obj), 'observed': obs,
                            'sig': dict(sig, form=fname, cls=cname)}
        text = {
            'DateTime': lambda x: DateTime.from_date_time_string(str(x), leap),
            'Date': lambda x: Date.from_date_string(str(x), leap),
            'Time': lambda x: Time.from_time_string(str(x)),
        }
        for cname, obj in objs.items():
            try:
                back = text[cname](obj)
                ok = back == obj
                obs = str(back)
            except Exception as e:
                ok, obs = False, 'raises %s' % type(e).__name__
            if not ok:
                return {'required': str(obj), 'observed': obs, 'sig': dict(sig, form='text', cls=cname)}
        return None
    raise ValueError('unknown op ' + op)


replay = check_case


def _oracle_cases(ctx):
    rng = ctx.rng
    big = ctx.searching or not ctx.quick
    for leap in (False, True):
        n = _year_minutes(leap)
        moys = [m for m in _boundary_moys(leap) if 0 <= m < n]
        if ctx.searching or not ctx.quick:
            moys = range(n)                               # exhaustive
        else:
            moys = moys + [rng.randrange(n) for _ in range(4000)]
        for m in moys:
            yield 'moy_roundtrip', {'leap': leap, 'moy': m}
        hm = moys if not isinstance(moys, range) else range(0, n, 1 if not ctx.quick else 7)
        for m in hm:
            yield 'hoy_roundtrip', {'leap': leap, 'moy': m}
        for k in range(1, (366 if leap else 365) + 1):
            yield 'doy_roundtrip', {'leap': leap, 'doy': k}
        for v in (n, n + 1, n + 1440, 2 * n, 10 ** 8):
            yield 'reject', {'leap': leap, 'what': 'moy', 'value': v}
        for v in (0, -1, (366 if leap else 365) + 1, 400, 1000):
            yield 'reject', {'leap': leap, 'what': 'doy', 'value': v}
        bm = [m for m in _boundary_moys(leap) if 0 <= m < n]
        for _ in range(3000 if not big else 30000):
            a = rng.choice(bm) if rng.random() < 0.5 else rng.randrange(n)
            b = rng.choice(bm) if rng.random() < 0.5 else rng.randrange(n)
            yield 'order', {'leap': leap, 'a': a, 'b': b}
        for _ in range(3000 if not big else 30000):
            m = rng.choice(bm) if rng.random() < 0.4 else rng.randrange(n)
            k = rng.randrange(-m, n - m)
            yield 'add_sub', {'leap': leap, 'moy': m, 'k': k}
            kh = rng.randrange(-(m // 60), (n - m - 1) // 60 + 1)
            yield 'add_sub', {'leap': leap, 'moy': m, 'k': kh, 'unit': 'hour'}
        sm = bm + [rng.randrange(n) for _ in range(600 if not big else 20000)]
        if leap:
            sm += [(31 + 28) * 1440 + x for x in (0, 1, 180, 1439)]   # 29 Feb
        for m in sm:
            yield 'serial', {'leap': leap, 'moy': m}


def oracle(ctx):
    run_oracle_cases(ctx, _oracle_cases(ctx), check_case)

LEVEL_TEXT = ('Machine-checked Lean 4 theorems (23) over an executable model of dt.py: from_moy/moy and '
              'from_doy/doy are mutually inverse bijections for every minute/day of normal and leap years, '
              'out-of-year inputs are rejected, ordering equals ordering of moy, add/sub offsets invert, '
              'array/dict/pickle/text forms round-trip incl. 29 Feb. The month tables used by the model are '
              'regenerated from dt.py on every run (a changed table breaks theorem C08_tables_*), and the '
              'model is compared with the real classes on boundary-biased and (thorough) exhaustive inputs.')
LEVEL_NOTE = ('Trusted: Lean kernel; axioms propext/Classical.choice/Quot.sound only; the table extractor; '
              'the correspondence run (agreement on generated inputs only); CPython datetime as the calendar '
              'reference; float hour normalisation modelled as exact carry (compared exhaustively); '
              'character-level text formatting tied by correspondence only.')
TECHNIQUE = ('Lean 4 proof (induction on the month search, decide +kernel over the 365/366 day indices, omega) '
             'about a model tied to dt.py by regenerated tables and differential correspondence')
