"""C08 — Date-time <-> hour/minute/day-of-year conversions are exact bijections.

Model: lean/Ladybug/Model/Cal.lean (+ Model/C08Hist.lean: operation histories on one date-time
variable); theorems: lean/Ladybug/Props/C08.lean (+ Proofs/C08Hist.lean); driver: drv_c08.
Tie: translator (Gen/DtTables from dt.py) + correspondence on the ops below.

Producers in dt.py and EVERY consumer of each (all of them are exercised by the correspondence
and/or the oracle, so that a producer changed together with one consumer shows in the others):

  P1 minute-of-year month table + search (DateTime.from_moy)
       <- from_moy, from_hoy, add_minute, sub_minute, add_hour, sub_hour            [corr + oracle + histories]
  P2 Time._calculate_hour_and_minute (float hour -> hour, minute, carry)
       <- DateTime.__new__, Time.__new__, Time.from_mod; through __new__: every constructor path
          (from_moy, from_dict, from_array, from_date_time_string, from_date_and_time,
          from_first_hour, from_last_hour, __reduce_ex__/pickle/copy)              [corr: norm_hm/make/time_make; oracle: hoy_float, serial]
  P3 day-of-year month table + search (Date.from_doy)
       <- Date.from_doy (both leap flags, both call orders)                          [corr + oracle + histories 'fd' + process order]
  P4 derived indices: doy -> int_hoy -> moy; doy -> hoy; float_hour
       <- .doy .int_hoy .moy .hoy .float_hour, add_minute (reads moy), ordering     [every observation of every step]
  P5 leap flag (year 2016/2017 <-> leap_year)
       <- to_array, to_dict, __reduce_ex__, add_minute, .date, from_date_and_time   [serial, histories 'sl'/'via']
  P6 __reduce_ex__ (DateTime, Date, Time)
       <- pickle protocols 0..5, copy.copy, copy.deepcopy                            [oracle serial, histories via]
  P7 text forms (__str__/strftime)
       <- from_date_time_string, Date.from_date_string, Time.from_time_string        [corr str/parse, oracle serial, histories via text]

Round 3 additions: (1) HISTORIES: generated op lists executed on one date-time variable in one
module instance / one process (constructors of both year kinds in any order, offsets, refused
calls in between, serial trips, repeated reads), compared step by step with the Lean state machine
`Cal.Hist.step` (correspondence) and with a stdlib-datetime reference (oracle).  dt.py has no
per-object state (`__slots__ = ()`) and no module-level state: the model is a pure function of the
public state, so any memo/slot that survives a refused call, a change of year kind or a different
call order shows as a difference.  (2) PROCESS ORDER: a slice of the oracle stream is run in fresh
Python subprocesses, each with another seeded order (failing calls and leap cases first in one
of them); a failure is reported as op `process_order` with the (shrunk) order as replay.
(3) float hours at arbitrary resolution (`hoy_float`), zero / boundary / leap-only strata.

Round 4 additions (classes e-j of ROUND4_BRIEF):
  (e) sibling classes / override gaps: oracle op `siblings` - DateTime, its .date and .time, every
      sibling constructor (constructor, from_moy, from_hoy, from_doy+from_mod, from_date_and_time,
      from_first_hour+add, from_last_hour-sub, midnight+add_hour), str/repr/ToString/to_simple_string
      and trivial USER SUBCLASSES of the three classes must describe the same instant; the Date and
      Time serial forms are compared with the model too (date_to_dict, date_from_dict, time_from_dict,
      time_from_array).  Theorem C08_siblings.
  (f) aliasing / one-shot iterables: oracle op `alias` - two objects (both year kinds, either order),
      each result of to_dict / to_array / __reduce_ex__ / str kept, the other object asked, the second
      result edited in place, the first asked again; from_dict / from_array leave their argument alone
      and accept every mapping type / insertion order / container shape (`_SHAPES`, also in the
      correspondence of from_array, date_from_array, time_from_array).
  (g) conventions between anchored functions: from_hoy->from_moy (h*60), add_hour->add_minute (h*60),
      sub_*->add_* (negation), .date/.time -> constructors (argument order), to_array<->from_array
      (layout), __reduce_ex__ -> __new__ (argument order), from_date_and_time (leap from date.year),
      __str__ <-> from_*_string (format), from_mod (mod/60.0): each composite is checked against the
      stdlib calendar in `siblings`/`shape`/`serial` on inputs with month != day, hour != minute, leap.
  (h) numeric edges: offsets that are not whole minutes / hours in `add_sub` (either operation first,
      sums within one minute, exact inverse), history step `pf` (fractional add/sub pair inside a
      history), correspondence add_minute_f / sub_minute_f (model `addMinuteQ`: int() toward zero);
      fractional constructor arguments `ctor_float` + correspondence calc_hm / make_f / time_make_f
      (both branches of _calculate_hour_and_minute, ties, 1e-12, 5e-324, 1e15); the far end of the
      year reached by accumulated float steps of 1/timestep for all 12 timesteps; from_hoy / add_minute
      / add_hour beyond the year are refused (`reject` what=hoy/add/add_hour), magnitudes up to 1e16.
      Theorems C08_add_sub_fraction, C08_sub_add_fraction, C08_add_sub_hour_fraction,
      C08_history_add_sub_hour_fraction, C08_calc_hm_branches, C08_calc_hm_whole.
  (i) input shapes: oracle op `shape` - whole floats where integers are expected and the reverse,
      keyword arguments, leap flag as bool / 0 / 1, from_dict with the defaulted keys omitted, arrays
      through JSON, text with one- and two-digit fields mixed for all three from_*_string readers.
      (dt.py has no text-for-number setters; `int('12')`-style acceptance by from_moy / from_doy is an
      accident of `int()` and is NOT demanded.)
  (j) branches of the anchored functions (read from dt.py f00545e):
        DateTime.__new__ / Date.__new__ / Time.__new__ : ok | ValueError re-raised      [reject make/date, history mk]
        from_dict (x3): each key present | absent (default)                            [from_dict corr, shape]
        from_moy: normal | leap table; loop breaks at month 1..12 | falls through
                  (UnboundLocalError->ValueError); negative band -1440<moy<0 (quirk)    [from_moy corr, reject, C08_fromMoy_branch]
        from_doy: normal | leap table; breaks at month 1..12 | falls through; day == 0
                  (month -= 1; month 0 -> table[-1]) | plain; negative day             [from_doy corr -3..369, C08_fromDoy_branches(+_outside)]
        from_date_time_string / from_date_string / from_time_string: strptime | `except
                  AttributeError` fallback - UNREACHABLE on CPython 3 (strptime exists)
        from_date_and_time: leap | normal;  to_array / to_dict (DateTime, Date): leap | normal
        _calculate_hour_and_minute: minute == 60 (carry) | else                        [ctor_float, calc_hm corr, C08_calc_hm_branches]
      `_branch_coverage` traces (sys.settrace) a slice of the stream on the real module and lists every
      line of dt.py with code that no case executes (evidence `branch:unreached:line-N`; on f00545e
      exactly the 11 lines of the three unreachable fallbacks).
"""
import calendar
import copy
import itertools
import json
import os
import pickle
import struct
import subprocess
import sys
import types
from datetime import date, datetime, timedelta
from fractions import Fraction

from harness import core
from harness.core import compare_batch, err_name, run_oracle_cases

PROP = 'C08'
PROOF_MODULES = ['Ladybug.Props.C08']
GREP_MODULES = ['Ladybug.Py', 'Ladybug.Model.Cal', 'Ladybug.Model.C08Hist', 'Ladybug.Model.C08Frac',
                'Ladybug.Gen.DtTables', 'Ladybug.Proofs.CalLemmas', 'Ladybug.Proofs.C08Hist',
                'Ladybug.Proofs.C08R4', 'Ladybug.Drv.C08', 'Ladybug.DrvCore']
RULE = ('correspondence: month-boundary minutes +-2, random minutes, all day numbers -2..368, all '
        '(hour, minute) normalisations, offsets, serial forms, float minutes, for both leap flags (thorough: '
        'every minute of both years); HISTORIES: op lists on one date-time variable (constructors of both '
        'year kinds, offsets, refused calls, leap-flag switches, serial trips, repeated reads, twin triples) '
        'run on a new module instance and on the long-lived module, compared step by step with the Lean '
        'state machine; oracle: inverse laws / ordering / serial round trips / float hours at arbitrary '
        'resolution / histories against a stdlib reference on the real classes; round 4: fractional offsets '
        '(add first / sub first), fractional constructor arguments (carry branch, ties), sibling classes and '
        'user subclasses, aliasing of returned containers, argument container / mapping types, number and text '
        'shapes, accumulated float steps to the far end of the year for all 12 timesteps, traced line coverage '
        'of dt.py; PROCESS ORDER: a slice of '
        'the oracle stream in 3-4 fresh interpreters in different seeded orders (failing + leap cases first '
        'in one); a case is non-trivial when the implementation returns a value (not a rejection); '
        'distinct = distinct (op, input)')
TRUSTED_BASE = [
    'translator tools/extract/dt_tables.py: copies the four month tables and MONTHNAMES from dt.py',
    'modelled, not verified: CPython datetime/date/time constructors, strptime/strftime, pickle/copy '
    'calling __reduce_ex__, float hour normalisation (compared exhaustively for hour 0..30 x minute 0..200)',
    'character-level lexing/zero-padding of the text form is tied by correspondence only '
    '(theorem C08_str_roundtrip is at token level)',
    'absence of hidden state in dt.py (per object / per module) is what the history model states; it is '
    'tied by the step-by-step history correspondence and the fresh-interpreter order runs of this run only',
    'fractional hour/minute constructor arguments: the two IEEE operations hour + minute / 60.0 and '
    '(float_hour - hour) * 60 are formed by the driver in double arithmetic (Lean Float = C double), the '
    'model takes their exact values (Model/C08Frac.lean)',
    'container / mapping type of from_array / from_dict arguments: the model takes lists; the real code is '
    'fed the same numbers as tuple, list, generator, iterator, map, one-shot iterable, dict view and as '
    'dict / OrderedDict / mappingproxy / ChainMap in several insertion orders (compared only)',
]
ASSUMPTIONS = ['CPython datetime arithmetic is the reference calendar for the oracle']


def extract(ctx):
    from tools.extract import dt_tables
    ctx.tables = dt_tables.extract()


def _fbits(x):
    return '%016x' % struct.unpack('<Q', struct.pack('<d', x))[0]


def _b(x):
    return '1' if x else '0'


def _show_dt(d):
    return 'ok %d %d %d %d %s %d %d %d' % (d.month, d.day, d.hour, d.minute, _b(d.leap_year),
                                          d.doy, d.int_hoy, d.moy)


def _show_d(d):
    return 'ok %d %d %s %d' % (d.month, d.day, _b(d.leap_year), d.doy)


def _show_t(t):
    return 'ok %d %d %d' % (t.hour, t.minute, t.mod)


def _year_minutes(leap):
    return 527040 if leap else 525600


def _boundary_moys(leap):
    out = set()
    year = 2016 if leap else 2017
    for m in range(1, 13):
        start = int((datetime(year, m, 1) - datetime(year, 1, 1)).total_seconds() // 60)
        for k in (-2, -1, 0, 1, 2, 59, 60, 61, 1439, 1440, 1441):
            out.add(start + k)
    n = _year_minutes(leap)
    for k in (-1441, -1440, -1439, -61, -60, -59, -2, -1, n - 2, n - 1, n, n + 1, n + 1440, 10 ** 7):
        out.add(k)
    return sorted(out)


def _rand_dt(rng, leap=None):
    from ladybug.dt import DateTime
    leap = rng.random() < 0.5 if leap is None else leap
    r = rng.random()
    if leap and r < 0.15:
        return DateTime(2, 29, rng.randrange(24), rng.randrange(60), True)
    if r < 0.3:
        m, d = rng.choice([(1, 1), (12, 31), (2, 28), (3, 1), (6, 30), (7, 31)])
        return DateTime(m, d, rng.choice([0, 23, 12]), rng.choice([0, 59, 30]), leap)
    r = _ref(leap, rng.randrange(_year_minutes(leap)))      # stdlib calendar, not the code under test
    return DateTime(r.month, r.day, r.hour, r.minute, leap)


# ---------------------------------------------------------------------------------------------
# round 3: module instances, operation histories, process order


_WORKER = False            # True inside a process-order subprocess: histories run on the real module
_DT_CODE = {}
_FRESH_COUNT = itertools.count()


def _real_dt():
    import ladybug.dt
    return ladybug.dt


class _FreshDt(object):
    """A new instance of ladybug/dt.py (module-level state as in a new process, at no cost).
    Registered in sys.modules while in use so that pickle finds the classes."""

    def __enter__(self):
        path = os.path.join(core.REPO, 'ladybug', 'dt.py')
        if path not in _DT_CODE:
            with open(path, encoding='utf-8') as f:
                _DT_CODE[path] = compile(f.read(), path, 'exec')
        self.name = 'ladybug_dt_instance_%d' % next(_FRESH_COUNT)
        mod = types.ModuleType(self.name)
        mod.__file__ = path
        sys.modules[self.name] = mod
        exec(_DT_CODE[path], mod.__dict__)
        return mod

    def __exit__(self, *a):
        sys.modules.pop(self.name, None)


class _ReadImpure(Exception):
    pass


_READS = ('month', 'day', 'hour', 'minute', 'leap_year', 'doy', 'int_hoy', 'moy', 'hoy', 'float_hour')
_VIA_MODEL = {'array': 'array', 'dict': 'dict', 'text': 'text', 'date_time': 'date_time', 'copy': 'reduce',
              'deepcopy': 'reduce', 'pickle0': 'reduce', 'pickle1': 'reduce', 'pickle2': 'reduce',
              'pickle3': 'reduce', 'pickle4': 'reduce', 'pickle5': 'reduce'}
_VIAS = sorted(_VIA_MODEL)


def _via(mod, cur, form):
    DT = mod.DateTime
    if form == 'array':
        return DT.from_array(cur.to_array())
    if form == 'dict':
        return DT.from_dict(json.loads(json.dumps(cur.to_dict())))
    if form == 'text':
        return DT.from_date_time_string(str(cur), cur.leap_year)
    if form == 'date_time':
        return DT.from_date_and_time(cur.date, cur.time)
    if form == 'copy':
        return copy.copy(cur)
    if form == 'deepcopy':
        return copy.deepcopy(cur)
    if form.startswith('pickle'):
        return pickle.loads(pickle.dumps(cur, int(form[6:])))
    raise ValueError('unknown form ' + form)


def _apply_op(mod, cur, op):
    """Right-hand side of one history step on the real classes (may raise)."""
    DT, D, T = mod.DateTime, mod.Date, mod.Time
    t = op[0]
    if t == 'fm':
        return DT.from_moy(op[2], bool(op[1]))
    if t == 'fh':
        return DT.from_hoy(op[2], bool(op[1]))
    if t == 'fd':
        return DT.from_date_and_time(D.from_doy(op[2], bool(op[1])), cur.time)
    if t == 'mk':
        return DT(op[2], op[3], op[4], op[5], bool(op[1]))
    if t == 'am':
        return cur.add_minute(op[1])
    if t == 'sm':
        return cur.sub_minute(op[1])
    if t == 'ah':
        return cur.add_hour(op[1])
    if t == 'sh':
        return cur.sub_hour(op[1])
    if t == 'sl':
        return DT(cur.month, cur.day, cur.hour, cur.minute, bool(op[1]))
    if t == 'md':
        return DT.from_date_and_time(cur.date, T.from_mod(op[1]))
    if t == 'via':
        return _via(mod, cur, op[1])
    if t == 'pf':
        # one step = add then subtract (or subtract then add) the same, possibly fractional, offset
        f1, f2 = ('add_', 'sub_') if op[2] == 'add' else ('sub_', 'add_')
        return getattr(getattr(cur, f1 + op[1])(op[3]), f2 + op[1])(op[3])
    if t == 'rd':
        # the same question asked twice, in two different orders: reads must be pure
        names = list(_READS)
        k = op[1] % len(names)
        order1 = names[k:] + names[:k]
        first = {n: getattr(cur, n) for n in order1}
        second = {n: getattr(cur, n) for n in reversed(order1)}
        if first != second:
            raise _ReadImpure('%r then %r' % (first, second))
        return cur
    raise ValueError('unknown history op %r' % (op,))


def _op_token(op):
    t = op[0]
    if t in ('fh',):
        return 'fh:%d:%s' % (op[1], _fbits(float(op[2])))
    if t in ('ah', 'sh'):
        return '%s:%s' % (t, _fbits(float(op[1])))
    if t == 'via':
        return 'via:' + _VIA_MODEL[op[1]]
    if t == 'rd':
        return 'rd'
    return ':'.join([t] + [str(int(x)) for x in op[1:]])


def _obs(d):
    return (d.month, d.day, d.hour, d.minute, bool(d.leap_year), d.doy, d.int_hoy, d.moy)


def _run_history_impl(mod, ops):
    """Outputs of a history on the real classes, in the driver's format (hoy kept as a float)."""
    cur = mod.DateTime()
    out = []
    for op in ops:
        try:
            res = _apply_op(mod, cur, op)
            o = _obs(res)
            out.append(('ok',) + o[:4] + (int(o[4]),) + o[5:] + (res.hoy,))
            cur = res
        except _ReadImpure as e:
            out.append(('impure', str(e)))
        except Exception as e:
            out.append(('err:' + err_name(e),))
    return out


def _model_step_eq(mtxt, io):
    """Compare one model output ('ok ..' | 'err:..') with one implementation output tuple."""
    mt = mtxt.split()
    if io[0] != 'ok' or not mt or mt[0] != 'ok':
        return len(io) == 1 and mt == [io[0]]
    if len(mt) != 10:
        return False
    if [int(x) for x in mt[1:9]] != [int(x) for x in io[1:9]]:
        return False
    return abs(float(Fraction(mt[9])) - io[9]) <= 1e-9


def _month_len(leap, mo):
    return calendar.monthrange(2016 if leap else 2017, mo)[1]


def _moy_of(leap, mo, da, h, mi):
    year = 2016 if leap else 2017
    return int((datetime(year, mo, da, h, mi) - datetime(year, 1, 1)).total_seconds() // 60)


def _ref_step(ref, op):
    """Reference semantics of one step on the public state (leap, moy), from the statement and the
    stdlib calendar only.  Returns ('in', new_ref) when the property determines the result,
    ('out', ref) when it does not (refused or outside the statement: the result is discarded)."""
    leap, moy = ref
    t = op[0]
    if t == 'fm':
        l, m = bool(op[1]), op[2]
        if isinstance(m, int) and 0 <= m < _year_minutes(l):
            return 'in', (l, m)
        return 'out', ref
    if t == 'fh':
        l = bool(op[1])
        x = Fraction(op[2]) * 60
        n = (x + Fraction(1, 2)).__floor__()
        if abs(x - n) > Fraction(1, 2) - Fraction(1, 10 ** 6):      # too close to a tie
            return 'out', ref
        if 0 <= n < _year_minutes(l):
            return 'in', (l, n)
        return 'out', ref
    if t == 'fd':
        l, k = bool(op[1]), op[2]
        if 1 <= k <= (366 if l else 365):
            return 'in', (l, (k - 1) * 1440 + moy % 1440)
        return 'out', ref
    if t == 'mk':
        l, mo, da, h, mi = bool(op[1]), op[2], op[3], op[4], op[5]
        if 1 <= mo <= 12 and 1 <= da <= _month_len(l, mo) and 0 <= h <= 23 and 0 <= mi <= 59:
            return 'in', (l, _moy_of(l, mo, da, h, mi))
        return 'out', ref
    if t in ('am', 'sm', 'ah', 'sh'):
        k = Fraction(op[1]) * (60 if t in ('ah', 'sh') else 1)
        if k.denominator != 1:
            return 'out', ref
        k = int(k) if t in ('am', 'ah') else -int(k)
        if 0 <= moy + k < _year_minutes(leap):
            return 'in', (leap, moy + k)
        return 'out', ref
    if t == 'sl':
        l = bool(op[1])
        r = _ref(leap, moy)
        if r.day <= _month_len(l, r.month):
            return 'in', (l, _moy_of(l, r.month, r.day, r.hour, r.minute))
        return 'out', ref
    if t == 'md':
        if 0 <= op[1] < 1440:
            return 'in', (leap, moy // 1440 * 1440 + op[1])
        return 'out', ref
    if t in ('via', 'rd'):
        return 'in', ref
    if t == 'pf':
        exact = Fraction(op[3]) * (60 if op[1] == 'hour' else 1)
        mid = moy + exact if op[2] == 'add' else moy - exact
        if 0 <= mid <= _year_minutes(leap) - 1:
            return 'in', ref
        return 'out', ref
    raise ValueError('unknown history op %r' % (op,))


def _expected_obs(ref):
    leap, moy = ref
    r = _ref(leap, moy)
    return (r.month, r.day, r.hour, r.minute, leap, moy // 1440 + 1, moy // 60, moy)


def _check_history(mod, ops):
    """The statement of C08 along a history: after every step the current date-time reads as the
    stdlib calendar says for the state the caller has established; refused calls change nothing."""
    cur = mod.DateTime()
    ref = (False, 0)
    refused = 0
    for i, op in enumerate(ops):
        dom, new = _ref_step(ref, op)
        sig = {'kind': 'history', 'step': op[0], 'leap': bool(new[0])}
        try:
            res = _apply_op(mod, cur, op)
        except _ReadImpure as e:
            return {'required': 'two reads of the same date-time agree', 'observed': str(e),
                    'sig': dict(sig, what='read'), 'at': i}
        except Exception as e:
            if dom == 'out':
                refused += 1
                continue
            return {'required': _expected_obs(new), 'observed': 'raises %s: %s' % (type(e).__name__, str(e)[:80]),
                    'sig': dict(sig, what='raises'), 'at': i, 'after_refused': refused}
        if dom == 'out':
            continue                      # the statement does not determine it: discarded
        want = _expected_obs(new)
        got = _obs(res)
        if got != want or type(res) is not mod.DateTime:
            return {'required': want, 'observed': got, 'sig': dict(sig, what='value'), 'at': i,
                    'after_refused': refused}
        if abs(res.hoy - new[1] / 60.0) > 1e-9:
            return {'required': new[1] / 60.0, 'observed': res.hoy, 'sig': dict(sig, what='hoy'), 'at': i}
        if op[0] in ('via', 'rd', 'pf') and not (res == cur and hash(res) == hash(cur)):
            return {'required': 'equal to %s' % (cur,), 'observed': str(res), 'sig': dict(sig, what='equal'),
                    'at': i}
        cur, ref = res, new
    return None


def _history_result(ops):
    if _WORKER:
        return _check_history(_real_dt(), ops)
    with _FreshDt() as mod:
        return _check_history(mod, ops)


def _shrink_history(ops, fails):
    """Greedy removal of steps while `fails(ops)` stays true (each trial on a new module instance)."""
    ops = list(ops)
    i = len(ops) - 1
    budget = 200
    while i >= 0 and budget > 0:
        trial = ops[:i] + ops[i + 1:]
        budget -= 1
        if trial and fails(trial):
            ops = trial
        i -= 1
    return ops


_HOURS = (0.0, 0.25, 0.5, 0.75, 1.0, 1.5, 2.0, 6.0, 12.0, 23.75, 24.0, 24.25, 48.0, 100.5, 720.0, 744.0)


def _gen_history(rng, length, wild=False, count=None):
    """A history as a JSON-able op list.  Built from plain numbers and a private reference state
    (never calls the code under test).  `wild` adds inputs outside the statement (negative band,
    minute carries, fractional hours, near-ties) that only the model correspondence can judge."""
    ref = (False, 0)
    ops = []

    def cnt(k):
        if count is not None:
            count('hist:' + k)

    def target(l):
        n = _year_minutes(l)
        r = rng.random()
        if r < 0.35:
            cnt('target-boundary')
            return rng.choice([m for m in _boundary_moys(l) if 0 <= m < n])
        if r < 0.70:
            cnt('target-near-current')
            return min(n - 1, max(0, ref[1] + rng.choice([-1, 1]) * rng.choice([0, 1, 59, 60, 1439, 1440, 1441,
                                                                                 rng.randrange(4320)])))
        if l and r < 0.78:
            cnt('target-leap-only-31dec')
            return rng.randrange(525600, 527040)
        cnt('target-random')
        return rng.randrange(n)

    while len(ops) < length:
        leap = ref[0]
        if ops and rng.random() < 0.06:
            # the same question to the two twins of one date (leap / non-leap) and to one date-time twice
            q = rng.choice([['via', rng.choice(_VIAS)], ['rd', rng.randrange(10)], ['am', 0], ['sh', 0.0],
                            ['md', ref[1] % 1440], ['fd', int(leap), ref[1] // 1440 + 1]])
            mid = rng.choice([['sl', int(not leap)], ['sl', int(not leap)], list(q), ['fm', int(not leap), ref[1]]])
            for op in (q, mid, [q[0], int(bool(mid[1])), q[2]] if q[0] == 'fd' and mid[0] != q[0] else list(q)):
                ops.append(op)
                cnt('op-' + op[0])
                dom, ref = _ref_step(ref, op)
            cnt('twin-triple')
            continue
        l = (not leap) if rng.random() < 0.35 else leap
        n = _year_minutes(l)
        r = rng.random()
        if r < 0.16:                                   # refused calls (the code raises)
            kind = rng.randrange(7)
            cnt('refused')
            if kind == 0:
                op = ['fm', int(l), rng.choice([n, n + 1, n + 1439, n + 1440, 2 * n, 10 ** 7, -1440, -1441, -n])]
            elif kind == 1:
                op = ['fd', int(l), rng.choice([0, -1, (366 if l else 365) + 1, 367, 400, 1000])]
            elif kind == 2:
                op = ['mk', int(l)] + list(rng.choice([(2, 30, 0, 0), (2, 29 if not l else 30, 12, 0), (4, 31, 0, 0),
                                                       (13, 1, 0, 0), (0, 1, 0, 0), (1, 0, 0, 0), (1, 32, 0, 0),
                                                       (6, 15, 24, 0), (6, 15, 23, 60), (12, 31, 25, 0)]))
            elif kind == 3:
                nn = _year_minutes(leap)
                op = ['am', rng.choice([nn - ref[1], nn - ref[1] + 1, nn, 2 * nn, -ref[1] - 1440, -ref[1] - 1441, -2 * nn])]
            elif kind == 4:
                nn = _year_minutes(leap)
                op = ['sm', rng.choice([ref[1] + 1440, ref[1] + 1441, nn, -(nn - ref[1]), -(nn - ref[1]) - 1])]
            elif kind == 5:
                nn = _year_minutes(leap)
                op = [rng.choice(['ah', 'sh']), float(rng.choice([8784, 9000, 20000]))]
                if op[0] == 'sh' and ref[1] // 60 + 24 > op[1]:
                    op[1] = float(ref[1] // 60 + 25)
            else:
                op = ['md', rng.choice([1440, 1441, 1500, 2000])]
        elif r < 0.34:
            m = target(l)
            if rng.random() < 0.08:
                m = rng.choice([0, n - 1])
                cnt('year-edge')
            op = ['fm', int(l), m]
        elif r < 0.46:
            m = target(l)
            rr = rng.random()
            if rr < 0.4:
                h = m / 60.0
            elif rr < 0.75:                            # arbitrary resolution, clear of the .5 tie
                h = (m + rng.choice([0.4999, -0.4999, 0.499, -0.499, 0.25, -0.25, 0.01, rng.uniform(-0.49, 0.49)])) / 60.0
                cnt('hoy-fraction')
            else:                                      # last half minute before a full hour / midnight
                base = m - m % 60 + 60 if rng.random() < 0.5 else m - m % 1440 + 1440
                h = (base - rng.choice([0.4999, 0.49, 0.3, 0.01, 1e-7])) / 60.0
                cnt('hoy-last-half-minute')
            if wild and rng.random() < 0.15:
                h = (m + rng.choice([0.5, -0.5, 0.5000001, 0.4999999])) / 60.0
            if rng.random() < 0.05:
                h = rng.choice([0.0, -0.0, 0, 1e-12])
            op = ['fh', int(l), h]
        elif r < 0.54:
            days = 366 if l else 365
            k = rng.choice([1, 31, 32, 59, 60, 61, 90, 91, 92, 365, days, days - 1, rng.randrange(1, days + 1),
                            min(days, max(1, ref[1] // 1440 + 1 + rng.choice([-1, 0, 1])))])
            op = ['fd', int(l), k]
        elif r < 0.60:
            mo = rng.randrange(1, 13)
            da = rng.choice([1, 28, _month_len(l, mo), rng.randrange(1, _month_len(l, mo) + 1)])
            if l and rng.random() < 0.2:
                mo, da = 2, 29
            h, mi = rng.choice([(0, 0), (23, 59), (12, 30), (rng.randrange(24), rng.randrange(60))])
            if wild and rng.random() < 0.3:
                h, mi = rng.choice([(23, 60), (5, 61), (22, 120), (0, 199), (24, 0)])
            op = ['mk', int(l), mo, da, h, mi]
        elif r < 0.74:
            nn = _year_minutes(leap)
            t = target(leap)
            k = t - ref[1]
            rr = rng.random()
            if rr < 0.1:
                k = 0
                cnt('offset-zero')
            elif rr < 0.2:
                k = rng.choice([-ref[1], nn - 1 - ref[1]])          # exactly onto the first / last minute
                cnt('offset-to-year-edge')
            if wild and rng.random() < 0.1:
                k = -ref[1] - rng.randrange(1, 1440)                 # negative band (outside the statement)
            op = ['am', k] if rng.random() < 0.5 else ['sm', -k]
        elif r < 0.82:
            nn = _year_minutes(leap)
            h = rng.choice(_HOURS) * rng.choice([1, -1])
            if wild and rng.random() < 0.3:
                h = rng.choice([0.1, 2.05, -2.05, 1 / 3.0, 0.004, rng.uniform(-30, 30)])
            if not 0 <= ref[1] + h * 60 < nn:
                h = -h
            op = [rng.choice(['ah', 'sh']), float(h)]
        elif r < 0.835 and not wild:
            unit = rng.choice(['minute', 'hour'])
            k = _frac_offsets(rng, ref[1], _year_minutes(leap))
            if unit == 'hour':
                k = rng.choice([k / 60.0, 0.01, -0.01, 1.51, -1.51, 1 / 3.0, 0.1, -2.05, 0.004])
            op = ['pf', unit, rng.choice(['add', 'sub']), k]
            cnt('fractional-add-sub-pair')
        elif r < 0.87:
            op = ['sl', int(not leap) if rng.random() < 0.7 else int(leap)]
            cnt('switch-leap-flag')
        elif r < 0.90:
            op = ['md', rng.choice([0, 1, 59, 60, 61, 719, 720, 1380, 1439, rng.randrange(1440)])]
        elif r < 0.96:
            op = ['via', rng.choice(_VIAS)]
        else:
            op = ['rd', rng.randrange(10)]
        ops.append(op)
        cnt('op-' + op[0])
        dom, ref = _ref_step(ref, op)
        if dom == 'in' and ref[0]:
            r0 = _ref(*ref)
            if (r0.month, r0.day) == (2, 29):
                cnt('on-29-feb')
    return ops


# -- process order: the same oracle cases in fresh interpreters, in different orders


def _worker_main():
    """Entry of a process-order subprocess: reads {"order": [[op, inp], ...]} on stdin, evaluates the
    cases in that order on the real module of this (new) process, prints the failures as JSON."""
    global _WORKER
    _WORKER = True
    sys.path.insert(0, core.REPO)
    order = json.load(sys.stdin)['order']
    fails = []
    for i, (op, inp) in enumerate(order):
        try:
            res = check_case(op, inp)
        except Exception as e:
            res = {'required': 'oracle evaluates', 'observed': 'exception %s: %s' % (type(e).__name__, e),
                   'sig': {'exception': type(e).__name__}}
        if res:
            fails.append({'index': i, 'op': op, 'input': inp, 'required': res.get('required'),
                          'observed': res.get('observed'), 'sig': res.get('sig')})
            if len(fails) >= 5:
                break
    json.dump({'fails': fails, 'n': len(order)}, sys.stdout, default=str)


def _spawn_order(order):
    code = ('import sys; sys.path.insert(0, %r); from harness.props import c08; c08._worker_main()' % core.ROOT)
    env = dict(os.environ, LADYBUG_REPO=core.REPO, PYTHONDONTWRITEBYTECODE='1')
    return subprocess.Popen([sys.executable, '-c', code], stdin=subprocess.PIPE, stdout=subprocess.PIPE,
                            stderr=subprocess.PIPE, env=env)


def _finish_order(p, order):
    out, err = p.communicate(json.dumps({'order': order}).encode('utf-8'), timeout=900)
    if p.returncode != 0:
        # a changed implementation may break the interpreter start-up itself: a result, not a crash
        return [{'index': 0, 'op': 'import', 'input': {}, 'required': 'process runs',
                 'observed': err.decode('utf-8', 'replace')[-300:], 'sig': {'exception': 'worker'}}]
    return json.loads(out.decode('utf-8'))['fails']


def _run_order(order):
    return _finish_order(_spawn_order(order), order)


def _shrink_order(order, first_fail, budget=14):
    """Cut the order down to a short list that still fails in a fresh process."""
    idx = first_fail['index']
    failing = order[idx]
    prefix = order[:idx]

    def still(pre):
        fs = _run_order(pre + [failing])
        return bool(fs) and fs[0]['index'] == len(pre)

    if budget > 0 and still([]):
        return [failing]                     # not a matter of order at all
    budget -= 1
    chunk = max(1, len(prefix) // 2)
    while budget > 0 and prefix:
        removed = False
        i = 0
        while i < len(prefix) and budget > 0:
            trial = prefix[:i] + prefix[i + chunk:]
            budget -= 1
            if still(trial):
                prefix = trial
                removed = True
            else:
                i += chunk
        if chunk == 1 and not removed:
            break
        chunk = max(1, chunk // 2)
    return prefix + [failing]


def _is_rare_first(case):
    op, inp = case
    refusing = op == 'reject' or (op == 'history' and any(_ref_step((False, 0), o)[0] == 'out'
                                                          for o in inp['ops'][:1]))
    leap = bool(inp.get('leap')) or (op == 'history' and bool(inp['ops']) and inp['ops'][0][0] in
                                     ('fm', 'fh', 'fd', 'mk') and bool(inp['ops'][0][1]))
    return (0 if refusing else 1, 0 if leap else 1)


def _process_orders(ctx, pool):
    """2-4 fresh interpreters, each evaluating `pool` in another seeded order."""
    rng = ctx.rng
    nproc = 4 if (ctx.searching or not ctx.quick) else 3
    orders = []
    for w in range(nproc):
        o = list(pool)
        rng.shuffle(o)
        if w == 0:          # failing calls first, leap before non-leap
            o.sort(key=_is_rare_first)
            ctx.count('order:rare-first')
        elif w == 1:        # non-leap first, then a block of failing calls, then the leap cases
            o.sort(key=lambda c: (1 - _is_rare_first(c)[1], _is_rare_first(c)[0]))
            ctx.count('order:plain-first')
        else:
            ctx.count('order:shuffled')
        orders.append(o)
    procs = [(_spawn_order(o), o) for o in orders]
    for p, o in procs:
        fs = _finish_order(p, o)
        ctx.count('process-order-runs')
        ctx.count('process-order-cases', len(o))
        ctx.case(('process_order', len(ctx.distinct)))
        if fs and len(ctx.failures) < 200:
            f = fs[0]
            small = _shrink_order(o, f) if f['op'] != 'import' else []
            if len(small) == 1 and small[0][0] == 'history':
                # not a matter of order: report the (shrunk) history itself
                ops = small[0][1]['ops']
                res = _history_result(ops)
                if res:
                    ops = _shrink_history(ops[:res['at'] + 1], lambda t, sg=res['sig']: (
                        lambda r: r is not None and r['sig'] == sg)(_history_result(t)))
                    res = _history_result(ops) or res
                    ctx.fail('history', {'ops': ops}, res['required'], res['observed'], res['sig'])
                    continue
            sig = dict(f.get('sig') or {})
            sig.update({'kind': 'process_order', 'at': f['op'], 'order_dependent': len(small) > 1})
            ctx.fail('process_order', {'order': small, 'failing_case': [f['op'], f['input']]},
                     f['required'], f['observed'], sig)


# ---------------------------------------------------------------------------------------------
# round 4: argument shapes, aliasing, sibling classes, fractional arguments, branches


def _one_shot(seq):
    """An iterable that can be walked exactly once and has no len()."""
    return (x for x in list(seq))


class _OnceOnly(object):
    """Iterable whose second iteration yields nothing (like a file or a zip object)."""

    def __init__(self, seq):
        self._it = iter(list(seq))

    def __iter__(self):
        return self._it


_SHAPES = ('tuple', 'list', 'generator', 'iter', 'map', 'once', 'reversed', 'dict-keys')


def _in_shape(shape, seq):
    """The same numbers in another container type (every one is a legal argument of `cls(*array)`)."""
    seq = list(seq)
    if shape == 'tuple':
        return tuple(seq)
    if shape == 'list':
        return list(seq)
    if shape == 'generator':
        return _one_shot(seq)
    if shape == 'iter':
        return iter(seq)
    if shape == 'map':
        return map(int, seq)
    if shape == 'once':
        return _OnceOnly(seq)
    if shape == 'reversed':
        return reversed(seq[::-1])
    if shape == 'dict-keys':
        if len(set(seq)) != len(seq):
            return tuple(seq)               # keys would collapse: plain tuple instead
        return dict.fromkeys(seq).keys()
    raise ValueError(shape)


def _frac_hm_cases(rng, count, cnt=None):
    """(hour, minute) float pairs for the constructors: every branch of _calculate_hour_and_minute."""
    out = []

    def c(k):
        if cnt is not None:
            cnt('frac:' + k)

    for _ in range(count):
        r = rng.random()
        h = rng.randrange(24)
        m = rng.randrange(60)
        if r < 0.18:            # minute rounds up to 60 -> the carry branch
            out.append((float(h), 59.5 + rng.choice([1e-9, 0.001, 0.1, 0.25, 0.4, 0.4999])))
            c('carry-branch-minute')
        elif r < 0.30:          # float hour whose minute part rounds to 60
            out.append((h + 1 - rng.choice([1e-9, 1e-6, 0.0001, 0.001, 0.008]), 0.0))
            c('carry-branch-hour')
        elif r < 0.45:          # quarter / tenth hours, the usual way fractional hours are written
            out.append((h + rng.choice([0.25, 0.5, 0.75, 0.1, 0.2, 0.9, 1 / 3.0, 2 / 3.0]), 0.0))
            c('hour-fraction')
        elif r < 0.60:
            out.append((rng.uniform(0, 24), 0.0))
            c('hour-uniform')
        elif r < 0.75:
            out.append((float(h), m + rng.uniform(-0.499, 0.499) if m else rng.uniform(0, 0.499)))
            c('minute-fraction')
        elif r < 0.85:          # either side of the half-minute tie
            out.append((float(h), m + 0.5 + rng.choice([-1, 1]) * rng.choice([1e-4, 1e-3, 0.01])))
            c('minute-near-tie')
        elif r < 0.90:
            out.append((float(h), m + 0.5))
            c('minute-exact-tie')
        elif r < 0.95:
            out.append(rng.choice([(0.0, 1e-12), (1e-12, 0.0), (0.0, 0.0), (23.0, 59.0), (23.999, 0.0),
                                   (0.008, 0.0), (0.0084, 0.0), (5e-324, 0.0)]))
            c('tiny-or-edge')
        else:                   # both fractional
            out.append((h + rng.choice([0.25, 0.5]), rng.choice([0.5, 7.25, 14.75, 29.9])))
            c('hour-and-minute-fraction')
    return out


def _frac_offsets(rng, moy, n):
    """A fractional offset (in minutes) whose exact sum stays clear of both ends of the year."""
    lo, hi = -(moy - 2), (n - 3 - moy)
    whole = rng.randrange(lo, hi + 1) if lo <= hi else 0
    if rng.random() < 0.3:
        whole = rng.choice([0, 1, -1, 59, -59, 60, -60, 90, -90, 1439, -1440])
        if not lo <= whole <= hi:
            whole = 0
    frac = rng.choice([0.5, 0.25, 0.75, 0.6, 0.01, 0.99, 1e-9, 1 - 1e-9, rng.random()])
    k = whole + (frac if whole >= 0 else -frac)
    if whole == 0 and rng.random() < 0.5:
        k = -frac
    return k


_DT_LINES = {}


def _dt_executable_lines(path):
    """Line numbers of dt.py that carry code (from the compiled code objects)."""
    if path not in _DT_LINES:
        with open(path, encoding='utf-8') as f:
            top = compile(f.read(), path, 'exec')
        lines = set()
        stack = [top]
        while stack:
            co = stack.pop()
            if co is not top:
                for _, _, ln in co.co_lines():
                    if ln is not None and ln != co.co_firstlineno:
                        lines.add(ln)
            for k in co.co_consts:
                if isinstance(k, types.CodeType):
                    stack.append(k)
        _DT_LINES[path] = lines
    return _DT_LINES[path]


def _branch_coverage(ctx, pool):
    """Which lines of dt.py the generated cases execute (sys.settrace on a slice of the stream):
    every branch of the anchored functions must be reached by some case; the lines that no case
    reaches are listed in the evidence (`branch:unreached:<line>`)."""
    import ladybug.dt as real
    path = real.__file__
    if path.endswith('.pyc'):
        path = path[:-1]
    want = _dt_executable_lines(path)
    seen = set()

    def tracer(frame, event, arg):
        if frame.f_code.co_filename != path:
            return None
        if event == 'line':
            seen.add(frame.f_lineno)
        return tracer

    old = sys.gettrace()
    sys.settrace(tracer)
    try:
        for op, inp in pool:
            try:
                check_case(op, inp)
            except Exception:
                pass
    finally:
        sys.settrace(old)
    missed = sorted(want - seen)
    ctx.count('branch:lines-with-code', len(want))
    ctx.count('branch:lines-reached', len(want & seen))
    for ln in missed[:40]:
        ctx.count('branch:unreached:line-%d' % ln)
    return missed


def correspondence(ctx):
    from ladybug.dt import DateTime, Date, Time
    rng = ctx.rng

    # --- from_moy
    cases = []
    for leap in (False, True):
        for m in _boundary_moys(leap):
            cases.append((leap, m))
        if ctx.quick:
            for _ in range(10000):
                cases.append((leap, rng.randrange(_year_minutes(leap))))
        else:
            for m in range(-1500, _year_minutes(leap) + 1500):
                cases.append((leap, m))
    compare_batch(ctx, 'from_moy', cases, lambda c: 'from_moy %s %d' % (_b(c[0]), c[1]),
                  lambda c: _show_dt(DateTime.from_moy(c[1], c[0])))

    # --- from_hoy on float hours (the driver forms the IEEE product hoy * 60 itself)
    cases = []
    for leap in (False, True):
        ms = [rng.randrange(_year_minutes(leap)) for _ in range(ctx.n(3000, 60000))]
        ms += [m for m in _boundary_moys(leap) if 0 <= m < _year_minutes(leap)]
        for m in ms:
            base = m / 60.0
            for eps in (0.0, 1e-9, -1e-9, 0.5 / 60, -0.5 / 60, 0.49 / 60, 1e-13):
                h = base + eps
                if 0 <= h:
                    cases.append((leap, h))
            cases.append((leap, rng.random() * (_year_minutes(leap) / 60.0)))
    compare_batch(ctx, 'from_hoy', cases, lambda c: 'from_hoy %s %s' % (_b(c[0]), _fbits(c[1])),
                  lambda c: _show_dt(DateTime.from_hoy(c[1], c[0])), key=lambda c: (c[0], repr(c[1])))

    # --- from_doy
    cases = [(leap, k) for leap in (False, True) for k in range(-3, 370)]
    compare_batch(ctx, 'from_doy', cases, lambda c: 'from_doy %s %d' % (_b(c[0]), c[1]),
                  lambda c: _show_d(Date.from_doy(c[1], c[0])))

    # --- constructor normalisation: all (hour, minute) pairs incl. carries and rejections
    cases = [(h, m) for h in range(0, 31) for m in range(0, 201)]
    compare_batch(ctx, 'norm_hm', cases, lambda c: 'norm_hm %d %d' % c,
                  lambda c: 'ok %d %d' % Time._calculate_hour_and_minute(c[0] + c[1] / 60.0))
    compare_batch(ctx, 'time_make', cases, lambda c: 'time_make %d %d' % c,
                  lambda c: _show_t(Time(c[0], c[1])))
    cases = [m for m in range(0, 1500)]
    compare_batch(ctx, 'from_mod', cases, lambda c: 'from_mod %d' % c, lambda c: _show_t(Time.from_mod(c)))
    cases = []
    for leap in (False, True):
        for mo in range(0, 14):
            for da in (0, 1, 28, 29, 30, 31, 32):
                for h, mi in ((0, 0), (23, 59), (23, 60), (24, 0), (5, 61), (12, 30)):
                    cases.append((leap, mo, da, h, mi))
    compare_batch(ctx, 'make', cases, lambda c: 'make %s %d %d %d %d' % ((_b(c[0]),) + tuple(c[1:])),
                  lambda c: _show_dt(DateTime(c[1], c[2], c[3], c[4], c[0])))
    cases = [(leap, mo, da) for leap in (False, True) for mo in range(-1, 14) for da in range(-1, 33)]
    compare_batch(ctx, 'date_make', cases, lambda c: 'date_make %s %d %d' % (_b(c[0]), c[1], c[2]),
                  lambda c: _show_d(Date(c[1], c[2], c[0])))

    # --- offsets
    cases = []
    for _ in range(ctx.n(3000, 60000)):
        d = _rand_dt(rng)
        n = _year_minutes(d.leap_year)
        r = rng.random()
        if r < 0.6:
            k = rng.randrange(-d.moy, n - d.moy)          # stays inside the year
        elif r < 0.8:
            k = rng.choice([-d.moy - 1, n - d.moy, -d.moy, n - d.moy - 1])   # edges
        else:
            k = rng.randrange(-2 * n, 2 * n)
        cases.append((d.leap_year, d.month, d.day, d.hour, d.minute, k))
    fmt = '%s %s %d %d %d %d %d'
    cases_off = cases
    compare_batch(ctx, 'add_minute', cases, lambda c: fmt % (('add_minute', _b(c[0])) + tuple(c[1:])),
                  lambda c: _show_dt(DateTime(c[1], c[2], c[3], c[4], c[0]).add_minute(c[5])))
    compare_batch(ctx, 'sub_minute', cases, lambda c: fmt % (('sub_minute', _b(c[0])) + tuple(c[1:])),
                  lambda c: _show_dt(DateTime(c[1], c[2], c[3], c[4], c[0]).sub_minute(c[5])))
    hcases = []
    for c in cases[:len(cases) // 2]:
        h = rng.choice([c[5] / 60.0, round(c[5] / 60.0), c[5] / 60.0 + 0.004, rng.uniform(-30, 30)])
        hcases.append(c[:5] + (float(h),))
    hfmt = '%s %s %d %d %d %d %s'
    compare_batch(ctx, 'add_hour', hcases,
                  lambda c: hfmt % (('add_hour', _b(c[0])) + tuple(c[1:5]) + (_fbits(c[5]),)),
                  lambda c: _show_dt(DateTime(c[1], c[2], c[3], c[4], c[0]).add_hour(c[5])),
                  key=lambda c: (c[:5], repr(c[5])))
    compare_batch(ctx, 'sub_hour', hcases,
                  lambda c: hfmt % (('sub_hour', _b(c[0])) + tuple(c[1:5]) + (_fbits(c[5]),)),
                  lambda c: _show_dt(DateTime(c[1], c[2], c[3], c[4], c[0]).sub_hour(c[5])),
                  key=lambda c: (c[:5], repr(c[5])))

    # --- serial forms
    dts = [_rand_dt(rng) for _ in range(ctx.n(1500, 20000))]
    cs = [(d.leap_year, d.month, d.day, d.hour, d.minute) for d in dts]
    f5 = '%s %s %d %d %d %d'

    def mk(c):
        return DateTime(c[1], c[2], c[3], c[4], c[0])

    compare_batch(ctx, 'to_array', cs, lambda c: f5 % (('to_array', _b(c[0])) + tuple(c[1:])),
                  lambda c: 'ok ' + ' '.join(str(int(x)) for x in mk(c).to_array()))
    compare_batch(ctx, 'from_array', cs,
                  lambda c: 'from_array ' + ' '.join(str(int(x)) for x in mk(c).to_array()),
                  lambda c: _show_dt(DateTime.from_array(mk(c).to_array())))

    def show_kv(dct):
        order = ['month', 'day', 'hour', 'minute', 'leap_year']
        return 'ok ' + ' '.join('%s=%d' % (k, int(dct[k])) for k in order if k in dct)

    compare_batch(ctx, 'to_dict', cs, lambda c: f5 % (('to_dict', _b(c[0])) + tuple(c[1:])),
                  lambda c: show_kv(mk(c).to_dict()))
    # from_dict with shuffled keys and dropped optional keys
    dcases = []
    for c in cs:
        d = mk(c).to_dict()
        d.pop('type')
        keys = list(d.keys())
        rng.shuffle(keys)
        if rng.random() < 0.3:
            keys = [k for k in keys if rng.random() < 0.7]
        dcases.append([(k, int(d[k])) for k in keys])
    compare_batch(ctx, 'from_dict', dcases,
                  lambda c: 'from_dict ' + ' '.join('%s=%d' % kv for kv in c),
                  lambda c: _show_dt(DateTime.from_dict({k: (bool(v) if k == 'leap_year' else v) for k, v in c})),
                  key=lambda c: tuple(c))
    compare_batch(ctx, 'reduce', cs, lambda c: f5 % (('reduce', _b(c[0])) + tuple(c[1:])),
                  lambda c: _show_dt(pickle.loads(pickle.dumps(mk(c)))))
    compare_batch(ctx, 'str', cs, lambda c: f5 % (('str', _b(c[0])) + tuple(c[1:])),
                  lambda c: 'ok ' + str(mk(c)))
    pcases = [(c[0], str(mk(c))) for c in cs] + [(not c[0], str(mk(c))) for c in cs[:300]]
    pcases += [(l, s) for l in (False, True) for s in
               ('29 Feb 03:05', '30 Feb 00:00', '31 Apr 10:10', '00 Jan 00:00', '01 Foo 00:00', '01 Jan 24:00',
                '01 Jan 23:60', '31 Dec 23:59', '1 Jan 0:0')]
    compare_batch(ctx, 'parse', pcases, lambda c: 'parse %s %s' % (_b(c[0]), c[1]),
                  lambda c: _show_dt(DateTime.from_date_time_string(c[1], c[0])))
    dcs = sorted(set((c[0], c[1], c[2]) for c in cs))
    compare_batch(ctx, 'date_to_array', dcs, lambda c: 'date_to_array %s %d %d' % (_b(c[0]), c[1], c[2]),
                  lambda c: 'ok ' + ' '.join(str(int(x)) for x in Date(c[1], c[2], c[0]).to_array()))
    compare_batch(ctx, 'date_from_array', dcs,
                  lambda c: 'date_from_array ' + ' '.join(str(int(x)) for x in Date(c[1], c[2], c[0]).to_array()),
                  lambda c: _show_d(Date.from_array(Date(c[1], c[2], c[0]).to_array())))
    compare_batch(ctx, 'date_reduce', dcs, lambda c: 'date_reduce %s %d %d' % (_b(c[0]), c[1], c[2]),
                  lambda c: _show_d(copy.deepcopy(Date(c[1], c[2], c[0]))))

    # --- from_moy on float arguments (`int(moy)` truncates; from_hoy and add_hour rely on it)
    cases = []
    for leap in (False, True):
        ms = [m for m in _boundary_moys(leap) if -1 <= m <= _year_minutes(leap)]
        ms += [rng.randrange(_year_minutes(leap)) for _ in range(ctx.n(300, 5000))]
        for m in ms:
            for f in (0.0, 0.25, 0.5, 0.75, 0.9999, -0.25):
                cases.append((leap, float(m) + f))
    compare_batch(ctx, 'from_moy_f', cases, lambda c: 'from_moy_f %s %s' % (_b(c[0]), _fbits(c[1])),
                  lambda c: _show_dt(DateTime.from_moy(c[1], c[0])), key=lambda c: (c[0], repr(c[1])))

    # --- round 4: fractional constructor arguments: both branches of _calculate_hour_and_minute
    fr = _frac_hm_cases(rng, ctx.n(3000, 60000), ctx.count)
    fr += [(float(h), m + f) for h in (0, 11, 22, 23) for m in (0, 29, 58, 59) for f in (0.0, 0.25, 0.5, 0.75)]
    fr += [(h + q, 0.0) for h in range(25) for q in (0.0, 0.25, 0.5, 0.75, 0.99, 0.9999, 0.99999999)]
    fr += [(-0.5, 0.0), (0.0, -1.0), (-1.0, 30.0), (24.0, 0.0), (23.0, 60.0), (1e15, 0.0), (100.25, 0.0)]
    compare_batch(ctx, 'calc_hm', [h + m / 60.0 for h, m in fr], lambda c: 'calc_hm ' + _fbits(c),
                  lambda c: 'ok %d %d' % Time._calculate_hour_and_minute(c), key=repr)
    mf = []
    for h, m in fr:
        leap = rng.random() < 0.5
        mo, da = rng.choice([(1, 1), (2, 28), (2, 29), (3, 1), (6, 21), (12, 31), (rng.randrange(1, 13), rng.randrange(1, 29))])
        mf.append((leap, mo, da, h, m))
    compare_batch(ctx, 'make_f', mf,
                  lambda c: 'make_f %s %d %d %s %s' % (_b(c[0]), c[1], c[2], _fbits(c[3]), _fbits(c[4])),
                  lambda c: _show_dt(DateTime(c[1], c[2], c[3], c[4], c[0])), key=repr)
    compare_batch(ctx, 'time_make_f', fr, lambda c: 'time_make_f %s %s' % (_fbits(c[0]), _fbits(c[1])),
                  lambda c: _show_t(Time(c[0], c[1])), key=repr)

    # --- round 4: minute offsets that are not whole numbers (`int()` truncates toward zero)
    fo = []
    for c in cases_off[:len(cases_off) // 2]:
        n = _year_minutes(c[0])
        m0 = _moy_of(c[0], c[1], c[2], c[3], c[4])
        k = _frac_offsets(rng, m0, n) if rng.random() < 0.8 else rng.choice(
            [-m0 - 0.5, -m0 - 0.999, n - m0 - 0.5, n - m0 - 1 + 0.999, -m0 - 1.0, float(n - m0), 0.5, -0.5, 1e-12, -1e-12])
        fo.append(c[:5] + (float(k),))
    compare_batch(ctx, 'add_minute_f', fo,
                  lambda c: hfmt % (('add_minute_f', _b(c[0])) + tuple(c[1:5]) + (_fbits(c[5]),)),
                  lambda c: _show_dt(DateTime(c[1], c[2], c[3], c[4], c[0]).add_minute(c[5])),
                  key=lambda c: (c[:5], repr(c[5])))
    compare_batch(ctx, 'sub_minute_f', fo,
                  lambda c: hfmt % (('sub_minute_f', _b(c[0])) + tuple(c[1:5]) + (_fbits(c[5]),)),
                  lambda c: _show_dt(DateTime(c[1], c[2], c[3], c[4], c[0]).sub_minute(c[5])),
                  key=lambda c: (c[:5], repr(c[5])))

    # --- round 4: the sibling classes' own serial forms, and every container shape of an array
    compare_batch(ctx, 'date_to_dict', dcs, lambda c: 'date_to_dict %s %d %d' % (_b(c[0]), c[1], c[2]),
                  lambda c: show_kv(Date(c[1], c[2], c[0]).to_dict()))
    ddc = []
    for c in dcs:
        kv = [('month', c[1]), ('day', c[2])] + ([('leap_year', 1)] if c[0] else [])
        rng.shuffle(kv)
        if rng.random() < 0.25:
            kv = [x for x in kv if rng.random() < 0.6]
        ddc.append(kv)
    compare_batch(ctx, 'date_from_dict', ddc, lambda c: 'date_from_dict ' + ' '.join('%s=%d' % kv for kv in c),
                  lambda c: _show_d(Date.from_dict({k: (bool(v) if k == 'leap_year' else v) for k, v in c})),
                  key=lambda c: tuple(c))
    tcs = sorted(set((c[3], c[4]) for c in cs))
    tdc = []
    for h, mi in tcs:
        kv = [('hour', h), ('minute', mi)]
        rng.shuffle(kv)
        if rng.random() < 0.25:
            kv = [x for x in kv if rng.random() < 0.6]
        tdc.append(kv)
    compare_batch(ctx, 'time_from_dict', tdc, lambda c: 'time_from_dict ' + ' '.join('%s=%d' % kv for kv in c),
                  lambda c: _show_t(Time.from_dict(dict(c))), key=lambda c: tuple(c))
    compare_batch(ctx, 'time_from_array', tcs, lambda c: 'time_from_array %d %d' % c,
                  lambda c: _show_t(Time.from_array(_in_shape(rng.choice(_SHAPES), c))))
    shaped = [(rng.choice(_SHAPES), c) for c in cs]
    for sh, _ in shaped:
        ctx.count('shape:' + sh)

    def arr(c):                       # hand-built in the documented layout, not through to_array
        return [c[1], c[2], c[3], c[4]] + ([1] if c[0] else ([0] if c[4] % 3 == 0 else []))

    compare_batch(ctx, 'from_array', shaped,
                  lambda sc: 'from_array ' + ' '.join(str(x) for x in arr(sc[1])),
                  lambda sc: _show_dt(DateTime.from_array(_in_shape(sc[0], arr(sc[1])))),
                  key=lambda sc: (sc[0],) + tuple(sc[1]))
    compare_batch(ctx, 'date_from_array', [(rng.choice(_SHAPES), c) for c in dcs],
                  lambda sc: 'date_from_array %d %d%s' % (sc[1][1], sc[1][2], ' 1' if sc[1][0] else ''),
                  lambda sc: _show_d(Date.from_array(_in_shape(sc[0], [sc[1][1], sc[1][2]] + ([1] if sc[1][0] else [])))),
                  key=lambda sc: (sc[0],) + tuple(sc[1]))

    # --- histories: one date-time variable, one module instance / one process, step by step
    hs = [_gen_history(rng, rng.randrange(6, 40), wild=True, count=ctx.count)
          for _ in range(ctx.n(500, 8000))]
    lines = ['hist ' + ' '.join(_op_token(o) for o in ops) for ops in hs]
    outs = ctx.driver().run(lines)
    real = _real_dt()
    for ops, mo in zip(hs, outs):
        msteps = mo.split(' | ')
        for where in ('instance', 'process'):
            if where == 'instance':
                with _FreshDt() as mod:
                    io = _run_history_impl(mod, ops)
            else:
                io = _run_history_impl(real, ops)       # state of the whole run so far behind it
            ctx.compared += len(ops)
            ctx.count('op:history-steps', len(ops))
            ctx.case(('history', where, lines[0] if False else json.dumps(ops)),
                     nontrivial=any(x[0] == 'ok' for x in io))
            bad = None
            if len(msteps) != len(io):
                bad = 0
            else:
                for i, (m1, i1) in enumerate(zip(msteps, io)):
                    if not _model_step_eq(m1, i1):
                        bad = i
                        break
            if bad is not None:
                ctx.disagree('history', {'ops': ops[:bad + 1], 'where': where, 'step': bad},
                             msteps[bad] if bad < len(msteps) else mo, repr(io[bad]))
    if hs:
        ctx.sample({'op': 'history', 'request': lines[0][:300], 'model': outs[0][:300]})

    # --- Py.lean helpers vs CPython (rationals are exact on both sides)
    rc = []
    for _ in range(ctx.n(3000, 100000)):
        den = rng.choice([1, 2, 3, 4, 5, 8, 10, 60, 100, 1000, rng.randrange(1, 10 ** 6)])
        num = rng.randrange(-10 ** 7, 10 ** 7)
        if rng.random() < 0.3:
            num = (2 * rng.randrange(-500, 500) + 1) * den // 2 if den % 2 == 0 else num   # ties
        rc.append((num, den))

    def py_round(c):
        return 'ok %d' % round(Fraction(c[0], c[1]))

    def py_trunc(c):
        return 'ok %d' % int(Fraction(c[0], c[1]))

    compare_batch(ctx, 'py_round', rc, lambda c: 'py_round %d/%d' % c, py_round)
    compare_batch(ctx, 'py_trunc', rc, lambda c: 'py_trunc %d/%d' % c, py_trunc)
    ic = [(rng.randrange(-10 ** 6, 10 ** 6), rng.choice([-7, -3, -1, 1, 2, 24, 60, 1440, rng.randrange(1, 5000)]))
          for _ in range(ctx.n(3000, 100000))]
    compare_batch(ctx, 'py_floordiv', ic, lambda c: 'py_floordiv %d %d' % c, lambda c: 'ok %d' % (c[0] // c[1]))
    compare_batch(ctx, 'py_mod', ic, lambda c: 'py_mod %d %d' % c, lambda c: 'ok %d' % (c[0] % c[1]))
    fc = [rng.uniform(-1e6, 1e6) for _ in range(ctx.n(2000, 50000))] + [0.1, 0.5, 1e-300, 5e-324, 2.0 ** 60, -0.0]

    def show_rat(x):
        fr = Fraction(x)
        return 'ok %d' % fr.numerator if fr.denominator == 1 else 'ok %d/%d' % (fr.numerator, fr.denominator)

    compare_batch(ctx, 'py_float', fc, lambda c: 'py_float ' + _fbits(c), show_rat, key=repr)

    # float hour normalisation is modelled as exact: round-trip hoy of the model vs float hoy
    hc = cs[:500]
    outs = ctx.driver().run([f5 % (('hoy', _b(c[0])) + tuple(c[1:])) for c in hc])
    for c, o in zip(hc, outs):
        ctx.compared += 1
        want = Fraction(o[3:]) if o.startswith('ok ') else None
        got = mk(c).hoy
        if want is None or abs(float(want) - got) > 1e-9:
            ctx.disagree('hoy', list(c), o, repr(got))


# ---------------------------------------------------------------------------------------------
# property oracle: the statement of C08 evaluated on the real classes, independent of the model


def _ref(leap, moy):
    year = 2016 if leap else 2017
    return datetime(year, 1, 1) + timedelta(minutes=moy)


_MON = ('Jan', 'Feb', 'Mar', 'Apr', 'May', 'Jun', 'Jul', 'Aug', 'Sep', 'Oct', 'Nov', 'Dec')
_SUBS = {}


def _subclasses(mod):
    """Trivial user subclasses of the three classes (dt.py builds results with cls / self.__class__)."""
    key = id(mod)
    if key not in _SUBS:
        _SUBS[key] = tuple(type('Sub' + c.__name__, (c,), {'__slots__': ()})
                           for c in (mod.DateTime, mod.Date, mod.Time))
    return _SUBS[key]


def _check_siblings(m, leap, sig):
    """DateTime, its Date and Time parts, the sibling constructors and user subclasses describe the
    same instant (kind e: an operation changed in one class / one entry point only)."""
    mod = _real_dt()
    DateTime, Date, Time = mod.DateTime, mod.Date, mod.Time
    r = _ref(leap, m)
    n = _year_minutes(leap)
    k, md = m // 1440 + 1, m % 1440
    want = (r.month, r.day, r.hour, r.minute, leap, k, m // 60, m)

    def bad(what, w, g):
        return {'required': w, 'observed': g, 'sig': dict(sig, what=what)}

    step = 'from_moy'
    try:
        d = DateTime.from_moy(m, leap)
        step = 'date/time'
        da, t = d.date, d.time
        if (da.month, da.day, da.leap_year, da.doy) != (r.month, r.day, leap, k) or type(da) is not Date:
            return bad('date', (r.month, r.day, leap, k), (da.month, da.day, da.leap_year, da.doy))
        if (t.hour, t.minute, t.mod) != (r.hour, r.minute, md) or type(t) is not Time:
            return bad('time', (r.hour, r.minute, md), (t.hour, t.minute, t.mod))
        if abs(d.float_hour - md / 60.0) > 1e-9 or abs(t.float_hour - md / 60.0) > 1e-9:
            return bad('float_hour', md / 60.0, (d.float_hour, t.float_hour))
        step = 'sibling constructors'
        builders = {
            'constructor': lambda: DateTime(r.month, r.day, r.hour, r.minute, leap),
            'from_hoy': lambda: DateTime.from_hoy(m / 60.0, leap),
            'from_doy+from_mod': lambda: DateTime.from_date_and_time(Date.from_doy(k, leap), Time.from_mod(md)),
            'date+time': lambda: DateTime.from_date_and_time(Date(r.month, r.day, leap), Time(r.hour, r.minute)),
            'add_from_first_hour': lambda: DateTime.from_first_hour(leap).add_minute(m),
            'sub_from_last_hour': lambda: DateTime.from_last_hour(leap).sub_minute(n - 60 - m),
            'add_hour_from_midnight': lambda: DateTime(r.month, r.day, 0, 0, leap).add_hour(md / 60.0)
            if md % 15 == 0 else d,
        }
        for name, f in builders.items():
            step = name
            e = f()
            if _obs(e) != want or e != d or hash(e) != hash(d):
                return bad(name, want, _obs(e))
        step = 'first/last hour'
        fh, lh = DateTime.from_first_hour(leap), DateTime.from_last_hour(leap)
        if (fh.moy, fh.leap_year, lh.moy, lh.leap_year) != (0, leap, n - 60, leap):
            return bad('first_last_hour', (0, leap, n - 60, leap), (fh.moy, fh.leap_year, lh.moy, lh.leap_year))
        step = 'from_doy/from_mod'
        if Date.from_doy(k, leap) != da or Time.from_mod(md) != t:
            return bad('parts', (str(da), str(t)), (str(Date.from_doy(k, leap)), str(Time.from_mod(md))))
        step = 'text'
        for o in (d, da, t):
            if not (str(o) == repr(o) == o.ToString()):
                return bad('str_repr', str(o), (repr(o), o.ToString()))
        if str(d) != str(da) + ' ' + str(t):
            return bad('str_parts', str(da) + ' ' + str(t), str(d))
        for sep in ('_', ' ', '-', '/'):
            tok = d.to_simple_string(sep).split(sep)
            e = DateTime.from_date_time_string('%s %s %s:%s' % tuple(tok), leap) if len(tok) == 4 else None
            if e is None or e != d or e.leap_year != leap:
                return bad('simple_string', str(d), d.to_simple_string(sep))
        step = 'subclasses'
        SDT, SD, ST = _subclasses(mod)
        s = SDT.from_moy(m, leap)
        k1 = 1 if m + 1 < n else -1
        trips = {
            'from_moy': s, 'constructor': SDT(r.month, r.day, r.hour, r.minute, leap),
            'from_hoy': SDT.from_hoy(m / 60.0, leap), 'array': SDT.from_array(s.to_array()),
            'dict': SDT.from_dict(s.to_dict()), 'copy': copy.copy(s), 'deepcopy': copy.deepcopy(s),
            'text': SDT.from_date_time_string(str(s), leap), 'add_sub': s.add_minute(k1).sub_minute(k1),
            'add_sub_hour': s.add_hour(k1 / 4.0).sub_hour(k1 / 4.0) if 15 <= m < n - 15 else s,
            'date+time': SDT.from_date_and_time(SD.from_doy(k, leap), ST.from_mod(md)),
        }
        for name, e in trips.items():
            if _obs(e) != want or e != d:
                return bad('subclass:' + name, want, _obs(e))
        sd, st = SD.from_doy(k, leap), ST.from_mod(md)
        for name, e, ref in (('Date.array', SD.from_array(sd.to_array()), da), ('Date.dict', SD.from_dict(sd.to_dict()), da),
                             ('Date.copy', copy.copy(sd), da), ('Date.text', SD.from_date_string(str(sd), leap), da),
                             ('Time.array', ST.from_array(st.to_array()), t), ('Time.dict', ST.from_dict(st.to_dict()), t),
                             ('Time.copy', copy.copy(st), t), ('Time.text', ST.from_time_string(str(st)), t)):
            if e != ref or getattr(e, 'leap_year', None) != getattr(ref, 'leap_year', None):
                return bad('subclass:' + name, str(ref), str(e))
    except Exception as e:
        return bad('raises:' + step.split(':')[0], want, 'raises %s: %s' % (type(e).__name__, str(e)[:80]))
    return None


def _canon(x):
    return json.dumps(x, sort_keys=True, default=str)


def _check_alias(m1, l1, m2, l2, sig):
    """Results of one call are not shared with another call, another object or the caller's later
    edits; arguments are left as they were and may come in any container / mapping type (kind f)."""
    import collections
    mod = _real_dt()
    x, y = mod.DateTime.from_moy(m1, l1), mod.DateTime.from_moy(m2, l2)
    sig = dict(sig, leap2=l2)

    def bad(what, cname, w, g):
        return {'required': w, 'observed': g, 'sig': dict(sig, what=what, cls=cname)}

    for cname, a, b in (('DateTime', x, y), ('Date', x.date, y.date), ('Time', x.time, y.time)):
        cls = type(a)
        lp = getattr(a, 'leap_year', None)
        try:
            # -- to_dict
            d1 = a.to_dict()
            snap = _canon(d1)
            d2 = b.to_dict()
            if d1 is d2 or _canon(d1) != snap:
                return bad('to_dict:shared-between-objects', cname, snap, _canon(d1))
            want_b = _canon(d2)
            for key in list(d2):
                d2[key] = 7
            d2['leap_year'] = True
            d2['junk'] = [1]
            d3 = a.to_dict()
            if _canon(d3) != snap or _canon(d1) != snap:
                return bad('to_dict:caller-edit-leaks', cname, snap, _canon(d3))
            if _canon(b.to_dict()) != want_b:
                return bad('to_dict:caller-edit-leaks', cname, want_b, _canon(b.to_dict()))
            d1.clear()
            e = cls.from_dict(a.to_dict())
            if e != a or getattr(e, 'leap_year', None) != lp:
                return bad('to_dict:after-clear', cname, str(a), str(e))
            # -- from_dict: any mapping type, any key order, extra keys; the argument is left alone
            base = json.loads(snap)
            items = list(base.items())
            maps = {
                'reversed-insertion': dict(reversed(items)),
                'rotated-insertion': dict(items[2:] + items[:2]),
                'ordered-dict': collections.OrderedDict(sorted(items, reverse=True)),
                'mapping-proxy': types.MappingProxyType(dict(items)),
                'chain-map': collections.ChainMap({}, dict(items)),
                'extra-keys': dict([('zzz', 1)] + items + [('year', 1999), ('second', 30)]),
            }
            for mname, mp in maps.items():
                before = _canon(dict(mp))
                e = cls.from_dict(mp)
                if e != a or getattr(e, 'leap_year', None) != lp:
                    return bad('from_dict:' + mname, cname, str(a), str(e))
                if _canon(dict(mp)) != before:
                    return bad('from_dict:argument-modified', cname, before, _canon(dict(mp)))
            # -- to_array / from_array
            a1 = a.to_array()
            snap_a = tuple(a1)
            b1 = b.to_array()
            want_b1 = tuple(b1)
            if isinstance(b1, list):
                b1[:] = [9] * len(b1)
            if isinstance(a1, list):
                a1.append(1)
            if tuple(a.to_array()) != snap_a or tuple(b.to_array()) != want_b1:
                return bad('to_array:shared', cname, snap_a, tuple(a.to_array()))
            for shape in _SHAPES:
                e = cls.from_array(_in_shape(shape, snap_a))
                if e != a or getattr(e, 'leap_year', None) != lp:
                    return bad('from_array:' + shape, cname, str(a), str(e))
            lst = list(snap_a)
            cls.from_array(lst)
            if lst != list(snap_a):
                return bad('from_array:argument-modified', cname, list(snap_a), lst)
            e = cls.from_array(json.loads(json.dumps(a.to_array())))
            if e != a or getattr(e, 'leap_year', None) != lp:
                return bad('from_array:json', cname, str(a), str(e))
            # -- __reduce_ex__ (what pickle / copy call)
            r1 = a.__reduce_ex__(2)
            snap_r = (r1[0], tuple(r1[1]))
            b.__reduce_ex__(2)
            copy.copy(b)
            if (r1[0], tuple(r1[1])) != snap_r:
                return bad('reduce:shared', cname, str(snap_r), str(r1))
            e = r1[0](*r1[1])
            if e != a or type(e) is not cls or getattr(e, 'leap_year', None) != lp:
                return bad('reduce:rebuild', cname, str(a), str(e))
            # -- text
            s1 = str(a)
            str(b)
            b.to_dict()
            if str(a) != s1:
                return bad('str:changes', cname, s1, str(a))
        except Exception as e:
            return bad('raises', cname, str(a), 'raises %s: %s' % (type(e).__name__, str(e)[:80]))
    # reads of the first object after the second was built and used
    ox = _obs(x)
    y.add_minute(0)
    _obs(y)
    if _obs(x) != ox or _obs(mod.DateTime.from_moy(m1, l1)) != ox:
        return bad('reads:second-object', 'DateTime', ox, _obs(x))
    return None


def _check_shape(m, leap, sig):
    """The same numbers given in the other forms an entry point accepts: whole floats for integers,
    integers for floats, text with one- and two-digit fields, flags as bool / 0 / 1, defaults omitted,
    arrays as JSON lists (kind i)."""
    mod = _real_dt()
    DateTime, Date, Time = mod.DateTime, mod.Date, mod.Time
    r = _ref(leap, m)
    n = _year_minutes(leap)
    k, md = m // 1440 + 1, m % 1440
    want = (r.month, r.day, r.hour, r.minute, leap, k, m // 60, m)
    mon = _MON[r.month - 1]

    def bad(what, w, g):
        return {'required': w, 'observed': g, 'sig': dict(sig, what=what)}

    forms = [
        ('from_moy:float', lambda: DateTime.from_moy(float(m), leap)),
        ('from_hoy:float', lambda: DateTime.from_hoy(m / 60.0, leap)),
        ('from_doy:float', lambda: DateTime.from_date_and_time(Date.from_doy(float(k), leap), Time(r.hour, r.minute))),
        ('add_minute:float', lambda: DateTime(1, 1, 0, 0, leap).add_minute(float(m))),
        ('sub_minute:float', lambda: DateTime(12, 31, 23, 59, leap).sub_minute(float(n - 1 - m))),
        ('from_mod:float', lambda: DateTime.from_date_and_time(Date(r.month, r.day, leap), Time.from_mod(float(md)))),
        ('constructor:float', lambda: DateTime(r.month, r.day, float(r.hour), float(r.minute), leap)),
        ('constructor:float-hour-only', lambda: DateTime(r.month, r.day, md / 60.0, 0, leap)),
        ('time:float-hour-only', lambda: DateTime.from_date_and_time(Date(r.month, r.day, leap), Time(md / 60.0))),
        ('constructor:keywords', lambda: DateTime(minute=r.minute, hour=r.hour, leap_year=leap, day=r.day, month=r.month)),
        ('leap-flag:int', lambda: DateTime(r.month, r.day, r.hour, r.minute, int(leap))),
        ('from_moy:leap-flag-int', lambda: DateTime.from_moy(m, int(leap))),
        ('from_array:leap-flag-bool', lambda: DateTime.from_array([r.month, r.day, r.hour, r.minute, leap])),
        ('from_array:leap-flag-int', lambda: DateTime.from_array((r.month, r.day, r.hour, r.minute, int(leap)))),
        ('from_dict:leap-flag-int', lambda: DateTime.from_dict({'leap_year': int(leap), 'minute': r.minute,
                                                               'hour': r.hour, 'day': r.day, 'month': r.month})),
        ('from_dict:defaults-omitted', lambda: DateTime.from_dict(dict(
            [(key, v) for key, v, dflt in (('minute', r.minute, 0), ('month', r.month, 1), ('leap_year', leap, False),
                                          ('hour', r.hour, 0), ('day', r.day, 1)) if v != dflt]))),
    ]
    forms.append(('from_dict:parts-defaults-omitted', lambda: DateTime.from_date_and_time(
        Date.from_dict(dict([(key, v) for key, v, dflt in (('leap_year', leap, False), ('day', r.day, 1),
                                                           ('month', r.month, 1)) if v != dflt])),
        Time.from_dict(dict([(key, v) for key, v in (('minute', r.minute), ('hour', r.hour)) if v != 0])))))
    forms.append(('from_dict:parts-flag-int', lambda: DateTime.from_date_and_time(
        Date.from_dict({'day': r.day, 'leap_year': int(leap), 'month': r.month, 'type': 'Date'}),
        Time.from_dict({'type': 'Time', 'minute': r.minute, 'hour': r.hour}))))
    forms.append(('from_array:parts', lambda: DateTime.from_date_and_time(
        Date.from_array([r.month, r.day] + ([True] if leap else [])), Time.from_array([r.hour, r.minute]))))
    if m % 60 == 0:
        forms.append(('from_hoy:int', lambda: DateTime.from_hoy(m // 60, leap)))
        forms.append(('add_hour:int', lambda: DateTime(1, 1, 0, 0, leap).add_hour(m // 60)))
    for fmt in ('%02d %s %02d:%02d', '%d %s %d:%d', '%d %s %02d:%02d', '%02d %s %d:%02d', '%02d %s %02d:%d'):
        txt = fmt % (r.day, mon, r.hour, r.minute)
        forms.append(('text:' + fmt, lambda txt=txt: DateTime.from_date_time_string(txt, leap)))
    for fmt in ('%02d %s', '%d %s'):
        for tf in ('%02d:%02d', '%d:%d', '%02d:%d', '%d:%02d'):
            forms.append(('text-parts:%s+%s' % (fmt, tf), lambda fmt=fmt, tf=tf: DateTime.from_date_and_time(
                Date.from_date_string(fmt % (r.day, mon), leap), Time.from_time_string(tf % (r.hour, r.minute)))))
    for name, f in forms:
        try:
            e = f()
            got = _obs(e)
        except Exception as ex:
            got = 'raises %s: %s' % (type(ex).__name__, str(ex)[:80])
        if got != want:
            return bad(name, want, got)
    return None


def check_case(op, inp):
    from ladybug.dt import DateTime, Date, Time
    leap = bool(inp.get('leap', False))
    sig = {'leap': leap}
    if op == 'moy_roundtrip':
        m = inp['moy']
        d = DateTime.from_moy(m, leap)
        r = _ref(leap, m)
        got = (d.month, d.day, d.hour, d.minute, d.leap_year, d.moy, d.doy, d.int_hoy)
        want = (r.month, r.day, r.hour, r.minute, leap, m, m // 1440 + 1, m // 60)
        if got != want:
            return {'required': want, 'observed': got, 'sig': sig}
        if abs(d.hoy - m / 60.0) > 1e-9:
            return {'required': m / 60.0, 'observed': d.hoy, 'sig': sig}
        return None
    if op == 'hoy_roundtrip':
        m = inp['moy']
        d = DateTime.from_hoy(m / 60.0, leap)
        if d.moy != m or d != DateTime.from_moy(m, leap):
            return {'required': m, 'observed': d.moy, 'sig': sig}
        return None
    if op == 'doy_roundtrip':
        k = inp['doy']
        d = Date.from_doy(k, leap)
        r = date(2016 if leap else 2017, 1, 1) + timedelta(days=k - 1)
        if (d.month, d.day, d.doy, d.leap_year) != (r.month, r.day, k, leap):
            return {'required': (r.month, r.day, k, leap), 'observed': (d.month, d.day, d.doy, d.leap_year),
                    'sig': sig}
        return None
    if op == 'reject':
        what, v = inp['what'], inp['value']
        try:
            if what == 'moy':
                r = DateTime.from_moy(v, leap)
            elif what == 'make':           # a date that does not exist cannot come back as that date
                r = DateTime(v[0], v[1], v[2], v[3], leap)
            elif what == 'date':
                r = Date(v[0], v[1], leap)
            elif what == 'hoy':
                r = DateTime.from_hoy(v, leap)
            elif what == 'add':            # an offset that leaves the year is refused, it does not wrap
                r = DateTime.from_moy(v[0], leap).add_minute(v[1])
            elif what == 'add_hour':
                r = DateTime.from_moy(v[0], leap).add_hour(v[1])
            else:
                r = Date.from_doy(v, leap)
        except ValueError:
            return None
        except Exception as e:
            return None if isinstance(e, (IndexError,)) else {
                'required': 'ValueError', 'observed': repr(e), 'sig': dict(sig, what=what)}
        return {'required': 'rejected', 'observed': str(r), 'sig': dict(sig, what=what)}
    if op == 'order':
        a, b = inp['a'], inp['b']
        da, db = DateTime.from_moy(a, leap), DateTime.from_moy(b, leap)
        if (a < b) != (da < db) or (a == b) != (da == db) or (a <= b) != (da <= db) or \
                (a > b) != (da > db) or (a != b) != (da != db) or (a == b) != (hash(da) == hash(db)):
            return {'required': 'order of %d,%d' % (a, b), 'observed': '%s vs %s' % (da, db), 'sig': sig}
        return None
    if op == 'add_sub':
        # "adding and then subtracting ANY number of minutes or hours that stays inside the year returns
        # the starting date-time": whole and fractional offsets, either operation first
        m0 = inp['moy']
        d0 = DateTime.from_moy(m0, leap)
        k = inp['k']
        unit = inp.get('unit', 'minute')
        first = inp.get('first', 'add')
        exact = Fraction(k) * (60 if unit == 'hour' else 1)          # offset in minutes, exact
        target = m0 + exact if first == 'add' else m0 - exact
        sig = dict(sig, unit=unit, first=first, whole=exact.denominator == 1)
        if not 0 <= target <= _year_minutes(leap) - 1:
            return None                                              # leaves the year: not judged
        if unit == 'hour':
            ops = (d0.add_hour, 'sub_hour') if first == 'add' else (d0.sub_hour, 'add_hour')
        else:
            ops = (d0.add_minute, 'sub_minute') if first == 'add' else (d0.sub_minute, 'add_minute')
        try:
            fwd = ops[0](k)
            if exact.denominator == 1:
                if fwd.moy != target:
                    return {'required': int(target), 'observed': fwd.moy, 'sig': dict(sig, what='sum')}
            elif not abs(fwd.moy - target) < 1:
                return {'required': 'within one minute of %s' % float(target), 'observed': fwd.moy,
                        'sig': dict(sig, what='sum')}
            back = getattr(fwd, ops[1])(k)
        except Exception as e:
            return {'required': str(d0), 'observed': 'raises %s: %s' % (type(e).__name__, str(e)[:60]),
                    'sig': dict(sig, what='raises')}
        if back != d0 or back.leap_year != leap or back.moy != m0:
            return {'required': '%s (minute %d)' % (d0, m0), 'observed': '%s (minute %d) via %s (minute %d)' % (
                back, back.moy, fwd, fwd.moy), 'sig': dict(sig, what='inverse')}
        return None
    if op == 'serial':
        d = DateTime.from_moy(inp['moy'], leap)
        forms = {
            'array': lambda x: type(x).from_array(x.to_array()),
            'dict': lambda x: type(x).from_dict(json.loads(json.dumps(x.to_dict()))),
            'pickle': lambda x: pickle.loads(pickle.dumps(x)),
            'pickle0': lambda x: pickle.loads(pickle.dumps(x, 0)),
            'pickle1': lambda x: pickle.loads(pickle.dumps(x, 1)),
            'pickle2': lambda x: pickle.loads(pickle.dumps(x, 2)),
            'pickle5': lambda x: pickle.loads(pickle.dumps(x, 5)),
            'copy': lambda x: copy.copy(x),
            'deepcopy': lambda x: copy.deepcopy(x),
        }
        objs = {'DateTime': d, 'Date': d.date, 'Time': d.time}
        for cname, obj in objs.items():
            for fname, f in forms.items():
                try:
                    back = f(obj)
                    ok = back == obj and type(back) is type(obj) and \
                        getattr(back, 'leap_year', None) == getattr(obj, 'leap_year', None)
                    obs = str(back)
                except Exception as e:
                    ok, obs = False, 'raises %s' % type(e).__name__
                if not ok:
                    return {'required': str(obj), 'observed': obs,
                            'sig': dict(sig, form=fname, cls=cname)}
        try:
            back = DateTime.from_date_and_time(d.date, d.time)
            ok, obs = back == d and back.leap_year == leap, str(back)
        except Exception as e:
            ok, obs = False, 'raises %s' % type(e).__name__
        if not ok:
            return {'required': str(d), 'observed': obs, 'sig': dict(sig, form='date_and_time', cls='DateTime')}
        text = {
            'DateTime': lambda x: DateTime.from_date_time_string(str(x), leap),
            'Date': lambda x: Date.from_date_string(str(x), leap),
            'Time': lambda x: Time.from_time_string(str(x)),
        }
        for cname, obj in objs.items():
            try:
                back = text[cname](obj)
                ok = back == obj
                obs = str(back)
            except Exception as e:
                ok, obs = False, 'raises %s' % type(e).__name__
            if not ok:
                return {'required': str(obj), 'observed': obs, 'sig': dict(sig, form='text', cls=cname)}
        return None
    if op == 'hoy_float':
        h = inp['hoy']
        x = Fraction(h) * 60
        n = (x + Fraction(1, 2)).__floor__()
        cands = {n}
        if abs(x - n) > Fraction(1, 2) - Fraction(1, 10 ** 6):      # within 1e-6 of a tie: either neighbour
            cands = {x.__floor__(), x.__floor__() + 1}
        if not all(0 <= c < _year_minutes(leap) for c in cands):
            return None                                             # nearest minute outside the year: not judged
        sig = dict(sig, frac='grid' if x == n else ('down' if x > n else 'up'),
                   midnight=bool(n % 1440 == 0 and x < n))
        try:
            d = DateTime.from_hoy(h, leap)
        except Exception as e:
            return {'required': 'the date-time of minute %d' % n, 'observed': 'raises %s: %s' % (
                type(e).__name__, str(e)[:60]), 'sig': dict(sig, what='raises')}
        if d.moy not in cands:
            return {'required': sorted(cands), 'observed': d.moy, 'sig': dict(sig, what='minute')}
        r = _ref(leap, d.moy)
        got = (d.month, d.day, d.hour, d.minute, d.leap_year, d.doy, d.int_hoy)
        want = (r.month, r.day, r.hour, r.minute, leap, d.moy // 1440 + 1, d.moy // 60)
        if got != want:
            return {'required': want, 'observed': got, 'sig': dict(sig, what='fields')}
        return None
    if op == 'ctor_float':
        # fractional hour / minute arguments of the constructors: the nearest minute of the day
        cls = inp.get('cls', 'DateTime')
        x = Fraction(inp['hour']) * 60 + Fraction(inp['minute'])
        n = (x + Fraction(1, 2)).__floor__()
        cands = {n}
        if abs(x - n) > Fraction(1, 2) - Fraction(1, 10 ** 6):
            cands = {x.__floor__(), x.__floor__() + 1}
        if cands == {1440}:
            # rounds up to midnight of the NEXT day: refused (as the code does) or that next day, never
            # a wrap to 00:00 of the same day
            try:
                o = Time(inp['hour'], inp['minute']) if cls == 'Time' else \
                    DateTime(inp['mo'], inp['da'], inp['hour'], inp['minute'], leap)
            except ValueError:
                return None
            nxt = date(2016 if leap else 2017, inp.get('mo', 1), inp.get('da', 1)) + timedelta(days=1)
            if cls != 'Time' and nxt.year == (2016 if leap else 2017) and \
                    (o.month, o.day, o.hour, o.minute, o.leap_year) == (nxt.month, nxt.day, 0, 0, leap):
                return None
            return {'required': 'ValueError or 00:00 of the next day', 'observed': str(o),
                    'sig': dict(sig, cls=cls, what='wraps-past-midnight')}
        if not all(0 <= c <= 1439 for c in cands):
            return None                                   # a tie at the edge of the day: not judged
        sig = dict(sig, cls=cls, carry=bool(n % 60 == 0 and x < n))
        try:
            if cls == 'Time':
                t = Time(inp['hour'], inp['minute'])
                got, wants = (t.hour, t.minute), [(c // 60, c % 60) for c in sorted(cands)]
            else:
                d = DateTime(inp['mo'], inp['da'], inp['hour'], inp['minute'], leap)
                got = (d.month, d.day, d.hour, d.minute, d.leap_year)
                wants = [(inp['mo'], inp['da'], c // 60, c % 60, leap) for c in sorted(cands)]
        except Exception as e:
            return {'required': 'minute %d of the day' % n, 'observed': 'raises %s: %s' % (
                type(e).__name__, str(e)[:60]), 'sig': dict(sig, what='raises')}
        if got not in wants:
            return {'required': wants, 'observed': got, 'sig': dict(sig, what='fields')}
        return None
    if op == 'siblings':
        return _check_siblings(inp['moy'], leap, sig)
    if op == 'alias':
        return _check_alias(inp['moy'], leap, inp['moy2'], bool(inp['leap2']), sig)
    if op == 'shape':
        return _check_shape(inp['moy'], leap, sig)
    if op == 'history':
        return _history_result(inp['ops'])
    if op == 'process_order':
        fs = _run_order([tuple(c) for c in inp['order']])
        if not fs:
            return None
        f = fs[0]
        sig = dict(f.get('sig') or {})
        sig.update({'kind': 'process_order', 'at': f['op']})
        return {'required': f['required'], 'observed': 'case %d of the order (%s %s): %s' % (
            f['index'], f['op'], json.dumps(f['input'])[:200], f['observed']), 'sig': sig}
    raise ValueError('unknown op ' + op)


replay = check_case


def _hoy_float_cases(ctx, leap, count):
    """Float hours at arbitrary resolution, by stratum (built from plain numbers)."""
    rng = ctx.rng
    n = _year_minutes(leap)
    bm = [m for m in _boundary_moys(leap) if 0 <= m < n]
    for _ in range(count):
        r = rng.random()
        m = rng.choice(bm) if rng.random() < 0.4 else rng.randrange(n)
        if r < 0.25:        # last half minute before midnight / before a full hour (carry into hour, day, month)
            base = (m // 1440 + 1) * 1440 if rng.random() < 0.6 else (m // 60 + 1) * 60
            h = (base - rng.choice([0.4999, 0.499, 0.45, 0.3, 0.1, 0.01, 1e-6])) / 60.0
            ctx.count('hoy:last-half-minute')
        elif r < 0.45:      # just below / above the half-minute tie
            h = (m + 0.5 + rng.choice([-1, 1]) * rng.choice([1e-4, 1e-3, 0.01])) / 60.0
            ctx.count('hoy:near-tie')
        elif r < 0.65:      # sub-minute resolution
            h = (m + rng.uniform(-0.499, 0.499)) / 60.0
            ctx.count('hoy:sub-minute')
        elif r < 0.75:      # minute grid written with few decimals (as people type it)
            h = float('%.4f' % (m / 60.0))
            ctx.count('hoy:4-decimals')
        elif r < 0.78:
            h = rng.choice([0.0, -0.0, 0, 1e-12, 1e-9, 0.008, 1 / 120.0 - 1e-9, 5e-324, 1e-300])
            ctx.count('hoy:zero')
        elif r < 0.80:      # the far end of the year reached by accumulated float steps of 1/timestep
            ts = rng.choice(_TIMESTEPS)
            acc = _accumulated_hours(ts, leap)
            h = rng.choice(acc)
            ctx.count('hoy:accumulated-steps-year-end')
            ctx.count('hoy:timestep-%d' % ts)
        elif r < 0.85:
            h = m // 60                     # an int, not a float
            ctx.count('hoy:int')
        else:
            h = rng.random() * (n / 60.0)
            ctx.count('hoy:uniform')
        yield 'hoy_float', {'leap': leap, 'hoy': h}


_TIMESTEPS = (1, 2, 3, 4, 5, 6, 10, 12, 15, 20, 30, 60)
_ACC = {}


def _accumulated_hours(ts, leap):
    """The last hours of the year as a caller gets them by adding 1/ts again and again (float
    steps accumulate their rounding), plus the same instants formed as n/60 - j/ts."""
    key = (ts, leap)
    if key not in _ACC:
        step = 1.0 / ts
        h = 0.0
        total = (8784 if leap else 8760) * ts
        tail = []
        for i in range(total - 1):
            h += step
            if i >= total - 6:
                tail.append(h)
        n = _year_minutes(leap)
        tail += [n / 60.0 - j / float(ts) for j in (1, 2, 3)]
        tail += [(total - j) * step for j in (1, 2, 3)]
        _ACC[key] = tail
    return _ACC[key]


_BAD_DATES = [(2, 30), (2, 31), (4, 31), (6, 31), (9, 31), (11, 31), (13, 1), (0, 1), (1, 0), (1, 32)]


def _oracle_cases(ctx):
    rng = ctx.rng
    big = ctx.searching or not ctx.quick
    for leap in (False, True):
        n = _year_minutes(leap)
        moys = [m for m in _boundary_moys(leap) if 0 <= m < n]
        if ctx.searching or not ctx.quick:
            moys = range(n)                               # exhaustive
        else:
            moys = moys + [rng.randrange(n) for _ in range(4000)]
        for m in moys:
            yield 'moy_roundtrip', {'leap': leap, 'moy': m}
        hm = moys if not isinstance(moys, range) else range(0, n, 1 if not ctx.quick else 7)
        for m in hm:
            yield 'hoy_roundtrip', {'leap': leap, 'moy': m}
        for c in _hoy_float_cases(ctx, leap, 4000 if not big else 60000):
            yield c
        for k in range(1, (366 if leap else 365) + 1):
            yield 'doy_roundtrip', {'leap': leap, 'doy': k}
        for v in (n, n + 1, n + 1440, 2 * n, 10 ** 8):
            yield 'reject', {'leap': leap, 'what': 'moy', 'value': v}
        for v in (0, -1, (366 if leap else 365) + 1, 400, 1000):
            yield 'reject', {'leap': leap, 'what': 'doy', 'value': v}
        for mo, da in _BAD_DATES + ([] if leap else [(2, 29)]):
            yield 'reject', {'leap': leap, 'what': 'make', 'value': [mo, da, 12, 0]}
            yield 'reject', {'leap': leap, 'what': 'date', 'value': [mo, da]}
        bm = [m for m in _boundary_moys(leap) if 0 <= m < n]
        for _ in range(3000 if not big else 30000):
            a = rng.choice(bm) if rng.random() < 0.5 else rng.randrange(n)
            b = rng.choice(bm) if rng.random() < 0.5 else rng.randrange(n)
            if rng.random() < 0.1:
                b = a
            yield 'order', {'leap': leap, 'a': a, 'b': b}
        for _ in range(3000 if not big else 30000):
            m = rng.choice(bm) if rng.random() < 0.4 else rng.randrange(n)
            r = rng.random()
            if r < 0.08:
                k = 0
                ctx.count('add_sub:zero-offset')
            elif r < 0.16:
                k = rng.choice([-m, n - 1 - m])            # lands exactly on the first / last minute
                ctx.count('add_sub:to-year-edge')
            elif leap and r < 0.30:                        # the part of the leap year a normal year lacks
                if rng.random() < 0.5:
                    m = rng.randrange(525600, n)
                    k = rng.randrange(-m, n - m)
                else:
                    k = rng.randrange(525600, n) - m
                ctx.count('add_sub:leap-31dec')
            else:
                k = rng.randrange(-m, n - m)
            yield 'add_sub', {'leap': leap, 'moy': m, 'k': k}
            kh = rng.randrange(-(m // 60), (n - m - 1) // 60 + 1)
            if rng.random() < 0.3:                         # float hours on the quarter grid (exact in binary)
                kq = rng.randrange(-(m // 15), (n - m - 1) // 15 + 1)
                kh = kq / 4.0
                ctx.count('add_sub:quarter-hours')
            yield 'add_sub', {'leap': leap, 'moy': m, 'k': kh, 'unit': 'hour'}
        sm = bm + [rng.randrange(n) for _ in range(600 if not big else 20000)]
        if leap:
            sm += [(31 + 28) * 1440 + x for x in (0, 1, 180, 1439)]   # 29 Feb
        for m in sm:
            yield 'serial', {'leap': leap, 'moy': m}
        # ---- round 4
        for v in (n / 60.0, n / 60.0 + 0.01, n // 60, float(8784 if not leap else 8800), 1e7, 1e16):
            yield 'reject', {'leap': leap, 'what': 'hoy', 'value': v}
        for _ in range(40):
            m = rng.choice(bm)
            yield 'reject', {'leap': leap, 'what': 'add', 'value': [m, rng.choice([n - m, n - m + 1, n - m + 1439,
                                                                                  n - m + 1440, 2 * n, 10 ** 9])]}
            m -= m % 60
            yield 'reject', {'leap': leap, 'what': 'add_hour', 'value': [m, float((n - m) // 60 + rng.choice([0, 1, 24]))]}
        for _ in range(3000 if not big else 30000):       # offsets that are not whole minutes / hours
            m = rng.choice(bm) if rng.random() < 0.4 else rng.randrange(n)
            first = rng.choice(['add', 'sub'])
            if rng.random() < 0.5:
                k = _frac_offsets(rng, m, n)
                ctx.count('add_sub:fractional-minutes')
                yield 'add_sub', {'leap': leap, 'moy': m, 'k': k, 'first': first}
            else:
                k = rng.choice([0.01, 0.1, 1.51, 2.05, 1 / 3.0, 0.004, 1e-9, 23.99, 100.3, 0.7, 7.77,
                                _frac_offsets(rng, m, n) / 60.0]) * rng.choice([1, -1])
                mid = m + Fraction(k) * 60 * (1 if first == 'add' else -1)
                if not 0 <= mid <= n - 1:
                    k = -k
                ctx.count('add_sub:fractional-hours')
                yield 'add_sub', {'leap': leap, 'moy': m, 'k': k, 'unit': 'hour', 'first': first}
            if rng.random() < 0.3:                        # whole offsets, subtraction first
                kk = rng.randrange(-(n - 1 - m), m + 1)
                ctx.count('add_sub:sub-first')
                yield 'add_sub', {'leap': leap, 'moy': m, 'k': kk, 'first': 'sub'}
        for h, mi in _frac_hm_cases(rng, 1500 if not big else 20000, ctx.count):
            r0 = _ref(leap, rng.choice(bm) if rng.random() < 0.5 else rng.randrange(n))
            yield 'ctor_float', {'leap': leap, 'mo': r0.month, 'da': r0.day, 'hour': h, 'minute': mi,
                                 'cls': 'Time' if rng.random() < 0.3 else 'DateTime'}
        extra = [0, 1, 59, 60, n - 60, n - 1] + ([(31 + 28) * 1440 + x for x in (0, 735, 1439)] if leap else [])
        for m in extra + [rng.choice(bm) for _ in range(120 if not big else 2000)] + \
                [rng.randrange(n) for _ in range(250 if not big else 12000)]:
            yield 'siblings', {'leap': leap, 'moy': m}
        for m in extra + [rng.choice(bm) for _ in range(80 if not big else 1500)] + \
                [rng.randrange(n) for _ in range(200 if not big else 8000)]:
            yield 'shape', {'leap': leap, 'moy': m}
        for _ in range(250 if not big else 6000):
            l2 = rng.random() < 0.5
            n2 = _year_minutes(l2)
            m1 = rng.choice(extra + bm) if rng.random() < 0.5 else rng.randrange(n)
            m2 = rng.choice([0, n2 - 1, (31 + 28) * 1440 + 735 if l2 else 84960, rng.randrange(n2)])
            ctx.count('alias:%s-then-%s' % ('leap' if leap else 'normal', 'leap' if l2 else 'normal'))
            yield 'alias', {'leap': leap, 'moy': m1, 'leap2': l2, 'moy2': m2}


def _oracle_histories(ctx, count):
    """Histories on new module instances: a stale memo / slot shows as a wrong later observation."""
    rng = ctx.rng
    for _ in range(count):
        if len(ctx.failures) >= 200:
            break
        ops = _gen_history(rng, rng.randrange(4, 36), wild=False, count=ctx.count)
        res = _history_result(ops)
        ctx.count('oracle:history')
        ctx.count('oracle:history-steps', len(ops))
        ctx.case(('history', json.dumps(ops)))
        if res:
            sig = res['sig']

            def fails(t):
                r = _history_result(t)
                return r is not None and r['sig'] == sig

            small = _shrink_history(ops[:res['at'] + 1], fails)
            res2 = _history_result(small) or res
            ctx.fail('history', {'ops': small}, res2['required'],
                     'step %d %r: %s' % (res2.get('at', -1), small[res2.get('at', -1)], res2['observed']),
                     res2['sig'])


def _branch_pool(ctx):
    """A small slice of the stream that is meant to reach every branch of dt.py (traced)."""
    rng = ctx.rng
    pool = []
    for leap in (False, True):
        n = _year_minutes(leap)
        days = 366 if leap else 365
        bm = [m for m in _boundary_moys(leap) if 0 <= m < n]
        pool += [('doy_roundtrip', {'leap': leap, 'doy': d}) for d in range(1, days + 1)]
        pool += [('reject', {'leap': leap, 'what': 'doy', 'value': v}) for v in (-1, 0, days + 1)]
        pool += [('reject', {'leap': leap, 'what': 'moy', 'value': n})]
        pool += [('reject', {'leap': leap, 'what': 'make', 'value': [2, 30, 0, 0]}),
                 ('reject', {'leap': leap, 'what': 'date', 'value': [2, 30]}),
                 ('reject', {'leap': leap, 'what': 'hoy', 'value': 9000.0})]
        pool += [('moy_roundtrip', {'leap': leap, 'moy': m}) for m in bm[::3]]
        pool += [('serial', {'leap': leap, 'moy': m}) for m in (0, 84960, n - 1)]
        pool += [('siblings', {'leap': leap, 'moy': m}) for m in (0, 84960 + 735, n - 1)]
        pool += [('shape', {'leap': leap, 'moy': m}) for m in (60, 84960 + 735)]
        pool += [('alias', {'leap': leap, 'moy': 84960, 'leap2': not leap, 'moy2': 5})]
        pool += [('ctor_float', {'leap': leap, 'mo': 6, 'da': 21, 'hour': h, 'minute': mi, 'cls': c})
                 for h, mi in ((5.0, 59.7), (5.9999, 0.0), (12.25, 0.0), (23.0, 59.9)) for c in ('DateTime', 'Time')]
        pool += [('add_sub', {'leap': leap, 'moy': 1000, 'k': 90.5}),
                 ('add_sub', {'leap': leap, 'moy': 1000, 'k': 1.51, 'unit': 'hour', 'first': 'sub'})]
        pool += [('hoy_float', {'leap': leap, 'hoy': 8759.99})]
    pool.append(('history', {'ops': [['fm', 1, 86399], ['sl', 0], ['md', 1440], ['md', 7], ['via', 'text'],
                                     ['mk', 0, 6, 15, 24, 0], ['fd', 1, 60], ['rd', 3]]}))
    # name the branch each traced case is meant to take (computed from the stdlib calendar)
    for op, inp in pool:
        leap = bool(inp.get('leap'))
        days = 366 if leap else 365
        if op == 'doy_roundtrip':
            r = date(2016 if leap else 2017, 1, 1) + timedelta(days=inp['doy'] - 1)
            last = r.day == _month_len(leap, r.month)
            ctx.count('branch:from_doy:month-end(day==0)' if last and r.month < 12 else 'branch:from_doy:plain')
            ctx.count('branch:from_doy:table-%s' % ('leap' if leap else 'normal'))
        elif op == 'reject' and inp['what'] == 'doy':
            v = inp['value']
            ctx.count('branch:from_doy:negative-day' if v < 0 else 'branch:from_doy:month-0(table[-1])'
                      if v == 0 else 'branch:from_doy:fall-through(UnboundLocalError)')
        elif op == 'reject' and inp['what'] in ('moy', 'hoy'):
            ctx.count('branch:from_moy:fall-through(UnboundLocalError)')
        elif op == 'reject':
            ctx.count('branch:__new__:ValueError-reraised:' + inp['what'])
        elif op == 'moy_roundtrip':
            ctx.count('branch:from_moy:break-at-month-%d' % _ref(leap, inp['moy']).month)
            ctx.count('branch:from_moy:table-%s' % ('leap' if leap else 'normal'))
        elif op == 'ctor_float':
            x = Fraction(inp['hour']) * 60 + Fraction(inp['minute'])
            ctx.count('branch:calc_hm:minute==60(carry)' if x % 60 >= Fraction(119, 2) else 'branch:calc_hm:else')
        elif op in ('serial', 'alias', 'siblings'):
            for what in ('to_array', 'to_dict', 'from_date_and_time'):
                ctx.count('branch:%s:%s' % (what, 'leap' if leap else 'normal'))
            ctx.count('branch:from_dict:all-keys-present')
        elif op == 'shape':
            ctx.count('branch:from_dict:keys-absent(defaults)')
    ctx.count('branch:strptime-AttributeError-fallback:unreachable-on-CPython3', 0)
    return pool


def _order_pool(ctx):
    """The slice of the oracle stream that is re-run in fresh interpreters."""
    rng = ctx.rng
    k = 1 if ctx.quick and not ctx.searching else 4
    pool = []
    for leap in (False, True):
        n = _year_minutes(leap)
        days = 366 if leap else 365
        bm = [m for m in _boundary_moys(leap) if 0 <= m < n]
        pool += [('doy_roundtrip', {'leap': leap, 'doy': d}) for d in range(1, days + 1)]
        pool += [('reject', {'leap': leap, 'what': 'doy', 'value': v}) for v in (0, days + 1)]
        pool += [('reject', {'leap': leap, 'what': 'moy', 'value': v}) for v in (n, n + 1440)]
        pool += [('reject', {'leap': leap, 'what': 'make', 'value': [2, 30, 0, 0]})]
        # refused calls spread through the order (a slot left half-written by a refused call shows in
        # the next ordinary case)
        pool += [('reject', {'leap': leap, 'what': 'moy', 'value': rng.choice([n, n + 1, n + 59, n + 1440, 2 * n])})
                 for _ in range(60 * k)]
        pool += [('reject', {'leap': leap, 'what': 'doy', 'value': rng.choice([0, -1, days + 1, 400])})
                 for _ in range(20 * k)]
        pool += [('moy_roundtrip', {'leap': leap, 'moy': m}) for m in bm]
        pool += [('moy_roundtrip', {'leap': leap, 'moy': rng.randrange(n)}) for _ in range(150 * k)]
        pool += [('hoy_roundtrip', {'leap': leap, 'moy': rng.choice(bm)}) for _ in range(80 * k)]
        pool += list(_hoy_float_cases(ctx, leap, 120 * k))
        for _ in range(120 * k):
            m = rng.choice(bm) if rng.random() < 0.5 else rng.randrange(n)
            pool.append(('add_sub', {'leap': leap, 'moy': m, 'k': rng.randrange(-m, n - m)}))
            pool.append(('order', {'leap': leap, 'a': m, 'b': rng.choice(bm)}))
        pool += [('serial', {'leap': leap, 'moy': rng.choice(bm)}) for _ in range(25 * k)]
        for _ in range(40 * k):
            m = rng.choice(bm) if rng.random() < 0.5 else rng.randrange(n)
            l2 = rng.random() < 0.5
            pool.append(('alias', {'leap': leap, 'moy': m, 'leap2': l2, 'moy2': rng.randrange(_year_minutes(l2))}))
            pool.append(('siblings', {'leap': leap, 'moy': m}))
            pool.append(('shape', {'leap': leap, 'moy': rng.choice(bm)}))
            pool.append(('add_sub', {'leap': leap, 'moy': m, 'k': _frac_offsets(rng, m, n),
                                     'first': rng.choice(['add', 'sub'])}))
    for _ in range(300 * k):
        pool.append(('history', {'ops': _gen_history(rng, rng.randrange(3, 20))}))
    return pool


def _twin_cases(op, inp):
    """Cases about the same calendar date / the same index in the other kind of year (what a memo
    keyed without the leap flag confuses), from the stdlib calendar."""
    out = []
    leap = bool(inp.get('leap', False))
    for key in ('moy', 'a', 'b'):
        if isinstance(inp.get(key), int) and 0 <= inp[key] < _year_minutes(leap):
            r = _ref(leap, inp[key])
            alts = [inp[key]]
            if r.day <= _month_len(not leap, r.month):
                alts.append(_moy_of(not leap, r.month, r.day, r.hour, r.minute))
            for m in alts:
                if 0 <= m < _year_minutes(not leap):
                    out.append(('moy_roundtrip', {'leap': not leap, 'moy': m}))
                    out.append(('serial', {'leap': not leap, 'moy': m}))
    if isinstance(inp.get('doy'), int):
        for k in (inp['doy'] - 1, inp['doy'], inp['doy'] + 1):
            if 1 <= k <= 365:
                out.append(('doy_roundtrip', {'leap': not leap, 'doy': k}))
    twin = dict(inp)
    twin['leap'] = not leap
    if all(not isinstance(inp.get(key), int) or 0 <= inp[key] < _year_minutes(not leap) for key in ('moy', 'a', 'b')) \
            and not (isinstance(inp.get('doy'), int) and inp['doy'] > 365) \
            and not (op == 'ctor_float' and (inp.get('mo'), inp.get('da')) == (2, 29)):
        out.append((op, twin))
    return out


def _confirm_in_fresh_process(ctx, recent, rng):
    """A failure seen in this (long-lived) process must be replayable: if the single case does not
    fail in a fresh interpreter the failure depends on what ran before it -> find and report an
    order that fails; failures for which none is found are moved behind the replayable ones."""
    for idx, f in enumerate(ctx.failures[:1]):
        if f['op'] in ('history', 'process_order') or idx not in recent:
            continue
        case = (f['op'], f['input'])
        if _run_order([case]):
            continue                                    # fails on its own: the replay is the case
        before = recent[idx]
        twins = _twin_cases(*case)
        found = False
        for pre in (twins, [case], before[-60:], before):
            fs = _run_order(list(pre) + [case])
            if fs:
                order = list(pre) + [case]
                small = _shrink_order(order[:fs[0]['index'] + 1], fs[0], budget=24)
                g = fs[0]
                sig = dict(g.get('sig') or {})
                sig.update({'kind': 'process_order', 'at': g['op'], 'order_dependent': True})
                ctx.failures[idx] = {'op': 'process_order',
                                     'input': {'order': small, 'failing_case': [g['op'], g['input']]},
                                     'required': g['required'], 'observed': g['observed'],
                                     'sig': dict(sig, op='process_order')}
                found = True
                break
        if not found:
            # depends on an earlier part of this run that was not identified: keep a few as
            # unconfirmed and leave room for the history / process-order stages (replayable by construction)
            for g in ctx.failures:
                g['unconfirmed'] = True
            del ctx.failures[10:]


def oracle(ctx):
    import collections
    window = collections.deque(maxlen=1500)
    recent = {}
    base = len(ctx.failures)

    def checked(op, inp):
        res = check_case(op, inp)
        if res and len(ctx.failures) - base < 2:
            recent[len(ctx.failures)] = list(window)
        window.append((op, inp))
        return res

    run_oracle_cases(ctx, _oracle_cases(ctx), checked)
    if ctx.failures:
        _confirm_in_fresh_process(ctx, recent, ctx.rng)
    _branch_coverage(ctx, _branch_pool(ctx))
    _oracle_histories(ctx, 1500 if (ctx.quick and not ctx.searching) else 12000)
    _process_orders(ctx, _order_pool(ctx))
    ctx.failures.sort(key=lambda f: bool(f.get('unconfirmed')))      # replayable failures first

LEVEL_TEXT = ('Machine-checked Lean 4 theorems (42) over an executable model of dt.py: from_moy/moy and '
              'from_doy/doy are mutually inverse bijections for every minute/day of normal and leap years, '
              'out-of-year inputs are rejected, ordering equals ordering of moy, add/sub offsets invert, '
              'array/dict/pickle/text forms round-trip incl. 29 Feb. The month tables used by the model are '
              'regenerated from dt.py on every run (a changed table breaks theorem C08_tables_*), and the '
              'model is compared with the real classes on boundary-biased and (thorough) exhaustive inputs. '
              'Histories: for every op list on one date-time variable the state is the fresh object of its '
              'public state, refused calls change nothing, reads are pure, index ops follow integer arithmetic '
              '(C08_history_*); the real classes are compared with that state machine step by step, in new '
              'module instances and in fresh interpreters with different case orders. Round 4: add/sub are '
              'inverse for every real offset (truncation is odd), both branches of the float hour '
              'normalisation, the branches of from_doy / from_moy, and the agreement of the DateTime / Date / '
              'Time siblings are theorems; argument container types, aliasing of results and subclasses are '
              'compared on the real classes.')
LEVEL_NOTE = ('Trusted: Lean kernel; axioms propext/Classical.choice/Quot.sound only; the table extractor; '
              'the correspondence run (agreement on generated inputs only); CPython datetime as the calendar '
              'reference; float hour normalisation modelled as exact carry (compared exhaustively); '
              'character-level text formatting tied by correspondence only.')
TECHNIQUE = ('Lean 4 proof (induction on the month search, decide +kernel over the 365/366 day indices, omega) '
             'about a model tied to dt.py by regenerated tables and differential correspondence')
