"""C08 — Date-time <-> hour/minute/day-of-year conversions are exact bijections.

Model: lean/Ladybug/Model/Cal.lean (+ Model/C08Hist.lean: operation histories on one date-time
variable); theorems: lean/Ladybug/Props/C08.lean (+ Proofs/C08Hist.lean); driver: drv_c08.
Tie: translator (Gen/DtTables from dt.py) + correspondence on the ops below.

Producers in dt.py and EVERY consumer of each (all of them are exercised by the correspondence
and/or the oracle, so that a producer changed together with one consumer shows in the others):

  P1 minute-of-year month table + search (DateTime.from_moy)
       <- from_moy, from_hoy, add_minute, sub_minute, add_hour, sub_hour            [corr + oracle + histories]
  P2 Time._calculate_hour_and_minute (float hour -> hour, minute, carry)
       <- DateTime.__new__, Time.__new__, Time.from_mod; through __new__: every constructor path
          (from_moy, from_dict, from_array, from_date_time_string, from_date_and_time,
          from_first_hour, from_last_hour, __reduce_ex__/pickle/copy)              [corr: norm_hm/make/time_make; oracle: hoy_float, serial]
  P3 day-of-year month table + search (Date.from_doy)
       <- Date.from_doy (both leap flags, both call orders)                          [corr + oracle + histories 'fd' + process order]
  P4 derived indices: doy -> int_hoy -> moy; doy -> hoy; float_hour
       <- .doy .int_hoy .moy .hoy .float_hour, add_minute (reads moy), ordering     [every observation of every step]
  P5 leap flag (year 2016/2017 <-> leap_year)
       <- to_array, to_dict, __reduce_ex__, add_minute, .date, from_date_and_time   [serial, histories 'sl'/'via']
  P6 __reduce_ex__ (DateTime, Date, Time)
       <- pickle protocols 0..5, copy.copy, copy.deepcopy                            [oracle serial, histories via]
  P7 text forms (__str__/strftime)
       <- from_date_time_string, Date.from_date_string, Time.from_time_string        [corr str/parse, oracle serial, histories via text]

Round 3 additions: (1) HISTORIES: generated op lists executed on one date-time variable in one
module instance / one process (constructors of both year kinds in any order, offsets, refused
calls in between, serial trips, repeated reads), compared step by step with the Lean state machine
`Cal.Hist.step` (correspondence) and with a stdlib-datetime reference (oracle).  dt.py has no
per-object state (`__slots__ = ()`) and no module-level state: the model is a pure function of the
public state, so any memo/slot that survives a refused call, a change of year kind or a different
call order shows as a difference.  (2) PROCESS ORDER: a slice of the oracle stream is run in fresh
Python subprocesses, each with another seeded order (failing calls and leap cases first in one
of them); a failure is reported as op `process_order` with the (shrunk) order as replay.
(3) float hours at arbitrary resolution (`hoy_float`), zero / boundary / leap-only strata.
"""
import calendar
import copy
import itertools
import json
import os
import pickle
import struct
import subprocess
import sys
import types
from datetime import date, datetime, timedelta
from fractions import Fraction

from harness import core
from harness.core import compare_batch, err_name, run_oracle_cases

PROP = 'C08'
PROOF_MODULES = ['Ladybug.Props.C08']
GREP_MODULES = ['Ladybug.Py', 'Ladybug.Model.Cal', 'Ladybug.Model.C08Hist', 'Ladybug.Gen.DtTables',
                'Ladybug.Proofs.CalLemmas', 'Ladybug.Proofs.C08Hist', 'Ladybug.Drv.C08', 'Ladybug.DrvCore']
RULE = ('correspondence: month-boundary minutes +-2, random minutes, all day numbers -2..368, all '
        '(hour, minute) normalisations, offsets, serial forms, float minutes, for both leap flags (thorough: '
        'every minute of both years); HISTORIES: op lists on one date-time variable (constructors of both '
        'year kinds, offsets, refused calls, leap-flag switches, serial trips, repeated reads, twin triples) '
        'run on a new module instance and on the long-lived module, compared step by step with the Lean '
        'state machine; oracle: inverse laws / ordering / serial round trips / float hours at arbitrary '
        'resolution / histories against a stdlib reference on the real classes; PROCESS ORDER: a slice of '
        'the oracle stream in 3-4 fresh interpreters in different seeded orders (failing + leap cases first '
        'in one); a case is non-trivial when the implementation returns a value (not a rejection); '
        'distinct = distinct (op, input)')
TRUSTED_BASE = [
    'translator tools/extract/dt_tables.py: copies the four month tables and MONTHNAMES from dt.py',
    'modelled, not verified: CPython datetime/date/time constructors, strptime/strftime, pickle/copy '
    'calling __reduce_ex__, float hour normalisation (compared exhaustively for hour 0..30 x minute 0..200)',
    'character-level lexing/zero-padding of the text form is tied by correspondence only '
    '(theorem C08_str_roundtrip is at token level)',
    'absence of hidden state in dt.py (per object / per module) is what the history model states; it is '
    'tied by the step-by-step history correspondence and the fresh-interpreter order runs of this run only',
    'constructor calls with fractional hour/minute arguments (DateTime(1, 1, 23, 59.6)) are not modelled',
]
ASSUMPTIONS = ['CPython datetime arithmetic is the reference calendar for the oracle']


def extract(ctx):
    from tools.extract import dt_tables
    ctx.tables = dt_tables.extract()


def _fbits(x):
    return '%016x' % struct.unpack('<Q', struct.pack('<d', x))[0]


def _b(x):
    return '1' if x else '0'


def _show_dt(d):
    return 'ok %d %d %d %d %s %d %d %d' % (d.month, d.day, d.hour, d.minute, _b(d.leap_year),
                                          d.doy, d.int_hoy, d.moy)


def _show_d(d):
    return 'ok %d %d %s %d' % (d.month, d.day, _b(d.leap_year), d.doy)


def _show_t(t):
    return 'ok %d %d %d' % (t.hour, t.minute, t.mod)


def _year_minutes(leap):
    return 527040 if leap else 525600


def _boundary_moys(leap):
    out = set()
    year = 2016 if leap else 2017
    for m in range(1, 13):
        start = int((datetime(year, m, 1) - datetime(year, 1, 1)).total_seconds() // 60)
        for k in (-2, -1, 0, 1, 2, 59, 60, 61, 1439, 1440, 1441):
            out.add(start + k)
    n = _year_minutes(leap)
    for k in (-1441, -1440, -1439, -61, -60, -59, -2, -1, n - 2, n - 1, n, n + 1, n + 1440, 10 ** 7):
        out.add(k)
    return sorted(out)


def _rand_dt(rng, leap=None):
    from ladybug.dt import DateTime
    leap = rng.random() < 0.5 if leap is None else leap
    r = rng.random()
    if leap and r < 0.15:
        return DateTime(2, 29, rng.randrange(24), rng.randrange(60), True)
    if r < 0.3:
        m, d = rng.choice([(1, 1), (12, 31), (2, 28), (3, 1), (6, 30), (7, 31)])
        return DateTime(m, d, rng.choice([0, 23, 12]), rng.choice([0, 59, 30]), leap)
    r = _ref(leap, rng.randrange(_year_minutes(leap)))      # stdlib calendar, not the code under test
    return DateTime(r.month, r.day, r.hour, r.minute, leap)


# ---------------------------------------------------------------------------------------------
# round 3: module instances, operation histories, process order


_WORKER = False            # True inside a process-order subprocess: histories run on the real module
_DT_CODE = {}
_FRESH_COUNT = itertools.count()


def _real_dt():
    import ladybug.dt
    return ladybug.dt


class _FreshDt(object):
    """A new instance of ladybug/dt.py (module-level state as in a new process, at no cost).
    Registered in sys.modules while in use so that pickle finds the classes."""

    def __enter__(self):
        path = os.path.join(core.REPO, 'ladybug', 'dt.py')
        if path not in _DT_CODE:
            with open(path, encoding='utf-8') as f:
                _DT_CODE[path] = compile(f.read(), path, 'exec')
        self.name = 'ladybug_dt_instance_%d' % next(_FRESH_COUNT)
        mod = types.ModuleType(self.name)
        mod.__file__ = path
        sys.modules[self.name] = mod
        exec(_DT_CODE[path], mod.__dict__)
        return mod

    def __exit__(self, *a):
        sys.modules.pop(self.name, None)


class _ReadImpure(Exception):
    pass


_READS = ('month', 'day', 'hour', 'minute', 'leap_year', 'doy', 'int_hoy', 'moy', 'hoy', 'float_hour')
_VIA_MODEL = {'array': 'array', 'dict': 'dict', 'text': 'text', 'date_time': 'date_time', 'copy': 'reduce',
              'deepcopy': 'reduce', 'pickle0': 'reduce', 'pickle1': 'reduce', 'pickle2': 'reduce',
              'pickle3': 'reduce', 'pickle4': 'reduce', 'pickle5': 'reduce'}
_VIAS = sorted(_VIA_MODEL)


def _via(mod, cur, form):
    DT = mod.DateTime
    if form == 'array':
        return DT.from_array(cur.to_array())
    if form == 'dict':
        return DT.from_dict(json.loads(json.dumps(cur.to_dict())))
    if form == 'text':
        return DT.from_date_time_string(str(cur), cur.leap_year)
    if form == 'date_time':
        return DT.from_date_and_time(cur.date, cur.time)
    if form == 'copy':
        return copy.copy(cur)
    if form == 'deepcopy':
        return copy.deepcopy(cur)
    if form.startswith('pickle'):
        return pickle.loads(pickle.dumps(cur, int(form[6:])))
    raise ValueError('unknown form ' + form)


def _apply_op(mod, cur, op):
    """Right-hand side of one history step on the real classes (may raise)."""
    DT, D, T = mod.DateTime, mod.Date, mod.Time
    t = op[0]
    if t == 'fm':
        return DT.from_moy(op[2], bool(op[1]))
    if t == 'fh':
        return DT.from_hoy(op[2], bool(op[1]))
    if t == 'fd':
        return DT.from_date_and_time(D.from_doy(op[2], bool(op[1])), cur.time)
    if t == 'mk':
        return DT(op[2], op[3], op[4], op[5], bool(op[1]))
    if t == 'am':
        return cur.add_minute(op[1])
    if t == 'sm':
        return cur.sub_minute(op[1])
    if t == 'ah':
        return cur.add_hour(op[1])
    if t == 'sh':
        return cur.sub_hour(op[1])
    if t == 'sl':
        return DT(cur.month, cur.day, cur.hour, cur.minute, bool(op[1]))
    if t == 'md':
        return DT.from_date_and_time(cur.date, T.from_mod(op[1]))
    if t == 'via':
        return _via(mod, cur, op[1])
    if t == 'rd':
        # the same question asked twice, in two different orders: reads must be pure
        names = list(_READS)
        k = op[1] % len(names)
        order1 = names[k:] + names[:k]
        first = {n: getattr(cur, n) for n in order1}
        second = {n: getattr(cur, n) for n in reversed(order1)}
        if first != second:
            raise _ReadImpure('%r then %r' % (first, second))
        return cur
    raise ValueError('unknown history op %r' % (op,))


def _op_token(op):
    t = op[0]
    if t in ('fh',):
        return 'fh:%d:%s' % (op[1], _fbits(float(op[2])))
    if t in ('ah', 'sh'):
        return '%s:%s' % (t, _fbits(float(op[1])))
    if t == 'via':
        return 'via:' + _VIA_MODEL[op[1]]
    if t == 'rd':
        return 'rd'
    return ':'.join([t] + [str(int(x)) for x in op[1:]])


def _obs(d):
    return (d.month, d.day, d.hour, d.minute, bool(d.leap_year), d.doy, d.int_hoy, d.moy)


def _run_history_impl(mod, ops):
    """Outputs of a history on the real classes, in the driver's format (hoy kept as a float)."""
    cur = mod.DateTime()
    out = []
    for op in ops:
        try:
            res = _apply_op(mod, cur, op)
            o = _obs(res)
            out.append(('ok',) + o[:4] + (int(o[4]),) + o[5:] + (res.hoy,))
            cur = res
        except _ReadImpure as e:
            out.append(('impure', str(e)))
        except Exception as e:
            out.append(('err:' + err_name(e),))
    return out


def _model_step_eq(mtxt, io):
    """Compare one model output ('ok ..' | 'err:..') with one implementation output tuple."""
    mt = mtxt.split()
    if io[0] != 'ok' or not mt or mt[0] != 'ok':
        return len(io) == 1 and mt == [io[0]]
    if len(mt) != 10:
        return False
    if [int(x) for x in mt[1:9]] != [int(x) for x in io[1:9]]:
        return False
    return abs(float(Fraction(mt[9])) - io[9]) <= 1e-9


def _month_len(leap, mo):
    return calendar.monthrange(2016 if leap else 2017, mo)[1]


def _moy_of(leap, mo, da, h, mi):
    year = 2016 if leap else 2017
    return int((datetime(year, mo, da, h, mi) - datetime(year, 1, 1)).total_seconds() // 60)


def _ref_step(ref, op):
    """Reference semantics of one step on the public state (leap, moy), from the statement and the
    stdlib calendar only.  Returns ('in', new_ref) when the property determines the result,
    ('out', ref) when it does not (refused or outside the statement: the result is discarded)."""
    leap, moy = ref
    t = op[0]
    if t == 'fm':
        l, m = bool(op[1]), op[2]
        if isinstance(m, int) and 0 <= m < _year_minutes(l):
            return 'in', (l, m)
        return 'out', ref
    if t == 'fh':
        l = bool(op[1])
        x = Fraction(op[2]) * 60
        n = (x + Fraction(1, 2)).__floor__()
        if abs(x - n) > Fraction(1, 2) - Fraction(1, 10 ** 6):      # too close to a tie
            return 'out', ref
        if 0 <= n < _year_minutes(l):
            return 'in', (l, n)
        return 'out', ref
    if t == 'fd':
        l, k = bool(op[1]), op[2]
        if 1 <= k <= (366 if l else 365):
            return 'in', (l, (k - 1) * 1440 + moy % 1440)
        return 'out', ref
    if t == 'mk':
        l, mo, da, h, mi = bool(op[1]), op[2], op[3], op[4], op[5]
        if 1 <= mo <= 12 and 1 <= da <= _month_len(l, mo) and 0 <= h <= 23 and 0 <= mi <= 59:
            return 'in', (l, _moy_of(l, mo, da, h, mi))
        return 'out', ref
    if t in ('am', 'sm', 'ah', 'sh'):
        k = Fraction(op[1]) * (60 if t in ('ah', 'sh') else 1)
        if k.denominator != 1:
            return 'out', ref
        k = int(k) if t in ('am', 'ah') else -int(k)
        if 0 <= moy + k < _year_minutes(leap):
            return 'in', (leap, moy + k)
        return 'out', ref
    if t == 'sl':
        l = bool(op[1])
        r = _ref(leap, moy)
        if r.day <= _month_len(l, r.month):
            return 'in', (l, _moy_of(l, r.month, r.day, r.hour, r.minute))
        return 'out', ref
    if t == 'md':
        if 0 <= op[1] < 1440:
            return 'in', (leap, moy // 1440 * 1440 + op[1])
        return 'out', ref
    if t in ('via', 'rd'):
        return 'in', ref
    raise ValueError('unknown history op %r' % (op,))


def _expected_obs(ref):
    leap, moy = ref
    r = _ref(leap, moy)
    return (r.month, r.day, r.hour, r.minute, leap, moy // 1440 + 1, moy // 60, moy)


def _check_history(mod, ops):
    """The statement of C08 along a history: after every step the current date-time reads as the
    stdlib calendar says for the state the caller has established; refused calls change nothing."""
    cur = mod.DateTime()
    ref = (False, 0)
    refused = 0
    for i, op in enumerate(ops):
        dom, new = _ref_step(ref, op)
        sig = {'kind': 'history', 'step': op[0], 'leap': bool(new[0])}
        try:
            res = _apply_op(mod, cur, op)
        except _ReadImpure as e:
            return {'required': 'two reads of the same date-time agree', 'observed': str(e),
                    'sig': dict(sig, what='read'), 'at': i}
        except Exception as e:
            if dom == 'out':
                refused += 1
                continue
            return {'required': _expected_obs(new), 'observed': 'raises %s: %s' % (type(e).__name__, str(e)[:80]),
                    'sig': dict(sig, what='raises'), 'at': i, 'after_refused': refused}
        if dom == 'out':
            continue                      # the statement does not determine it: discarded
        want = _expected_obs(new)
        got = _obs(res)
        if got != want or type(res) is not mod.DateTime:
            return {'required': want, 'observed': got, 'sig': dict(sig, what='value'), 'at': i,
                    'after_refused': refused}
        if abs(res.hoy - new[1] / 60.0) > 1e-9:
            return {'required': new[1] / 60.0, 'observed': res.hoy, 'sig': dict(sig, what='hoy'), 'at': i}
        if op[0] in ('via', 'rd') and not (res == cur and hash(res) == hash(cur)):
            return {'required': 'equal to %s' % (cur,), 'observed': str(res), 'sig': dict(sig, what='equal'),
                    'at': i}
        cur, ref = res, new
    return None


def _history_result(ops):
    if _WORKER:
        return _check_history(_real_dt(), ops)
    with _FreshDt() as mod:
        return _check_history(mod, ops)


def _shrink_history(ops, fails):
    """Greedy removal of steps while `fails(ops)` stays true (each trial on a new module instance)."""
    ops = list(ops)
    i = len(ops) - 1
    budget = 200
    while i >= 0 and budget > 0:
        trial = ops[:i] + ops[i + 1:]
        budget -= 1
        if trial and fails(trial):
            ops = trial
        i -= 1
    return ops


_HOURS = (0.0, 0.25, 0.5, 0.75, 1.0, 1.5, 2.0, 6.0, 12.0, 23.75, 24.0, 24.25, 48.0, 100.5, 720.0, 744.0)


def _gen_history(rng, length, wild=False, count=None):
    """A history as a JSON-able op list.  Built from plain numbers and a private reference state
    (never calls the code under test).  `wild` adds inputs outside the statement (negative band,
    minute carries, fractional hours, near-ties) that only the model correspondence can judge."""
    ref = (False, 0)
    ops = []

    def cnt(k):
        if count is not None:
            count('hist:' + k)

    def target(l):
        n = _year_minutes(l)
        r = rng.random()
        if r < 0.35:
            cnt('target-boundary')
            return rng.choice([m for m in _boundary_moys(l) if 0 <= m < n])
        if r < 0.70:
            cnt('target-near-current')
            return min(n - 1, max(0, ref[1] + rng.choice([-1, 1]) * rng.choice([0, 1, 59, 60, 1439, 1440, 1441,
                                                                                 rng.randrange(4320)])))
        if l and r < 0.78:
            cnt('target-leap-only-31dec')
            return rng.randrange(525600, 527040)
        cnt('target-random')
        return rng.randrange(n)

    while len(ops) < length:
        leap = ref[0]
        if ops and rng.random() < 0.06:
            # the same question to the two twins of one date (leap / non-leap) and to one date-time twice
            q = rng.choice([['via', rng.choice(_VIAS)], ['rd', rng.randrange(10)], ['am', 0], ['sh', 0.0],
                            ['md', ref[1] % 1440], ['fd', int(leap), ref[1] // 1440 + 1]])
            mid = rng.choice([['sl', int(not leap)], ['sl', int(not leap)], list(q), ['fm', int(not leap), ref[1]]])
            for op in (q, mid, [q[0], int(bool(mid[1])), q[2]] if q[0] == 'fd' and mid[0] != q[0] else list(q)):
                ops.append(op)
                cnt('op-' + op[0])
                dom, ref = _ref_step(ref, op)
            cnt('twin-triple')
            continue
        l = (not leap) if rng.random() < 0.35 else leap
        n = _year_minutes(l)
        r = rng.random()
        if r < 0.16:                                   # refused calls (the code raises)
            kind = rng.randrange(7)
            cnt('refused')
            if kind == 0:
                op = ['fm', int(l), rng.choice([n, n + 1, n + 1439, n + 1440, 2 * n, 10 ** 7, -1440, -1441, -n])]
            elif kind == 1:
                op = ['fd', int(l), rng.choice([0, -1, (366 if l else 365) + 1, 367, 400, 1000])]
            elif kind == 2:
                op = ['mk', int(l)] + list(rng.choice([(2, 30, 0, 0), (2, 29 if not l else 30, 12, 0), (4, 31, 0, 0),
                                                       (13, 1, 0, 0), (0, 1, 0, 0), (1, 0, 0, 0), (1, 32, 0, 0),
                                                       (6, 15, 24, 0), (6, 15, 23, 60), (12, 31, 25, 0)]))
            elif kind == 3:
                nn = _year_minutes(leap)
                op = ['am', rng.choice([nn - ref[1], nn - ref[1] + 1, nn, 2 * nn, -ref[1] - 1440, -ref[1] - 1441, -2 * nn])]
            elif kind == 4:
                nn = _year_minutes(leap)
                op = ['sm', rng.choice([ref[1] + 1440, ref[1] + 1441, nn, -(nn - ref[1]), -(nn - ref[1]) - 1])]
            elif kind == 5:
                nn = _year_minutes(leap)
                op = [rng.choice(['ah', 'sh']), float(rng.choice([8784, 9000, 20000]))]
                if op[0] == 'sh' and ref[1] // 60 + 24 > op[1]:
                    op[1] = float(ref[1] // 60 + 25)
            else:
                op = ['md', rng.choice([1440, 1441, 1500, 2000])]
        elif r < 0.34:
            m = target(l)
            if rng.random() < 0.08:
                m = rng.choice([0, n - 1])
                cnt('year-edge')
            op = ['fm', int(l), m]
        elif r < 0.46:
            m = target(l)
            rr = rng.random()
            if rr < 0.4:
                h = m / 60.0
            elif rr < 0.75:                            # arbitrary resolution, clear of the .5 tie
                h = (m + rng.choice([0.4999, -0.4999, 0.499, -0.499, 0.25, -0.25, 0.01, rng.uniform(-0.49, 0.49)])) / 60.0
                cnt('hoy-fraction')
            else:                                      # last half minute before a full hour / midnight
                base = m - m % 60 + 60 if rng.random() < 0.5 else m - m % 1440 + 1440
                h = (base - rng.choice([0.4999, 0.49, 0.3, 0.01, 1e-7])) / 60.0
                cnt('hoy-last-half-minute')
            if wild and rng.random() < 0.15:
                h = (m + rng.choice([0.5, -0.5, 0.5000001, 0.4999999])) / 60.0
            if rng.random() < 0.05:
                h = rng.choice([0.0, -0.0, 0, 1e-12])
            op = ['fh', int(l), h]
        elif r < 0.54:
            days = 366 if l else 365
            k = rng.choice([1, 31, 32, 59, 60, 61, 90, 91, 92, 365, days, days - 1, rng.randrange(1, days + 1),
                            min(days, max(1, ref[1] // 1440 + 1 + rng.choice([-1, 0, 1])))])
            op = ['fd', int(l), k]
        elif r < 0.60:
            mo = rng.randrange(1, 13)
            da = rng.choice([1, 28, _month_len(l, mo), rng.randrange(1, _month_len(l, mo) + 1)])
            if l and rng.random() < 0.2:
                mo, da = 2, 29
            h, mi = rng.choice([(0, 0), (23, 59), (12, 30), (rng.randrange(24), rng.randrange(60))])
            if wild and rng.random() < 0.3:
                h, mi = rng.choice([(23, 60), (5, 61), (22, 120), (0, 199), (24, 0)])
            op = ['mk', int(l), mo, da, h, mi]
        elif r < 0.74:
            nn = _year_minutes(leap)
            t = target(leap)
            k = t - ref[1]
            rr = rng.random()
            if rr < 0.1:
                k = 0
                cnt('offset-zero')
            elif rr < 0.2:
                k = rng.choice([-ref[1], nn - 1 - ref[1]])          # exactly onto the first / last minute
                cnt('offset-to-year-edge')
            if wild and rng.random() < 0.1:
                k = -ref[1] - rng.randrange(1, 1440)                 # negative band (outside the statement)
            op = ['am', k] if rng.random() < 0.5 else ['sm', -k]
        elif r < 0.82:
            nn = _year_minutes(leap)
            h = rng.choice(_HOURS) * rng.choice([1, -1])
            if wild and rng.random() < 0.3:
                h = rng.choice([0.1, 2.05, -2.05, 1 / 3.0, 0.004, rng.uniform(-30, 30)])
            if not 0 <= ref[1] + h * 60 < nn:
                h = -h
            op = [rng.choice(['ah', 'sh']), float(h)]
        elif r < 0.87:
            op = ['sl', int(not leap) if rng.random() < 0.7 else int(leap)]
            cnt('switch-leap-flag')
        elif r < 0.90:
            op = ['md', rng.choice([0, 1, 59, 60, 61, 719, 720, 1380, 1439, rng.randrange(1440)])]
        elif r < 0.96:
            op = ['via', rng.choice(_VIAS)]
        else:
            op = ['rd', rng.randrange(10)]
        ops.append(op)
        cnt('op-' + op[0])
        dom, ref = _ref_step(ref, op)
        if dom == 'in' and ref[0]:
            r0 = _ref(*ref)
            if (r0.month, r0.day) == (2, 29):
                cnt('on-29-feb')
    return ops


# -- process order: the same oracle cases in fresh interpreters, in different orders


def _worker_main():
    """Entry of a process-order subprocess: reads {"order": [[op, inp], ...]} on stdin, evaluates the
    cases in that order on the real module of this (new) process, prints the failures as JSON."""
    global _WORKER
    _WORKER = True
    sys.path.insert(0, core.REPO)
    order = json.load(sys.stdin)['order']
    fails = []
    for i, (op, inp) in enumerate(order):
        try:
            res = check_case(op, inp)
        except Exception as e:
            res = {'required': 'oracle evaluates', 'observed': 'exception %s: %s' % (type(e).__name__, e),
                   'sig': {'exception': type(e).__name__}}
        if res:
            fails.append({'index': i, 'op': op, 'input': inp, 'required': res.get('required'),
                          'observed': res.get('observed'), 'sig': res.get('sig')})
            if len(fails) >= 5:
                break
    json.dump({'fails': fails, 'n': len(order)}, sys.stdout, default=str)


def _spawn_order(order):
    code = ('import sys; sys.path.insert(0, %r); from harness.props import c08; c08._worker_main()' % core.ROOT)
    env = dict(os.environ, LADYBUG_REPO=core.REPO, PYTHONDONTWRITEBYTECODE='1')
    return subprocess.Popen([sys.executable, '-c', code], stdin=subprocess.PIPE, stdout=subprocess.PIPE,
                            stderr=subprocess.PIPE, env=env)


def _finish_order(p, order):
    out, err = p.communicate(json.dumps({'order': order}).encode('utf-8'), timeout=900)
    if p.returncode != 0:
        # a changed implementation may break the interpreter start-up itself: a result, not a crash
        return [{'index': 0, 'op': 'import', 'input': {}, 'required': 'process runs',
                 'observed': err.decode('utf-8', 'replace')[-300:], 'sig': {'exception': 'worker'}}]
    return json.loads(out.decode('utf-8'))['fails']


def _run_order(order):
    return _finish_order(_spawn_order(order), order)


def _shrink_order(order, first_fail, budget=14):
    """Cut the order down to a short list that still fails in a fresh process."""
    idx = first_fail['index']
    failing = order[idx]
    prefix = order[:idx]

    def still(pre):
        fs = _run_order(pre + [failing])
        return bool(fs) and fs[0]['index'] == len(pre)

    if budget > 0 and still([]):
        return [failing]                     # not a matter of order at all
    budget -= 1
    chunk = max(1, len(prefix) // 2)
    while budget > 0 and prefix:
        removed = False
        i = 0
        while i < len(prefix) and budget > 0:
            trial = prefix[:i] + prefix[i + chunk:]
            budget -= 1
            if still(trial):
                prefix = trial
                removed = True
            else:
                i += chunk
        if chunk == 1 and not removed:
            break
        chunk = max(1, chunk // 2)
    return prefix + [failing]


def _is_rare_first(case):
    op, inp = case
    refusing = op == 'reject' or (op == 'history' and any(_ref_step((False, 0), o)[0] == 'out'
                                                          for o in inp['ops'][:1]))
    leap = bool(inp.get('leap')) or (op == 'history' and bool(inp['ops']) and inp['ops'][0][0] in
                                     ('fm', 'fh', 'fd', 'mk') and bool(inp['ops'][0][1]))
    return (0 if refusing else 1, 0 if leap else 1)


def _process_orders(ctx, pool):
    """2-4 fresh interpreters, each evaluating `pool` in another seeded order."""
    rng = ctx.rng
    nproc = 4 if (ctx.searching or not ctx.quick) else 3
    orders = []
    for w in range(nproc):
        o = list(pool)
        rng.shuffle(o)
        if w == 0:          # failing calls first, leap before non-leap
            o.sort(key=_is_rare_first)
            ctx.count('order:rare-first')
        elif w == 1:        # non-leap first, then a block of failing calls, then the leap cases
            o.sort(key=lambda c: (1 - _is_rare_first(c)[1], _is_rare_first(c)[0]))
            ctx.count('order:plain-first')
        else:
            ctx.count('order:shuffled')
        orders.append(o)
    procs = [(_spawn_order(o), o) for o in orders]
    for p, o in procs:
        fs = _finish_order(p, o)
        ctx.count('process-order-runs')
        ctx.count('process-order-cases', len(o))
        ctx.case(('process_order', len(ctx.distinct)))
        if fs and len(ctx.failures) < 200:
            f = fs[0]
            small = _shrink_order(o, f) if f['op'] != 'import' else []
            if len(small) == 1 and small[0][0] == 'history':
                # not a matter of order: report the (shrunk) history itself
                ops = small[0][1]['ops']
                res = _history_result(ops)
                if res:
                    ops = _shrink_history(ops[:res['at'] + 1], lambda t, sg=res['sig']: (
                        lambda r: r is not None and r['sig'] == sg)(_history_result(t)))
                    res = _history_result(ops) or res
                    ctx.fail('history', {'ops': ops}, res['required'], res['observed'], res['sig'])
                    continue
            sig = dict(f.get('sig') or {})
            sig.update({'kind': 'process_order', 'at': f['op'], 'order_dependent': len(small) > 1})
            ctx.fail('process_order', {'order': small, 'failing_case': [f['op'], f['input']]},
                     f['required'], f['observed'], sig)


def correspondence(ctx):
    from ladybug.dt import DateTime, Date, Time
    rng = ctx.rng

    # --- from_moy
    cases = []
    for leap in (False, True):
        for m in _boundary_moys(leap):
            cases.append((leap, m))
        if ctx.quick:
            for _ in range(10000):
                cases.append((leap, rng.randrange(_year_minutes(leap))))
        else:
            for m in range(-1500, _year_minutes(leap) + 1500):
                cases.append((leap, m))
    compare_batch(ctx, 'from_moy', cases, lambda c: 'from_moy %s %d' % (_b(c[0]), c[1]),
                  lambda c: _show_dt(DateTime.from_moy(c[1], c[0])))

    # --- from_hoy on float hours (the driver forms the IEEE product hoy * 60 itself)
    cases = []
    for leap in (False, True):
        ms = [rng.randrange(_year_minutes(leap)) for _ in range(ctx.n(3000, 60000))]
        ms += [m for m in _boundary_moys(leap) if 0 <= m < _year_minutes(leap)]
        for m in ms:
            base = m / 60.0
            for eps in (0.0, 1e-9, -1e-9, 0.5 / 60, -0.5 / 60, 0.49 / 60, 1e-13):
                h = base + eps
                if 0 <= h:
                    cases.append((leap, h))
            cases.append((leap, rng.random() * (_year_minutes(leap) / 60.0)))
    compare_batch(ctx, 'from_hoy', cases, lambda c: 'from_hoy %s %s' % (_b(c[0]), _fbits(c[1])),
                  lambda c: _show_dt(DateTime.from_hoy(c[1], c[0])), key=lambda c: (c[0], repr(c[1])))

    # --- from_doy
    cases = [(leap, k) for leap in (False, True) for k in range(-3, 370)]
    compare_batch(ctx, 'from_doy', cases, lambda c: 'from_doy %s %d' % (_b(c[0]), c[1]),
                  lambda c: _show_d(Date.from_doy(c[1], c[0])))

    # --- constructor normalisation: all (hour, minute) pairs incl. carries and rejections
    cases = [(h, m) for h in range(0, 31) for m in range(0, 201)]
    compare_batch(ctx, 'norm_hm', cases, lambda c: 'norm_hm %d %d' % c,
                  lambda c: 'ok %d %d' % Time._calculate_hour_and_minute(c[0] + c[1] / 60.0))
    compare_batch(ctx, 'time_make', cases, lambda c: 'time_make %d %d' % c,
                  lambda c: _show_t(Time(c[0], c[1])))
    cases = [m for m in range(0, 1500)]
    compare_batch(ctx, 'from_mod', cases, lambda c: 'from_mod %d' % c, lambda c: _show_t(Time.from_mod(c)))
    cases = []
    for leap in (False, True):
        for mo in range(0, 14):
            for da in (0, 1, 28, 29, 30, 31, 32):
                for h, mi in ((0, 0), (23, 59), (23, 60), (24, 0), (5, 61), (12, 30)):
                    cases.append((leap, mo, da, h, mi))
    compare_batch(ctx, 'make', cases, lambda c: 'make %s %d %d %d %d' % ((_b(c[0]),) + tuple(c[1:])),
                  lambda c: _show_dt(DateTime(c[1], c[2], c[3], c[4], c[0])))
    cases = [(leap, mo, da) for leap in (False, True) for mo in range(-1, 14) for da in range(-1, 33)]
    compare_batch(ctx, 'date_make', cases, lambda c: 'date_make %s %d %d' % (_b(c[0]), c[1], c[2]),
                  lambda c: _show_d(Date(c[1], c[2], c[0])))

    # --- offsets
    cases = []
    for _ in range(ctx.n(3000, 60000)):
        d = _rand_dt(rng)
        n = _year_minutes(d.leap_year)
        r = rng.random()
        if r < 0.6:
            k = rng.randrange(-d.moy, n - d.moy)          # stays inside the year
        elif r < 0.8:
            k = rng.choice([-d.moy - 1, n - d.moy, -d.moy, n - d.moy - 1])   # edges
        else:
            k = rng.randrange(-2 * n, 2 * n)
        cases.append((d.leap_year, d.month, d.day, d.hour, d.minute, k))
    fmt = '%s %s %d %d %d %d %d'
    compare_batch(ctx, 'add_minute', cases, lambda c: fmt % (('add_minute', _b(c[0])) + tuple(c[1:])),
                  lambda c: _show_dt(DateTime(c[1], c[2], c[3], c[4], c[0]).add_minute(c[5])))
    compare_batch(ctx, 'sub_minute', cases, lambda c: fmt % (('sub_minute', _b(c[0])) + tuple(c[1:])),
                  lambda c: _show_dt(DateTime(c[1], c[2], c[3], c[4], c[0]).sub_minute(c[5])))
    hcases = []
    for c in cases[:len(cases) // 2]:
        h = rng.choice([c[5] / 60.0, round(c[5] / 60.0), c[5] / 60.0 + 0.004, rng.uniform(-30, 30)])
        hcases.append(c[:5] + (float(h),))
    hfmt = '%s %s %d %d %d %d %s'
    compare_batch(ctx, 'add_hour', hcases,
                  lambda c: hfmt % (('add_hour', _b(c[0])) + tuple(c[1:5]) + (_fbits(c[5]),)),
                  lambda c: _show_dt(DateTime(c[1], c[2], c[3], c[4], c[0]).add_hour(c[5])),
                  key=lambda c: (c[:5], repr(c[5])))
    compare_batch(ctx, 'sub_hour', hcases,
                  lambda c: hfmt % (('sub_hour', _b(c[0])) + tuple(c[1:5]) + (_fbits(c[5]),)),
                  lambda c: _show_dt(DateTime(c[1], c[2], c[3], c[4], c[0]).sub_hour(c[5])),
                  key=lambda c: (c[:5], repr(c[5])))

    # --- serial forms
    dts = [_rand_dt(rng) for _ in range(ctx.n(1500, 20000))]
    cs = [(d.leap_year, d.month, d.day, d.hour, d.minute) for d in dts]
    f5 = '%s %s %d %d %d %d'

    def mk(c):
        return DateTime(c[1], c[2], c[3], c[4], c[0])

    compare_batch(ctx, 'to_array', cs, lambda c: f5 % (('to_array', _b(c[0])) + tuple(c[1:])),
                  lambda c: 'ok ' + ' '.join(str(int(x)) for x in mk(c).to_array()))
    compare_batch(ctx, 'from_array', cs,
                  lambda c: 'from_array ' + ' '.join(str(int(x)) for x in mk(c).to_array()),
                  lambda c: _show_dt(DateTime.from_array(mk(c).to_array())))

    def show_kv(dct):
        order = ['month', 'day', 'hour', 'minute', 'leap_year']
        return 'ok ' + ' '.join('%s=%d' % (k, int(dct[k])) for k in order if k in dct)

    compare_batch(ctx, 'to_dict', cs, lambda c: f5 % (('to_dict', _b(c[0])) + tuple(c[1:])),
                  lambda c: show_kv(mk(c).to_dict()))
    # from_dict with shuffled keys and dropped optional keys
    dcases = []
    for c in cs:
        d = mk(c).to_dict()
        d.pop('type')
        keys = list(d.keys())
        rng.shuffle(keys)
        if rng.random() < 0.3:
            keys = [k for k in keys if rng.random() < 0.7]
        dcases.append([(k, int(d[k])) for k in keys])
    compare_batch(ctx, 'from_dict', dcases,
                  lambda c: 'from_dict ' + ' '.join('%s=%d' % kv for kv in c),
                  lambda c: _show_dt(DateTime.from_dict({k: (bool(v) if k == 'leap_year' else v) for k, v in c})),
                  key=lambda c: tuple(c))
    compare_batch(ctx, 'reduce', cs, lambda c: f5 % (('reduce', _b(c[0])) + tuple(c[1:])),
                  lambda c: _show_dt(pickle.loads(pickle.dumps(mk(c)))))
    compare_batch(ctx, 'str', cs, lambda c: f5 % (('str', _b(c[0])) + tuple(c[1:])),
                  lambda c: 'ok ' + str(mk(c)))
    pcases = [(c[0], str(mk(c))) for c in cs] + [(not c[0], str(mk(c))) for c in cs[:300]]
    pcases += [(l, s) for l in (False, True) for s in
               ('29 Feb 03:05', '30 Feb 00:00', '31 Apr 10:10', '00 Jan 00:00', '01 Foo 00:00', '01 Jan 24:00',
                '01 Jan 23:60', '31 Dec 23:59', '1 Jan 0:0')]
    compare_batch(ctx, 'parse', pcases, lambda c: 'parse %s %s' % (_b(c[0]), c[1]),
                  lambda c: _show_dt(DateTime.from_date_time_string(c[1], c[0])))
    dcs = sorted(set((c[0], c[1], c[2]) for c in cs))
    compare_batch(ctx, 'date_to_array', dcs, lambda c: 'date_to_array %s %d %d' % (_b(c[0]), c[1], c[2]),
                  lambda c: 'ok ' + ' '.join(str(int(x)) for x in Date(c[1], c[2], c[0]).to_array()))
    compare_batch(ctx, 'date_from_array', dcs,
                  lambda c: 'date_from_array ' + ' '.join(str(int(x)) for x in Date(c[1], c[2], c[0]).to_array()),
                  lambda c: _show_d(Date.from_array(Date(c[1], c[2], c[0]).to_array())))
    compare_batch(ctx, 'date_reduce', dcs, lambda c: 'date_reduce %s %d %d' % (_b(c[0]), c[1], c[2]),
                  lambda c: _show_d(copy.deepcopy(Date(c[1], c[2], c[0]))))

    # --- from_moy on float arguments (`int(moy)` truncates; from_hoy and add_hour rely on it)
    cases = []
    for leap in (False, True):
        ms = [m for m in _boundary_moys(leap) if -1 <= m <= _year_minutes(leap)]
        ms += [rng.randrange(_year_minutes(leap)) for _ in range(ctx.n(300, 5000))]
        for m in ms:
            for f in (0.0, 0.25, 0.5, 0.75, 0.9999, -0.25):
                cases.append((leap, float(m) + f))
    compare_batch(ctx, 'from_moy_f', cases, lambda c: 'from_moy_f %s %s' % (_b(c[0]), _fbits(c[1])),
                  lambda c: _show_dt(DateTime.from_moy(c[1], c[0])), key=lambda c: (c[0], repr(c[1])))

    # --- histories: one date-time variable, one module instance / one process, step by step
    hs = [_gen_history(rng, rng.randrange(6, 40), wild=True, count=ctx.count)
          for _ in range(ctx.n(500, 8000))]
    lines = ['hist ' + ' '.join(_op_token(o) for o in ops) for ops in hs]
    outs = ctx.driver().run(lines)
    real = _real_dt()
    for ops, mo in zip(hs, outs):
        msteps = mo.split(' | ')
        for where in ('instance', 'process'):
            if where == 'instance':
                with _FreshDt() as mod:
                    io = _run_history_impl(mod, ops)
            else:
                io = _run_history_impl(real, ops)       # state of the whole run so far behind it
            ctx.compared += len(ops)
            ctx.count('op:history-steps', len(ops))
            ctx.case(('history', where, lines[0] if False else json.dumps(ops)),
                     nontrivial=any(x[0] == 'ok' for x in io))
            bad = None
            if len(msteps) != len(io):
                bad = 0
            else:
                for i, (m1, i1) in enumerate(zip(msteps, io)):
                    if not _model_step_eq(m1, i1):
                        bad = i
                        break
            if bad is not None:
                ctx.disagree('history', {'ops': ops[:bad + 1], 'where': where, 'step': bad},
                             msteps[bad] if bad < len(msteps) else mo, repr(io[bad]))
    if hs:
        ctx.sample({'op': 'history', 'request': lines[0][:300], 'model': outs[0][:300]})

    # --- Py.lean helpers vs CPython (rationals are exact on both sides)
    rc = []
    for _ in range(ctx.n(3000, 100000)):
        den = rng.choice([1, 2, 3, 4, 5, 8, 10, 60, 100, 1000, rng.randrange(1, 10 ** 6)])
        num = rng.randrange(-10 ** 7, 10 ** 7)
        if rng.random() < 0.3:
            num = (2 * rng.randrange(-500, 500) + 1) * den // 2 if den % 2 == 0 else num   # ties
        rc.append((num, den))

    def py_round(c):
        return 'ok %d' % round(Fraction(c[0], c[1]))

    def py_trunc(c):
        return 'ok %d' % int(Fraction(c[0], c[1]))

    compare_batch(ctx, 'py_round', rc, lambda c: 'py_round %d/%d' % c, py_round)
    compare_batch(ctx, 'py_trunc', rc, lambda c: 'py_trunc %d/%d' % c, py_trunc)
    ic = [(rng.randrange(-10 ** 6, 10 ** 6), rng.choice([-7, -3, -1, 1, 2, 24, 60, 1440, rng.randrange(1, 5000)]))
          for _ in range(ctx.n(3000, 100000))]
    compare_batch(ctx, 'py_floordiv', ic, lambda c: 'py_floordiv %d %d' % c, lambda c: 'ok %d' % (c[0] // c[1]))
    compare_batch(ctx, 'py_mod', ic, lambda c: 'py_mod %d %d' % c, lambda c: 'ok %d' % (c[0] % c[1]))
    fc = [rng.uniform(-1e6, 1e6) for _ in range(ctx.n(2000, 50000))] + [0.1, 0.5, 1e-300, 5e-324, 2.0 ** 60, -0.0]

    def show_rat(x):
        fr = Fraction(x)
        return 'ok %d' % fr.numerator if fr.denominator == 1 else 'ok %d/%d' % (fr.numerator, fr.denominator)

    compare_batch(ctx, 'py_float', fc, lambda c: 'py_float ' + _fbits(c), show_rat, key=repr)

    # float hour normalisation is modelled as exact: round-trip hoy of the model vs float hoy
    hc = cs[:500]
    outs = ctx.driver().run([f5 % (('hoy', _b(c[0])) + tuple(c[1:])) for c in hc])
    for c, o in zip(hc, outs):
        ctx.compared += 1
        want = Fraction(o[3:]) if o.startswith('ok ') else None
        got = mk(c).hoy
        if want is None or abs(float(want) - got) > 1e-9:
            ctx.disagree('hoy', list(c), o, repr(got))


# ---------------------------------------------------------------------------------------------
# property oracle: the statement of C08 evaluated on the real classes, independent of the model


def _ref(leap, moy):
    year = 2016 if leap else 2017
    return datetime(year, 1, 1) + timedelta(minutes=moy)


def check_case(op, inp):
    from ladybug.dt import DateTime, Date, Time
    leap = bool(inp.get('leap', False))
    sig = {'leap': leap}
    if op == 'moy_roundtrip':
        m = inp['moy']
        d = DateTime.from_moy(m, leap)
        r = _ref(leap, m)
        got = (d.month, d.day, d.hour, d.minute, d.leap_year, d.moy, d.doy, d.int_hoy)
        want = (r.month, r.day, r.hour, r.minute, leap, m, m // 1440 + 1, m // 60)
        if got != want:
            return {'required': want, 'observed': got, 'sig': sig}
        if abs(d.hoy - m / 60.0) > 1e-9:
            return {'required': m / 60.0, 'observed': d.hoy, 'sig': sig}
        return None
    if op == 'hoy_roundtrip':
        m = inp['moy']
        d = DateTime.from_hoy(m / 60.0, leap)
        if d.moy != m or d != DateTime.from_moy(m, leap):
            return {'required': m, 'observed': d.moy, 'sig': sig}
        return None
    if op == 'doy_roundtrip':
        k = inp['doy']
        d = Date.from_doy(k, leap)
        r = date(2016 if leap else 2017, 1, 1) + timedelta(days=k - 1)
        if (d.month, d.day, d.doy, d.leap_year) != (r.month, r.day, k, leap):
            return {'required': (r.month, r.day, k, leap), 'observed': (d.month, d.day, d.doy, d.leap_year),
                    'sig': sig}
        return None
    if op == 'reject':
        what, v = inp['what'], inp['value']
        try:
            if what == 'moy':
                r = DateTime.from_moy(v, leap)
            elif what == 'make':           # a date that does not exist cannot come back as that date
                r = DateTime(v[0], v[1], v[2], v[3], leap)
            elif what == 'date':
                r = Date(v[0], v[1], leap)
            else:
                r = Date.from_doy(v, leap)
        except ValueError:
            return None
        except Exception as e:
            return None if isinstance(e, (IndexError,)) else {
                'required': 'ValueError', 'observed': repr(e), 'sig': dict(sig, what=what)}
        return {'required': 'rejected', 'observed': str(r), 'sig': dict(sig, what=what)}
    if op == 'order':
        a, b = inp['a'], inp['b']
        da, db = DateTime.from_moy(a, leap), DateTime.from_moy(b, leap)
        if (a < b) != (da < db) or (a == b) != (da == db) or (a <= b) != (da <= db) or \
                (a > b) != (da > db) or (a != b) != (da != db) or (a == b) != (hash(da) == hash(db)):
            return {'required': 'order of %d,%d' % (a, b), 'observed': '%s vs %s' % (da, db), 'sig': sig}
        return None
    if op == 'add_sub':
        d0 = DateTime.from_moy(inp['moy'], leap)
        k = inp['k']
        if inp.get('unit') == 'hour':
            fwd = d0.add_hour(k)
            k60 = Fraction(k) * 60
            if k60.denominator == 1 and fwd.moy != inp['moy'] + int(k60):
                return {'required': inp['moy'] + int(k60), 'observed': fwd.moy, 'sig': dict(sig, unit='hour')}
            back = fwd.sub_hour(k)
        else:
            fwd = d0.add_minute(k)
            if fwd.moy != inp['moy'] + k:
                return {'required': inp['moy'] + k, 'observed': fwd.moy, 'sig': dict(sig, unit='minute')}
            back = fwd.sub_minute(k)
        if back != d0 or back.leap_year != leap:
            return {'required': str(d0), 'observed': str(back), 'sig': dict(sig, unit=inp.get('unit', 'minute'))}
        return None
    if op == 'serial':
        d = DateTime.from_moy(inp['moy'], leap)
        forms = {
            'array': lambda x: type(x).from_array(x.to_array()),
            'dict': lambda x: type(x).from_dict(json.loads(json.dumps(x.to_dict()))),
            'pickle': lambda x: pickle.loads(pickle.dumps(x)),
            'pickle0': lambda x: pickle.loads(pickle.dumps(x, 0)),
            'pickle1': lambda x: pickle.loads(pickle.dumps(x, 1)),
            'pickle2': lambda x: pickle.loads(pickle.dumps(x, 2)),
            'pickle5': lambda x: pickle.loads(pickle.dumps(x, 5)),
            'copy': lambda x: copy.copy(x),
            'deepcopy': lambda x: copy.deepcopy(x),
        }
        objs = {'DateTime': d, 'Date': d.date, 'Time': d.time}
        for cname, obj in objs.items():
            for fname, f in forms.items():
                try:
                    back = f(obj)
                    ok = back == obj and type(back) is type(obj) and \
                        getattr(back, 'leap_year', None) == getattr(obj, 'leap_year', None)
                    obs = str(back)
                except Exception as e:
                    ok, obs = False, 'raises %s' % type(e).__name__
                if not ok:
                    return {'required': str(obj), 'observed': obs,
                            'sig': dict(sig, form=fname, cls=cname)}
        try:
            back = DateTime.from_date_and_time(d.date, d.time)
            ok, obs = back == d and back.leap_year == leap, str(back)
        except Exception as e:
            ok, obs = False, 'raises %s' % type(e).__name__
        if not ok:
            return {'required': str(d), 'observed': obs, 'sig': dict(sig, form='date_and_time', cls='DateTime')}
        text = {
            'DateTime': lambda x: DateTime.from_date_time_string(str(x), leap),
            'Date': lambda x: Date.from_date_string(str(x), leap),
            'Time': lambda x: Time.from_time_string(str(x)),
        }
        for cname, obj in objs.items():
            try:
                back = text[cname](obj)
                ok = back == obj
                obs = str(back)
            except Exception as e:
                ok, obs = False, 'raises %s' % type(e).__name__
            if not ok:
                return {'required': str(obj), 'observed': obs, 'sig': dict(sig, form='text', cls=cname)}
        return None
    if op == 'hoy_float':
        h = inp['hoy']
        x = Fraction(h) * 60
        n = (x + Fraction(1, 2)).__floor__()
        cands = {n}
        if abs(x - n) > Fraction(1, 2) - Fraction(1, 10 ** 6):      # within 1e-6 of a tie: either neighbour
            cands = {x.__floor__(), x.__floor__() + 1}
        if not all(0 <= c < _year_minutes(leap) for c in cands):
            return None                                             # nearest minute outside the year: not judged
        sig = dict(sig, frac='grid' if x == n else ('down' if x > n else 'up'),
                   midnight=bool(n % 1440 == 0 and x < n))
        try:
            d = DateTime.from_hoy(h, leap)
        except Exception as e:
            return {'required': 'the date-time of minute %d' % n, 'observed': 'raises %s: %s' % (
                type(e).__name__, str(e)[:60]), 'sig': dict(sig, what='raises')}
        if d.moy not in cands:
            return {'required': sorted(cands), 'observed': d.moy, 'sig': dict(sig, what='minute')}
        r = _ref(leap, d.moy)
        got = (d.month, d.day, d.hour, d.minute, d.leap_year, d.doy, d.int_hoy)
        want = (r.month, r.day, r.hour, r.minute, leap, d.moy // 1440 + 1, d.moy // 60)
        if got != want:
            return {'required': want, 'observed': got, 'sig': dict(sig, what='fields')}
        return None
    if op == 'history':
        return _history_result(inp['ops'])
    if op == 'process_order':
        fs = _run_order([tuple(c) for c in inp['order']])
        if not fs:
            return None
        f = fs[0]
        sig = dict(f.get('sig') or {})
        sig.update({'kind': 'process_order', 'at': f['op']})
        return {'required': f['required'], 'observed': 'case %d of the order (%s %s): %s' % (
            f['index'], f['op'], json.dumps(f['input'])[:200], f['observed']), 'sig': sig}
    raise ValueError('unknown op ' + op)


replay = check_case


def _hoy_float_cases(ctx, leap, count):
    """Float hours at arbitrary resolution, by stratum (built from plain numbers)."""
    rng = ctx.rng
    n = _year_minutes(leap)
    bm = [m for m in _boundary_moys(leap) if 0 <= m < n]
    for _ in range(count):
        r = rng.random()
        m = rng.choice(bm) if rng.random() < 0.4 else rng.randrange(n)
        if r < 0.25:        # last half minute before midnight / before a full hour (carry into hour, day, month)
            base = (m // 1440 + 1) * 1440 if rng.random() < 0.6 else (m // 60 + 1) * 60
            h = (base - rng.choice([0.4999, 0.499, 0.45, 0.3, 0.1, 0.01, 1e-6])) / 60.0
            ctx.count('hoy:last-half-minute')
        elif r < 0.45:      # just below / above the half-minute tie
            h = (m + 0.5 + rng.choice([-1, 1]) * rng.choice([1e-4, 1e-3, 0.01])) / 60.0
            ctx.count('hoy:near-tie')
        elif r < 0.65:      # sub-minute resolution
            h = (m + rng.uniform(-0.499, 0.499)) / 60.0
            ctx.count('hoy:sub-minute')
        elif r < 0.75:      # minute grid written with few decimals (as people type it)
            h = float('%.4f' % (m / 60.0))
            ctx.count('hoy:4-decimals')
        elif r < 0.80:
            h = rng.choice([0.0, -0.0, 0, 1e-12, 1e-9, 0.008, 1 / 120.0 - 1e-9])
            ctx.count('hoy:zero')
        elif r < 0.85:
            h = m // 60                     # an int, not a float
            ctx.count('hoy:int')
        else:
            h = rng.random() * (n / 60.0)
            ctx.count('hoy:uniform')
        yield 'hoy_float', {'leap': leap, 'hoy': h}


_BAD_DATES = [(2, 30), (2, 31), (4, 31), (6, 31), (9, 31), (11, 31), (13, 1), (0, 1), (1, 0), (1, 32)]


def _oracle_cases(ctx):
    rng = ctx.rng
    big = ctx.searching or not ctx.quick
    for leap in (False, True):
        n = _year_minutes(leap)
        moys = [m for m in _boundary_moys(leap) if 0 <= m < n]
        if ctx.searching or not ctx.quick:
            moys = range(n)                               # exhaustive
        else:
            moys = moys + [rng.randrange(n) for _ in range(4000)]
        for m in moys:
            yield 'moy_roundtrip', {'leap': leap, 'moy': m}
        hm = moys if not isinstance(moys, range) else range(0, n, 1 if not ctx.quick else 7)
        for m in hm:
            yield 'hoy_roundtrip', {'leap': leap, 'moy': m}
        for c in _hoy_float_cases(ctx, leap, 4000 if not big else 60000):
            yield c
        for k in range(1, (366 if leap else 365) + 1):
            yield 'doy_roundtrip', {'leap': leap, 'doy': k}
        for v in (n, n + 1, n + 1440, 2 * n, 10 ** 8):
            yield 'reject', {'leap': leap, 'what': 'moy', 'value': v}
        for v in (0, -1, (366 if leap else 365) + 1, 400, 1000):
            yield 'reject', {'leap': leap, 'what': 'doy', 'value': v}
        for mo, da in _BAD_DATES + ([] if leap else [(2, 29)]):
            yield 'reject', {'leap': leap, 'what': 'make', 'value': [mo, da, 12, 0]}
            yield 'reject', {'leap': leap, 'what': 'date', 'value': [mo, da]}
        bm = [m for m in _boundary_moys(leap) if 0 <= m < n]
        for _ in range(3000 if not big else 30000):
            a = rng.choice(bm) if rng.random() < 0.5 else rng.randrange(n)
            b = rng.choice(bm) if rng.random() < 0.5 else rng.randrange(n)
            if rng.random() < 0.1:
                b = a
            yield 'order', {'leap': leap, 'a': a, 'b': b}
        for _ in range(3000 if not big else 30000):
            m = rng.choice(bm) if rng.random() < 0.4 else rng.randrange(n)
            r = rng.random()
            if r < 0.08:
                k = 0
                ctx.count('add_sub:zero-offset')
            elif r < 0.16:
                k = rng.choice([-m, n - 1 - m])            # lands exactly on the first / last minute
                ctx.count('add_sub:to-year-edge')
            elif leap and r < 0.30:                        # the part of the leap year a normal year lacks
                if rng.random() < 0.5:
                    m = rng.randrange(525600, n)
                    k = rng.randrange(-m, n - m)
                else:
                    k = rng.randrange(525600, n) - m
                ctx.count('add_sub:leap-31dec')
            else:
                k = rng.randrange(-m, n - m)
            yield 'add_sub', {'leap': leap, 'moy': m, 'k': k}
            kh = rng.randrange(-(m // 60), (n - m - 1) // 60 + 1)
            if rng.random() < 0.3:                         # float hours on the quarter grid (exact in binary)
                kq = rng.randrange(-(m // 15), (n - m - 1) // 15 + 1)
                kh = kq / 4.0
                ctx.count('add_sub:quarter-hours')
            yield 'add_sub', {'leap': leap, 'moy': m, 'k': kh, 'unit': 'hour'}
        sm = bm + [rng.randrange(n) for _ in range(600 if not big else 20000)]
        if leap:
            sm += [(31 + 28) * 1440 + x for x in (0, 1, 180, 1439)]   # 29 Feb
        for m in sm:
            yield 'serial', {'leap': leap, 'moy': m}


def _oracle_histories(ctx, count):
    """Histories on new module instances: a stale memo / slot shows as a wrong later observation."""
    rng = ctx.rng
    for _ in range(count):
        if len(ctx.failures) >= 200:
            break
        ops = _gen_history(rng, rng.randrange(4, 36), wild=False, count=ctx.count)
        res = _history_result(ops)
        ctx.count('oracle:history')
        ctx.count('oracle:history-steps', len(ops))
        ctx.case(('history', json.dumps(ops)))
        if res:
            sig = res['sig']

            def fails(t):
                r = _history_result(t)
                return r is not None and r['sig'] == sig

            small = _shrink_history(ops[:res['at'] + 1], fails)
            res2 = _history_result(small) or res
            ctx.fail('history', {'ops': small}, res2['required'],
                     'step %d %r: %s' % (res2.get('at', -1), small[res2.get('at', -1)], res2['observed']),
                     res2['sig'])


def _order_pool(ctx):
    """The slice of the oracle stream that is re-run in fresh interpreters."""
    rng = ctx.rng
    k = 1 if ctx.quick and not ctx.searching else 4
    pool = []
    for leap in (False, True):
        n = _year_minutes(leap)
        days = 366 if leap else 365
        bm = [m for m in _boundary_moys(leap) if 0 <= m < n]
        pool += [('doy_roundtrip', {'leap': leap, 'doy': d}) for d in range(1, days + 1)]
        pool += [('reject', {'leap': leap, 'what': 'doy', 'value': v}) for v in (0, days + 1)]
        pool += [('reject', {'leap': leap, 'what': 'moy', 'value': v}) for v in (n, n + 1440)]
        pool += [('reject', {'leap': leap, 'what': 'make', 'value': [2, 30, 0, 0]})]
        # refused calls spread through the order (a slot left half-written by a refused call shows in
        # the next ordinary case)
        pool += [('reject', {'leap': leap, 'what': 'moy', 'value': rng.choice([n, n + 1, n + 59, n + 1440, 2 * n])})
                 for _ in range(60 * k)]
        pool += [('reject', {'leap': leap, 'what': 'doy', 'value': rng.choice([0, -1, days + 1, 400])})
                 for _ in range(20 * k)]
        pool += [('moy_roundtrip', {'leap': leap, 'moy': m}) for m in bm]
        pool += [('moy_roundtrip', {'leap': leap, 'moy': rng.randrange(n)}) for _ in range(150 * k)]
        pool += [('hoy_roundtrip', {'leap': leap, 'moy': rng.choice(bm)}) for _ in range(80 * k)]
        pool += list(_hoy_float_cases(ctx, leap, 120 * k))
        for _ in range(120 * k):
            m = rng.choice(bm) if rng.random() < 0.5 else rng.randrange(n)
            pool.append(('add_sub', {'leap': leap, 'moy': m, 'k': rng.randrange(-m, n - m)}))
            pool.append(('order', {'leap': leap, 'a': m, 'b': rng.choice(bm)}))
        pool += [('serial', {'leap': leap, 'moy': rng.choice(bm)}) for _ in range(25 * k)]
    for _ in range(300 * k):
        pool.append(('history', {'ops': _gen_history(rng, rng.randrange(3, 20))}))
    return pool


def _twin_cases(op, inp):
    """Cases about the same calendar date / the same index in the other kind of year (what a memo
    keyed without the leap flag confuses), from the stdlib calendar."""
    out = []
    leap = bool(inp.get('leap', False))
    for key in ('moy', 'a', 'b'):
        if isinstance(inp.get(key), int) and 0 <= inp[key] < _year_minutes(leap):
            r = _ref(leap, inp[key])
            alts = [inp[key]]
            if r.day <= _month_len(not leap, r.month):
                alts.append(_moy_of(not leap, r.month, r.day, r.hour, r.minute))
            for m in alts:
                if 0 <= m < _year_minutes(not leap):
                    out.append(('moy_roundtrip', {'leap': not leap, 'moy': m}))
                    out.append(('serial', {'leap': not leap, 'moy': m}))
    if isinstance(inp.get('doy'), int):
        for k in (inp['doy'] - 1, inp['doy'], inp['doy'] + 1):
            if 1 <= k <= 365:
                out.append(('doy_roundtrip', {'leap': not leap, 'doy': k}))
    twin = dict(inp)
    twin['leap'] = not leap
    out.append((op, twin))
    return out


def _confirm_in_fresh_process(ctx, recent, rng):
    """A failure seen in this (long-lived) process must be replayable: if the single case does not
    fail in a fresh interpreter the failure depends on what ran before it -> find and report an
    order that fails; failures for which none is found are moved behind the replayable ones."""
    for idx, f in enumerate(ctx.failures[:1]):
        if f['op'] in ('history', 'process_order') or idx not in recent:
            continue
        case = (f['op'], f['input'])
        if _run_order([case]):
            continue                                    # fails on its own: the replay is the case
        before = recent[idx]
        twins = _twin_cases(*case)
        found = False
        for pre in (twins, [case], before[-60:], before):
            fs = _run_order(list(pre) + [case])
            if fs:
                order = list(pre) + [case]
                small = _shrink_order(order[:fs[0]['index'] + 1], fs[0], budget=24)
                g = fs[0]
                sig = dict(g.get('sig') or {})
                sig.update({'kind': 'process_order', 'at': g['op'], 'order_dependent': True})
                ctx.failures[idx] = {'op': 'process_order',
                                     'input': {'order': small, 'failing_case': [g['op'], g['input']]},
                                     'required': g['required'], 'observed': g['observed'],
                                     'sig': dict(sig, op='process_order')}
                found = True
                break
        if not found:
            # depends on an earlier part of this run that was not identified: keep a few as
            # unconfirmed and leave room for the history / process-order stages (replayable by construction)
            for g in ctx.failures:
                g['unconfirmed'] = True
            del ctx.failures[10:]


def oracle(ctx):
    import collections
    window = collections.deque(maxlen=1500)
    recent = {}
    base = len(ctx.failures)

    def checked(op, inp):
        res = check_case(op, inp)
        if res and len(ctx.failures) - base < 2:
            recent[len(ctx.failures)] = list(window)
        window.append((op, inp))
        return res

    run_oracle_cases(ctx, _oracle_cases(ctx), checked)
    if ctx.failures:
        _confirm_in_fresh_process(ctx, recent, ctx.rng)
    _oracle_histories(ctx, 1500 if (ctx.quick and not ctx.searching) else 12000)
    _process_orders(ctx, _order_pool(ctx))
    ctx.failures.sort(key=lambda f: bool(f.get('unconfirmed')))      # replayable failures first

LEVEL_TEXT = ('Machine-checked Lean 4 theorems (32) over an executable model of dt.py: from_moy/moy and '
              'from_doy/doy are mutually inverse bijections for every minute/day of normal and leap years, '
              'out-of-year inputs are rejected, ordering equals ordering of moy, add/sub offsets invert, '
              'array/dict/pickle/text forms round-trip incl. 29 Feb. The month tables used by the model are '
              'regenerated from dt.py on every run (a changed table breaks theorem C08_tables_*), and the '
              'model is compared with the real classes on boundary-biased and (thorough) exhaustive inputs. '
              'Histories: for every op list on one date-time variable the state is the fresh object of its '
              'public state, refused calls change nothing, reads are pure, index ops follow integer arithmetic '
              '(C08_history_*); the real classes are compared with that state machine step by step, in new '
              'module instances and in fresh interpreters with different case orders.')
LEVEL_NOTE = ('Trusted: Lean kernel; axioms propext/Classical.choice/Quot.sound only; the table extractor; '
              'the correspondence run (agreement on generated inputs only); CPython datetime as the calendar '
              'reference; float hour normalisation modelled as exact carry (compared exhaustively); '
              'character-level text formatting tied by correspondence only.')
TECHNIQUE = ('Lean 4 proof (induction on the month search, decide +kernel over the 365/366 day indices, omega) '
             'about a model tied to dt.py by regenerated tables and differential correspondence')
