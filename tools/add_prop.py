"""git add the files that belong to the given properties (check module, the Lean modules it names, driver, evidence,
known findings, fix patches, corpus).  Orchestrator tool: lets finished properties be committed while builders of other
properties are still editing their own files.

    tools/add_prop.py C04 C05 ...
"""
import glob
import importlib
import os
import subprocess
import sys

ROOT = os.path.normpath(os.path.join(os.path.dirname(os.path.abspath(__file__)), '..'))
sys.path.insert(0, ROOT)


def files_of(pid):
    low = pid.lower()
    mod = importlib.import_module('harness.props.' + low)
    out = ['harness/props/%s.py' % low, 'evidence/%s.json' % pid, 'known_findings.d/%s.json' % pid,
           'lean/Ladybug/Drv/%s.lean' % pid]
    for m in list(getattr(mod, 'PROOF_MODULES', [])) + list(getattr(mod, 'GREP_MODULES', [])):
        out.append('lean/' + m.replace('.', '/') + '.lean')
    out += glob.glob(os.path.join(ROOT, 'fixes', pid + '_*'))
    out += glob.glob(os.path.join(ROOT, 'corpus', pid, '*'))
    out += glob.glob(os.path.join(ROOT, 'corpus', low, '*'))
    return [f for f in out if os.path.exists(os.path.join(ROOT, f) if not os.path.isabs(f) else f)]


def main():
    for pid in sys.argv[1:]:
        fs = files_of(pid)
        subprocess.check_call(['git', '-C', ROOT, 'add', '--'] + fs)
        print(pid, len(fs), 'files')


if __name__ == '__main__':
    main()
