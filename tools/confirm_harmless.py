"""Confirm a candidate behaviour-preserving change written by an independent sub-agent and store it under harmless/<id>/.

    tools/confirm_harmless.py <candidate-dir> [...] [-j N]      (id = basename of the directory, e.g. C05-h1)

In its own scratch worktree of /repo HEAD: equiv.py on the unchanged tree (digest = last output line), patch applies,
equiv.py with the change gives the same digest, repository test-suite result unchanged (416 passed, 1 baseline failure).
Development-time tool only.
"""
import json
import os
import re
import shutil
import subprocess
import sys
import tempfile
from concurrent.futures import ThreadPoolExecutor

ROOT = os.path.normpath(os.path.join(os.path.dirname(os.path.abspath(__file__)), '..'))
PY = '/venv/bin/python'


def sh(cmd, cwd, timeout=1800):
    p = subprocess.run(cmd, cwd=cwd, stdout=subprocess.PIPE, stderr=subprocess.STDOUT, timeout=timeout)
    return p.returncode, p.stdout.decode('utf-8', 'replace')


def confirm(cand):
    hid = os.path.basename(cand.rstrip('/'))
    tmp = tempfile.mkdtemp(prefix='hconf_')
    wt = os.path.join(tmp, 'wt_' + os.path.basename(tmp))
    res = {'id': hid, 'ok': False}
    try:
        subprocess.check_call(['git', '-C', '/repo', 'worktree', 'add', '--detach', wt, 'HEAD'],
                              stdout=subprocess.DEVNULL, stderr=subprocess.DEVNULL)
        head = subprocess.check_output(['git', '-C', wt, 'rev-parse', '--short', 'HEAD']).decode().strip()
        patch = os.path.abspath(os.path.join(cand, 'patch.diff'))
        shutil.copy(os.path.join(cand, 'equiv.py'), os.path.join(wt, 'equiv.py'))
        rc0, out0 = sh([PY, 'equiv.py'], wt)
        d0 = out0.strip().split('\n')[-1].strip()
        rca, outa = sh(['git', 'apply', '--check', patch], wt)
        if rca != 0:
            res['why'] = 'patch does not apply to HEAD %s: %s' % (head, outa[-200:])
            return res
        sh(['git', 'apply', patch], wt)
        rc1, out1 = sh([PY, 'equiv.py'], wt)
        d1 = out1.strip().split('\n')[-1].strip()
        os.remove(os.path.join(wt, 'equiv.py'))
        rct, outt = sh([PY, '-m', 'pytest', '-q', '-p', 'no:cacheprovider', '--timeout=900', 'tests'], wt)
        m = re.search(r'(\d+) failed, (\d+) passed', outt)
        tests_ok = bool(m) and m.group(1) == '1' and m.group(2) == '416' and \
            'test_sqlite_data_collections_by_output_name_single' in outt
        res.update(digest_before=d0[:16], digest_after=d1[:16], rc=(rc0, rc1), tests=(m.group(0) if m else '?'))
        res['ok'] = rc0 == 0 and rc1 == 0 and d0 == d1 and len(d0) >= 32 and tests_ok
        if not res['ok']:
            res['why'] = 'digest/tests mismatch'
            return res
        dst = os.path.join(ROOT, 'harmless', hid)
        os.makedirs(dst, exist_ok=True)
        for f in ('patch.diff', 'equiv.py'):
            shutil.copy(os.path.join(cand, f), os.path.join(dst, f))
        with open(os.path.join(cand, 'meta.json')) as f:
            meta = json.load(f)
        meta['confirmed'] = {'repo_head': head, 'digest_unchanged_tree': d0, 'digest_with_change': d1,
                             'test_suite_with_change': m.group(0),
                             'ran': ['equiv.py on the unchanged tree', 'git apply patch.diff', 'equiv.py with the change',
                                     'pytest -q tests with the change']}
        with open(os.path.join(dst, 'meta.json'), 'w') as f:
            json.dump(meta, f, indent=1)
        return res
    except Exception as e:  # noqa
        res['why'] = 'exception %r' % (e,)
        return res
    finally:
        subprocess.call(['git', '-C', '/repo', 'worktree', 'remove', '--force', wt],
                        stdout=subprocess.DEVNULL, stderr=subprocess.DEVNULL)
        shutil.rmtree(tmp, ignore_errors=True)


def main():
    args = sys.argv[1:]
    jobs = 4
    if '-j' in args:
        i = args.index('-j')
        jobs = int(args[i + 1])
        del args[i:i + 2]
    with ThreadPoolExecutor(max_workers=jobs) as ex:
        for r in ex.map(confirm, args):
            print(json.dumps(r))
            sys.stdout.flush()


if __name__ == '__main__':
    main()
