#!/bin/bash
# Development-time: clean-tree stability sweep (DESIGN.md section 11). Usage: tools/stability.sh "<seeds>" [tier]
# Run from a snapshot via `vp run -- tools/stability.sh "0 1 2 3 4 5 6 7 8 9"` (builds the lake workspace first).
cd "$(dirname "$0")/.." || exit 2
SEEDS=${1:-"0 1 2 3 4"}
TIER=${2:-quick}
./check --setup > stability_setup.log 2>&1 || echo "SETUP FAILED (see stability_setup.log)"
for s in $SEEDS; do
  for i in 01 02 03 04 05 06 07 08 09 10 11 12 13 14 15 16 17 18 19 20; do
    t0=$(date +%s)
    out=$(VERIF_SEED=$s ./check C$i --tier $TIER 2>&1)
    rc=$?
    t1=$(date +%s)
    echo "seed=$s C$i rc=$rc wall=$((t1-t0))s $(echo "$out" | grep -E "^C$i " | cut -c1-160)"
    if [ $rc -ne 0 ]; then echo "$out" | grep -E "VIOLATION|MACHINERY|tie broken" | cut -c1-400; fi
  done
done
