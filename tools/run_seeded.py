"""Run a check against a seeded change without touching /repo or the shared lake workspace.

    tools/run_seeded.py <seeded-id | path/to/patch.diff> <Cxx> [--tier quick] [--seed N] [--keep]

(With VERIF_LEAN_DIR set, that lake workspace is the one copied.)  Creates a scratch git worktree of /repo HEAD and a private copy of the lake workspace under /tmp,
applies the patch, runs `./check Cxx` with LADYBUG_REPO / VERIF_LEAN_DIR pointing at them, prints the
verdict lines, and removes both again.  Development-time tool only (not a registered command).
"""
import argparse
import json
import os
import shutil
import subprocess
import sys
import tempfile

ROOT = os.path.normpath(os.path.join(os.path.dirname(os.path.abspath(__file__)), '..'))


def main():
    ap = argparse.ArgumentParser()
    ap.add_argument('patch')
    ap.add_argument('prop')
    ap.add_argument('--tier', default='quick')
    ap.add_argument('--seed', default='0')
    ap.add_argument('--keep', action='store_true')
    a = ap.parse_args()
    patch = a.patch
    if not os.path.exists(patch):
        patch = os.path.join(ROOT, 'seeded', a.patch, 'patch.diff')
    patch = os.path.abspath(patch)
    tmp = tempfile.mkdtemp(prefix='seeded_')
    wt = os.path.join(tmp, 'wt_' + os.path.basename(tmp))
    lean = os.path.join(tmp, 'lean')
    rc = 2
    try:
        subprocess.check_call(['git', '-C', '/repo', 'worktree', 'add', '--detach', wt, 'HEAD'],
                              stdout=subprocess.DEVNULL, stderr=subprocess.DEVNULL)
        subprocess.check_call(['git', '-C', wt, 'apply', patch])
        shutil.copytree(os.environ.get('VERIF_LEAN_DIR') or os.path.join(ROOT, 'lean'), lean, symlinks=True,
                        ignore=shutil.ignore_patterns('*.tmp', '*.tmp.*', '*.lock'), ignore_dangling_symlinks=True)
        env = dict(os.environ, LADYBUG_REPO=wt, VERIF_LEAN_DIR=lean, VERIF_SEED=a.seed,
                   VERIF_EVIDENCE_DIR=os.path.join(tmp, 'evidence'))
        p = subprocess.run([os.path.join(ROOT, 'check'), a.prop, '--tier', a.tier], env=env,
                           stdout=subprocess.PIPE, stderr=subprocess.STDOUT)
        out = p.stdout.decode('utf-8', 'replace')
        rc = p.returncode
        print(out[-3000:])
        print('exit=%d' % rc)
        for line in out.split('\n'):
            if line.startswith('VIOLATION') and 'replay=' in line:
                rp = line.split('replay=')[1].split()[0]
                try:
                    with open(os.path.join(ROOT, rp)) as f:
                        data = json.load(f)
                    print('replay kind=%s op=%s input=%s' % (data.get('kind'), data.get('op'),
                                                          json.dumps(data.get('input'))[:300]))
                except Exception as e:
                    print('cannot read replay: %s' % e)
    finally:
        if not a.keep:
            subprocess.call(['git', '-C', '/repo', 'worktree', 'remove', '--force', wt],
                            stdout=subprocess.DEVNULL, stderr=subprocess.DEVNULL)
            shutil.rmtree(tmp, ignore_errors=True)
            subprocess.call(['git', '-C', '/repo', 'worktree', 'prune'])
    return rc


if __name__ == '__main__':
    sys.exit(main())
