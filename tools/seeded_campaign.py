"""Run the owning check against every seeded change (or the ids given) and record the outcome in
seeded/<id>/meta.json under "caught".  Development-time tool (uses tools/run_seeded.py)."""
import json
import os
import re
import subprocess
import sys
from concurrent.futures import ThreadPoolExecutor

ROOT = os.path.normpath(os.path.join(os.path.dirname(os.path.abspath(__file__)), '..'))


def run_one(sid):
    d = os.path.join(ROOT, 'seeded', sid)
    prop = sid.split('-')[0]
    p = subprocess.run(['/venv/bin/python', os.path.join(ROOT, 'tools', 'run_seeded.py'), sid, prop],
                       stdout=subprocess.PIPE, stderr=subprocess.STDOUT, cwd=ROOT)
    out = p.stdout.decode('utf-8', 'replace')
    m = re.search(r'exit=(\d+)', out)
    code = int(m.group(1)) if m else -1
    if 'error: patch failed' in out or 'patch does not apply' in out:
        res = 'patch no longer applies to /repo HEAD (context changed by later fix commits)'
    elif code == 0:
        res = 'NO: check exited 0'
    elif code == 1 and 'no-failing-input-found' in out:
        ties = re.findall(r'tie broken: (\w+) ([^:]+):', out)
        res = 'tie-only: VIOLATION ... no-failing-input-found (ties: %s)' % sorted(set(ties))[:3]
    elif code == 1:
        rp = re.search(r'replay kind=(\S+) op=(\S+) input=(.*)', out)
        ties = sorted(set(k for k, _ in re.findall(r'tie broken: (\w+) ([^:]+):', out)))
        res = 'yes: VIOLATION with failing input; op=%s input=%s; ties broken: %s' % (
            rp.group(2) if rp else '?', (rp.group(3)[:200] if rp else '?'), ties or 'none (oracle only)')
    else:
        res = 'machinery error (exit %d): %s' % (code, out[-300:])
    mp = os.path.join(d, 'meta.json')
    with open(mp) as f:
        meta = json.load(f)
    meta['caught'] = res
    with open(mp, 'w') as f:
        json.dump(meta, f, indent=1)
    return sid, res


def main():
    ids = sys.argv[1:] or sorted(d for d in os.listdir(os.path.join(ROOT, 'seeded')) if os.path.isdir(os.path.join(ROOT, 'seeded', d)))
    with ThreadPoolExecutor(max_workers=int(os.environ.get('CAMPAIGN_JOBS', '3'))) as ex:
        for sid, res in ex.map(run_one, ids):
            print('%s: %s' % (sid, res[:260]))


if __name__ == '__main__':
    main()
