"""Run the owning check against every stored behaviour-preserving change (harmless/<id>/patch.diff) and record
the outcome in harmless/<id>/meta.json under "outcome".  Development-time tool (uses tools/run_seeded.py).

A behaviour-preserving change keeps the property true, so the acceptable outcomes are
  quiet     - the check exits 0, or
  tie-only  - a proof obligation / translator / correspondence no longer checks and the search finds no failing
              input (`VIOLATION ... no-failing-input-found`: required by the protocol, names the broken tie).
A `VIOLATION` with a concrete failing input would be a FALSE ALARM of the machinery and must be repaired there.
"""
import json
import os
import re
import subprocess
import sys
from concurrent.futures import ThreadPoolExecutor

ROOT = os.path.normpath(os.path.join(os.path.dirname(os.path.abspath(__file__)), '..'))


def run_one(hid):
    d = os.path.join(ROOT, 'harmless', hid)
    prop = hid.split('-')[0]
    p = subprocess.run(['/venv/bin/python', os.path.join(ROOT, 'tools', 'run_seeded.py'),
                        os.path.join(d, 'patch.diff'), prop],
                       stdout=subprocess.PIPE, stderr=subprocess.STDOUT, cwd=ROOT)
    out = p.stdout.decode('utf-8', 'replace')
    m = re.search(r'exit=(\d+)', out)
    code = int(m.group(1)) if m else -1
    ties = sorted(set(re.findall(r'tie broken: (\w+) ([^:]+):', out)))
    if 'error: patch failed' in out or 'patch does not apply' in out:
        res = 'patch no longer applies to /repo HEAD'
    elif code == 0:
        res = 'quiet: check exited 0'
    elif code == 1 and 'no-failing-input-found' in out:
        res = 'tie-only: no-failing-input-found (ties: %s)' % ties[:4]
    elif code == 1:
        rp = re.search(r'replay kind=(\S+) op=(\S+) input=(.*)', out)
        res = 'FALSE ALARM: VIOLATION with failing input; op=%s input=%s; ties: %s' % (
            rp.group(2) if rp else '?', (rp.group(3)[:200] if rp else '?'), ties[:4])
    else:
        res = 'machinery error (exit %d): %s' % (code, out[-300:])
    mp = os.path.join(d, 'meta.json')
    with open(mp) as f:
        meta = json.load(f)
    meta['outcome'] = res
    with open(mp, 'w') as f:
        json.dump(meta, f, indent=1)
    return hid, res


def main():
    ids = sys.argv[1:] or sorted(os.listdir(os.path.join(ROOT, 'harmless')))
    ids = [i for i in ids if os.path.isdir(os.path.join(ROOT, 'harmless', i))]
    with ThreadPoolExecutor(max_workers=int(os.environ.get('CAMPAIGN_JOBS', '4'))) as ex:
        for hid, res in ex.map(run_one, ids):
            print('%s: %s' % (hid, res[:260]))
            sys.stdout.flush()


if __name__ == '__main__':
    main()
