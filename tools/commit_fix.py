"""Commit one proposed repair (fixes/Cxx_*.patch) to /repo as a `fix:` commit, after checking in a scratch worktree
that it applies and that the repository test-suite result is unchanged (416 passed, the one baseline failure).

    tools/commit_fix.py fixes/C07_x.patch C07[,C15...] "<what failed, for the fixed: record>"

Records `fixed: property=<id> <commit> <what failed>` in known_findings.json for every property named.
Development-time tool (orchestrator only).
"""
import json
import os
import re
import shutil
import subprocess
import sys
import tempfile

ROOT = os.path.normpath(os.path.join(os.path.dirname(os.path.abspath(__file__)), '..'))


def main():
    patch, props, what = sys.argv[1], sys.argv[2].split(','), sys.argv[3]
    patch = os.path.abspath(patch)
    lines = open(patch).read().split('\n')
    msg = [l[2:] for l in lines if l.startswith('# fix:')][0].strip()
    body = '\n'.join(l for l in lines if not l.startswith('#')) + '\n'
    tmp = tempfile.mkdtemp(prefix='fix_')
    wt = os.path.join(tmp, 'wt_' + os.path.basename(tmp))
    pf = os.path.join(tmp, 'p.diff')
    open(pf, 'w').write(body)
    try:
        subprocess.check_call(['git', '-C', '/repo', 'worktree', 'add', '--detach', wt, 'HEAD'],
                              stdout=subprocess.DEVNULL, stderr=subprocess.DEVNULL)
        subprocess.check_call(['git', '-C', wt, 'apply', pf])
        out = subprocess.run(['/venv/bin/python', '-m', 'pytest', '-q', '-p', 'no:cacheprovider', '--timeout=900',
                              'tests'], cwd=wt, stdout=subprocess.PIPE, stderr=subprocess.STDOUT).stdout.decode()
        m = re.search(r'(\d+) failed, (\d+) passed', out)
        ok = bool(m) and m.group(1) == '1' and m.group(2) == '416' and \
            'test_sqlite_data_collections_by_output_name_single' in out
        print(out.strip().split('\n')[-1])
        if not ok:
            print('NOT committed: test-suite result changed')
            return 1
    finally:
        subprocess.call(['git', '-C', '/repo', 'worktree', 'remove', '--force', wt],
                        stdout=subprocess.DEVNULL, stderr=subprocess.DEVNULL)
        shutil.rmtree(tmp, ignore_errors=True)
    pf2 = tempfile.mktemp(suffix='.diff')
    open(pf2, 'w').write(body)
    subprocess.check_call(['git', '-C', '/repo', 'apply', pf2])
    os.remove(pf2)
    subprocess.check_call(['git', '-C', '/repo', 'commit', '-qam', msg])
    h = subprocess.check_output(['git', '-C', '/repo', 'rev-parse', '--short', 'HEAD']).decode().strip()
    kp = os.path.join(ROOT, 'known_findings.json')
    k = json.load(open(kp))
    for p in props:
        k['fixed'].append('fixed: property=%s %s %s' % (p, h, what))
    json.dump(k, open(kp, 'w'), indent=1)
    print('committed', h, msg[:100])
    return 0


if __name__ == '__main__':
    sys.exit(main())
