"""Gen/ApTables.lean: class constants of ladybug/analysisperiod.py (AnalysisPeriod).

VALIDTIMESTEPS (dict timestep -> minutes), NUMOFDAYSEACHMONTH, NUMOFDAYSEACHMONTHLEAP, MONTHNAMES
(dict 1..12 -> name).  Anything that is not a literal of the expected shape raises ExtractError.
"""
from .common import (parse_file, find_class, find_assign, const_fold, lean_nat_list, lean_str_list,
                     write_if_changed, ExtractError, HEADER)


def _nat_dict(node, what):
    d = const_fold(node)
    if not isinstance(d, dict) or not d:
        raise ExtractError('%s is no longer a non-empty dict literal' % what)
    for k in d:
        if not isinstance(k, int) or isinstance(k, bool) or k < 0:
            raise ExtractError('%s: key %r is not a natural number' % (what, k))
    return d


def extract():
    tree, _ = parse_file('ladybug/analysisperiod.py')
    cls = find_class(tree, 'AnalysisPeriod')
    vts = _nat_dict(find_assign(cls, 'VALIDTIMESTEPS'), 'VALIDTIMESTEPS')
    for k, v in vts.items():
        if not isinstance(v, int) or isinstance(v, bool) or v < 0:
            raise ExtractError('VALIDTIMESTEPS[%r] = %r is not a natural number' % (k, v))
    days = const_fold(find_assign(cls, 'NUMOFDAYSEACHMONTH'))
    days_leap = const_fold(find_assign(cls, 'NUMOFDAYSEACHMONTHLEAP'))
    for name, t in (('NUMOFDAYSEACHMONTH', days), ('NUMOFDAYSEACHMONTHLEAP', days_leap)):
        if not isinstance(t, list):
            raise ExtractError('%s is no longer a tuple/list literal' % name)
    names = _nat_dict(find_assign(cls, 'MONTHNAMES'), 'MONTHNAMES')
    if sorted(names) != list(range(1, len(names) + 1)):
        raise ExtractError('MONTHNAMES keys are not 1..n: %r' % (sorted(names),))
    name_list = [names[k] for k in sorted(names)]
    for s in name_list:
        if not isinstance(s, str):
            raise ExtractError('MONTHNAMES value %r is not a string' % (s,))
    keys = list(vts.keys())          # dict literal order (the order `in` / keys() present)
    text = (HEADER % ('ap_tables.py', 'ladybug/analysisperiod.py')) + '\n'.join([
        'namespace Gen.Ap',
        '/-- keys of `VALIDTIMESTEPS` (steps per hour) in source order -/',
        'def validTimesteps : List Nat := ' + lean_nat_list(keys),
        '/-- values of `VALIDTIMESTEPS` (minutes per step), same order -/',
        'def validTimestepMinutes : List Nat := ' + lean_nat_list([vts[k] for k in keys]),
        'def numDays : List Nat := ' + lean_nat_list(days),
        'def numDaysLeap : List Nat := ' + lean_nat_list(days_leap),
        'def monthNames : List String := ' + lean_str_list(name_list),
        'end Gen.Ap', ''])
    write_if_changed('ApTables', text)
    return {'valid_timesteps': keys, 'minutes': [vts[k] for k in keys], 'days': days,
            'days_leap': days_leap, 'names': name_list}


if __name__ == '__main__':
    print(extract())
