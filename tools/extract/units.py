"""Gen/Units.lean (+ Gen/UnitsProofs*.lean): every unit formula and unit table of ladybug/datatype/*.py.

What is translated (DESIGN.md 3.1, property C06):

* every method `_<u>_to_<v>(self, value)` whose body is a single `return <expr>` becomes an exact
  `Rat -> Rat` Lean function.  Supported expression subset: the name `value`, numeric literals (taken
  from their *source text*, so `3.41214` is the rational 341214/100000, not the binary double),
  the module constant `PI` (= math.pi, kept symbolic: the Lean function gets a parameter `pi`),
  `+ - * /`, unary minus, `**` with a literal natural exponent; divisors must not contain `value`
  and must not be the literal 0.  Anything else -> ExtractError (tie broken: translator).
* per base type: `_units`, `_si_units`, `_ip_units`, `_min`, `_max`, the base unit literal passed to
  `_to_unit_base` by `to_unit`, and for every listed unit which method the dispatch reaches (the method
  *name* is computed with the real `_clean`), plus the finite maps unit -> `to_ip` target and
  unit -> `to_si` target obtained by calling the real methods on every listed unit;
* per subtype (class deriving from a base type): name, parent, `_min`, `_max`.
* the proof obligations (Gen/UnitsProofs<k>.lean): per formula the affine normal form `A*x + B`
  (coefficients computed here with exact fractions, *proved* in Lean by `ring`), per type the
  certificate that every ordered unit pair agrees with the hand-written SI table `Model/SI.lean`
  within 0.2 % and round-trips within 2e-5 (`decide +kernel` over exact rationals).
"""
import ast
import os
import re
import sys
from fractions import Fraction

from .common import (REPO, ExtractError, parse_file, const_fold, lean_rat, lean_str, lean_str_list,
                     write_if_changed, HEADER)

DT_DIR = 'ladybug/datatype'
SKIP_FILES = {'__init__.py', 'base.py', 'generic.py'}
FUNC_RE = re.compile(r'^_([A-Za-z0-9]+(?:_[A-Za-z0-9]+)*?)_to_([A-Za-z0-9]+(?:_[A-Za-z0-9]+)*)$')
N_PROOF_MODULES = 4


# ------------------------------------------------------------------------------------------------
# expressions


class Expr(object):
    """Tiny expression tree: ('value',) ('pi',) ('num', Fraction, text) ('neg', e) (op, l, r) ('pow', e, n)."""


def _literal(node, src):
    v = node.value
    if isinstance(v, bool) or not isinstance(v, (int, float)):
        raise ExtractError('unsupported constant %r at line %d' % (v, node.lineno))
    text = ast.get_source_segment(src, node)
    if text is None:
        raise ExtractError('no source text for literal at line %d' % node.lineno)
    text = text.strip().replace('_', '')
    try:
        fr = Fraction(text)
    except (ValueError, ZeroDivisionError):
        raise ExtractError('cannot read numeric literal %r at line %d exactly' % (text, node.lineno))
    if float(fr) != float(v):
        raise ExtractError('literal %r at line %d does not denote its value' % (text, node.lineno))
    return ('num', fr, text)


def to_expr(node, src, allow_pi):
    if isinstance(node, ast.Name):
        if node.id == 'value':
            return ('value',)
        if node.id == 'PI' and allow_pi:
            return ('pi',)
        raise ExtractError('unsupported name %s at line %d' % (node.id, node.lineno))
    if isinstance(node, ast.Constant):
        return _literal(node, src)
    if isinstance(node, ast.UnaryOp) and isinstance(node.op, ast.USub):
        return ('neg', to_expr(node.operand, src, allow_pi))
    if isinstance(node, ast.UnaryOp) and isinstance(node.op, ast.UAdd):
        return to_expr(node.operand, src, allow_pi)
    if isinstance(node, ast.BinOp):
        ops = {ast.Add: '+', ast.Sub: '-', ast.Mult: '*', ast.Div: '/'}
        if type(node.op) in ops:
            l = to_expr(node.left, src, allow_pi)
            r = to_expr(node.right, src, allow_pi)
            op = ops[type(node.op)]
            if op == '/':
                if mentions(r, 'value'):
                    raise ExtractError('division by an expression in `value` at line %d' % node.lineno)
                if not mentions(r, 'pi') and evaluate(r, None, None) == 0:
                    raise ExtractError('division by zero at line %d' % node.lineno)
            return (op, l, r)
        if isinstance(node.op, ast.Pow):
            e = node.right
            if not (isinstance(e, ast.Constant) and isinstance(e.value, int) and not isinstance(e.value, bool)
                    and 0 <= e.value <= 12):
                raise ExtractError('unsupported exponent at line %d' % node.lineno)
            return ('pow', to_expr(node.left, src, allow_pi), e.value)
    raise ExtractError('unsupported expression %s at line %d' % (type(node).__name__,
                                                                getattr(node, 'lineno', 0)))


def mentions(e, what):
    if e[0] == what:
        return True
    return any(isinstance(x, tuple) and mentions(x, what) for x in e[1:])


def evaluate(e, value, pi):
    k = e[0]
    if k == 'value':
        return value
    if k == 'pi':
        return pi
    if k == 'num':
        return e[1]
    if k == 'neg':
        return -evaluate(e[1], value, pi)
    if k == 'pow':
        return evaluate(e[1], value, pi) ** e[2]
    a, b = evaluate(e[1], value, pi), evaluate(e[2], value, pi)
    if k == '+':
        return a + b
    if k == '-':
        return a - b
    if k == '*':
        return a * b
    if b == 0:
        raise ExtractError('division by zero in a unit formula')
    return Fraction(a) / Fraction(b)


def lean_num(fr, ty):
    fr = Fraction(fr)
    if fr.denominator == 1:
        return '(%d : %s)' % (fr.numerator, ty)
    return '((%d : %s) / %d)' % (fr.numerator, ty, fr.denominator)


def lean_expr(e, ty='Rat'):
    k = e[0]
    if k == 'value':
        return 'value'
    if k == 'pi':
        return 'pi'
    if k == 'num':
        return lean_num(e[1], ty)
    if k == 'neg':
        return '(-%s)' % lean_expr(e[1], ty)
    if k == 'pow':
        return '(%s ^ %d)' % (lean_expr(e[1], ty), e[2])
    return '(%s %s %s)' % (lean_expr(e[1], ty), k, lean_expr(e[2], ty))


# ------------------------------------------------------------------------------------------------
# reading the classes


def _class_const(cls, name):
    for n in cls.body:
        if isinstance(n, ast.Assign) and len(n.targets) == 1 and isinstance(n.targets[0], ast.Name) \
                and n.targets[0].id == name:
            return n.value
    return None


def _str_tuple(node, what):
    """('a', 'b') -> (['a','b'], False);  ('a') i.e. a plain string -> (['a'], True)."""
    if isinstance(node, ast.Constant) and isinstance(node.value, str):
        return [node.value], True
    if isinstance(node, (ast.Tuple, ast.List)) and all(
            isinstance(e, ast.Constant) and isinstance(e.value, str) for e in node.elts):
        return [e.value for e in node.elts], False
    raise ExtractError('%s is not a tuple of string literals' % what)


def _bound(node, src, what):
    """-> ('neg',) | ('pos',) | ('fin', Fraction)"""
    if node is None:
        return None
    if isinstance(node, ast.Call) and isinstance(node.func, ast.Name) and node.func.id == 'float' \
            and len(node.args) == 1 and isinstance(node.args[0], ast.Constant) \
            and isinstance(node.args[0].value, str):
        s = node.args[0].value.strip().lower()
        if s in ('-inf', '-infinity'):
            return ('neg',)
        if s in ('inf', '+inf', 'infinity', '+infinity'):
            return ('pos',)
        raise ExtractError('%s: unsupported float(%r)' % (what, s))
    e = to_expr(node, src, False)
    if mentions(e, 'value'):
        raise ExtractError('%s is not a constant' % what)
    return ('fin', Fraction(evaluate(e, None, None)))


def _single_return(fn):
    body = list(fn.body)
    if body and isinstance(body[0], ast.Expr) and isinstance(body[0].value, ast.Constant) \
            and isinstance(body[0].value.value, str):
        body = body[1:]
    if len(body) != 1 or not isinstance(body[0], ast.Return) or body[0].value is None:
        raise ExtractError('%s (line %d): body is not a single `return <expr>`' % (fn.name, fn.lineno))
    return body[0].value


def _base_literal(fn, cname):
    """to_unit must be `return self._to_unit_base('<base>', values, unit, from_unit)`."""
    r = _single_return(fn)
    ok = (isinstance(r, ast.Call) and isinstance(r.func, ast.Attribute) and r.func.attr == '_to_unit_base'
          and isinstance(r.func.value, ast.Name) and r.func.value.id == 'self' and len(r.args) == 4
          and not r.keywords
          and isinstance(r.args[0], ast.Constant) and isinstance(r.args[0].value, str)
          and [getattr(a, 'id', None) for a in r.args[1:]] == ['values', 'unit', 'from_unit'])
    if not ok:
        raise ExtractError('%s.to_unit is no longer `return self._to_unit_base(<literal>, values, unit, '
                           'from_unit)`' % cname)
    if [a.arg for a in fn.args.args] != ['self', 'values', 'unit', 'from_unit']:
        raise ExtractError('%s.to_unit has an unexpected signature' % cname)
    return r.args[0].value


def _import_real():
    """The real package of the checkout under test (for `_clean`, to_ip/to_si evaluation, cross-check)."""
    if REPO not in sys.path[:1]:
        sys.path.insert(0, REPO)
    try:
        import ladybug.datatype as dtm
    except Exception as e:
        raise ExtractError('cannot import ladybug.datatype from %s: %s: %s' % (REPO, type(e).__name__, e))
    where = os.path.realpath(os.path.dirname(dtm.__file__))
    if not where.startswith(os.path.realpath(REPO)):
        raise ExtractError('ladybug.datatype was imported from %s, not from %s' % (where, REPO))
    return dtm


def read_source():
    """-> (bases: {name: info}, subs: {name: info}) from the AST of every datatype module."""
    ddir = os.path.join(REPO, DT_DIR)
    try:
        files = sorted(f for f in os.listdir(ddir) if f.endswith('.py') and f not in SKIP_FILES)
    except OSError as e:
        raise ExtractError('cannot list %s: %s' % (ddir, e))
    classes = {}
    for f in files:
        tree, src = parse_file(DT_DIR + '/' + f)
        has_pi = False
        for n in tree.body:
            if isinstance(n, ast.Assign) and any(isinstance(t, ast.Name) and t.id == 'PI' for t in n.targets):
                v = n.value
                if not (isinstance(v, ast.Attribute) and v.attr == 'pi' and isinstance(v.value, ast.Name)
                        and v.value.id == 'math'):
                    raise ExtractError('%s: PI is no longer math.pi' % f)
                has_pi = True
        for n in tree.body:
            if isinstance(n, ast.ClassDef):
                if n.name in classes:
                    raise ExtractError('class %s defined twice' % n.name)
                parents = [b.id for b in n.bases if isinstance(b, ast.Name)]
                if len(parents) != 1 or len(n.bases) != 1:
                    raise ExtractError('class %s: unsupported bases' % n.name)
                classes[n.name] = {'node': n, 'src': src, 'file': f, 'parent': parents[0], 'pi': has_pi}
    bases, subs = {}, {}
    for name, c in classes.items():
        node, src = c['node'], c['src']
        funcs = {}
        texts = {}
        meths = {}
        for m in node.body:
            if isinstance(m, ast.FunctionDef):
                meths[m.name] = m
                if FUNC_RE.match(m.name) and m.name != '_to_unit_base':
                    if [a.arg for a in m.args.args] != ['self', 'value'] or m.args.vararg or m.args.kwarg \
                            or m.args.defaults or m.decorator_list:
                        raise ExtractError('%s.%s: unexpected signature' % (name, m.name))
                    ret = _single_return(m)
                    funcs[m.name] = to_expr(ret, src, c['pi'])
                    texts[m.name] = ' '.join((ast.get_source_segment(src, ret) or '').split())
        rel = {}
        for attr in ('_normalized_type', '_time_aggregated_type'):
            v = _class_const(node, attr)
            if v is not None:
                if isinstance(v, ast.Constant) and v.value is None:
                    rel[attr] = None
                elif isinstance(v, ast.Name):
                    rel[attr] = v.id
                else:
                    raise ExtractError('%s.%s is not a class name' % (name, attr))
        v = _class_const(node, '_time_aggregated_factor')
        if v is not None:
            if isinstance(v, ast.Constant) and v.value is None:
                rel['_time_aggregated_factor'] = None
            else:
                e = to_expr(v, src, False)
                if mentions(e, 'value'):
                    raise ExtractError('%s._time_aggregated_factor is not a constant' % name)
                rel['_time_aggregated_factor'] = Fraction(evaluate(e, None, None))
        lo = _bound(_class_const(node, '_min'), src, name + '._min')
        hi = _bound(_class_const(node, '_max'), src, name + '._max')
        if c['parent'] == 'DataTypeBase':
            for req in ('_units', '_si_units', '_ip_units'):
                if _class_const(node, req) is None:
                    raise ExtractError('%s.%s not found' % (name, req))
            units, us = _str_tuple(_class_const(node, '_units'), name + '._units')
            si, sis = _str_tuple(_class_const(node, '_si_units'), name + '._si_units')
            ip, ips = _str_tuple(_class_const(node, '_ip_units'), name + '._ip_units')
            if us:
                raise ExtractError('%s._units is a plain string' % name)
            for req in ('to_unit', 'to_ip', 'to_si'):
                if req not in meths:
                    raise ExtractError('%s.%s not found' % (name, req))
            bases[name] = {'name': name, 'file': c['file'], 'units': units, 'si': si, 'ip': ip,
                           'si_is_str': sis, 'ip_is_str': ips,
                           'min': lo or ('neg',), 'max': hi or ('pos',), 'funcs': funcs, 'texts': texts,
                           'base': _base_literal(meths['to_unit'], name), 'pi': c['pi'],
                           'lines': {k: v.lineno for k, v in meths.items()}, 'rel': rel, 'parent': None}
        else:
            bad = [k for k in list(funcs) + [m for m in meths if m in (
                'to_unit', 'to_ip', 'to_si', '_to_unit_base', '_clean', 'is_in_range', 'is_unit_acceptable')]]
            for k in ('_units', '_si_units', '_ip_units'):
                if _class_const(node, k) is not None:
                    bad.append(k)
            if bad:
                raise ExtractError('subtype %s overrides %s (unsupported pattern)' % (name, ', '.join(bad)))
            subs[name] = {'name': name, 'parent': c['parent'], 'min': lo, 'max': hi, 'rel': rel}
    # resolve subtype chains to their base type, inheriting limits
    def resolve(nm, seen=()):
        if nm in bases:
            return nm, bases[nm]['min'], bases[nm]['max']
        if nm not in subs or nm in seen:
            raise ExtractError('class %s does not derive from a data type of this package' % nm)
        root, lo, hi = resolve(subs[nm]['parent'], seen + (nm,))
        return root, subs[nm]['min'] or lo, subs[nm]['max'] or hi
    for nm, s in subs.items():
        s['root'], s['min'], s['max'] = resolve(nm)
    # ancestors (self first, base type last) and inherited relation attributes
    every = dict(bases)
    every.update(subs)

    def chain(nm):
        out = [nm]
        while every[out[-1]].get('parent'):
            out.append(every[out[-1]]['parent'])
        return out
    for nm, t in every.items():
        t['ancestors'] = chain(nm)
        for attr in ('_normalized_type', '_time_aggregated_type', '_time_aggregated_factor'):
            val = None
            for a in t['ancestors']:
                if attr in every[a]['rel']:
                    val = every[a]['rel'][attr]
                    break
            t[attr] = val
        for attr in ('_normalized_type', '_time_aggregated_type'):
            if t[attr] is not None and t[attr] not in every:
                raise ExtractError('%s.%s names the unknown class %s' % (nm, attr, t[attr]))
        if (t['_time_aggregated_type'] is None) != (t['_time_aggregated_factor'] is None):
            raise ExtractError('%s: _time_aggregated_type and _time_aggregated_factor do not come together' % nm)
        if t['_time_aggregated_factor'] is not None and t['_time_aggregated_factor'] == 0:
            raise ExtractError('%s: _time_aggregated_factor is 0' % nm)
    # aggregate_by_area picks the first class of TYPESDICT whose _normalized_type is the class at hand; that is
    # well defined only if no two base types normalise to the same class
    seen = {}
    for nm in bases:
        nt = bases[nm]['_normalized_type']
        if nt is not None:
            if nt in seen:
                raise ExtractError('%s and %s have the same _normalized_type (unsupported)' % (seen[nt], nm))
            seen[nt] = nm
    return bases, subs


def _num(x):
    if x == float('-inf'):
        return ('neg',)
    if x == float('inf'):
        return ('pos',)
    return ('fin', x)


def complete_with_real(bases, subs):
    """Dispatch targets (`_clean` names), to_ip/to_si maps and a cross-check against the imported classes."""
    dtm = _import_real()
    real_bases = set(dtm.BASETYPES)
    if real_bases != set(bases):
        raise ExtractError('base types differ between source text and import: %s'
                           % sorted(real_bases ^ set(bases)))
    if set(dtm.TYPES) != set(bases) | set(subs):
        raise ExtractError('types differ between source text and import: %s'
                           % sorted(set(dtm.TYPES) ^ (set(bases) | set(subs))))
    for name in sorted(bases):
        b = bases[name]
        inst = dtm.TYPESDICT[name]()
        if list(inst.units) != b['units'] or \
                (list(inst.si_units) if not b['si_is_str'] else [inst.si_units]) != b['si'] or \
                (list(inst.ip_units) if not b['ip_is_str'] else [inst.ip_units]) != b['ip']:
            raise ExtractError('%s: unit tuples differ between source text and import' % name)
        units = b['units']
        if len(set(units)) != len(units):
            raise ExtractError('%s._units lists a unit twice' % name)
        if not units or units[0] != b['base']:
            raise ExtractError('%s: the base unit %r passed to _to_unit_base is not units[0] (is_in_range '
                               'converts from units[0]): unsupported' % (name, b['base']))
        to_base, from_base = [], []
        for u in units:
            if u == b['base']:
                to_base.append(None)
                from_base.append(None)
                continue
            n1 = '_%s_to_%s' % (inst._clean(u), inst._clean(b['base']))
            n2 = '_%s_to_%s' % (inst._clean(b['base']), inst._clean(u))
            for nm in (n1, n2):
                if nm not in b['funcs']:
                    raise ExtractError('%s lists unit %r but has no method %s (AttributeError at run time)'
                                       % (name, u, nm))
            to_base.append(n1)
            from_base.append(n2)
        b['to_base'], b['from_base'] = to_base, from_base
        for which in ('ip', 'si'):
            tg = []
            for u in units:
                try:
                    vals, t = getattr(inst, 'to_' + which)([1.0], u)
                except Exception as e:
                    raise ExtractError('%s.to_%s raises %s for its own unit %r' % (name, which, type(e).__name__, u))
                if t not in units:
                    raise ExtractError('%s.to_%s(%r) returns the unlisted unit %r' % (name, which, u, t))
                tg.append(units.index(t))
            b['to_' + which] = tg
            try:
                r = getattr(inst, 'to_' + which)([1.0], 'no such unit')
                strict = False
                if r[1] != 'no such unit':
                    raise ExtractError('%s.to_%s maps an unlisted unit to %r' % (name, which, r[1]))
            except ValueError:
                strict = True
            except ExtractError:
                raise
            except Exception as e:
                raise ExtractError('%s.to_%s raises %s for an unlisted unit' % (name, which, type(e).__name__))
            b['strict_' + which] = strict
        if _num(inst.min) != _bf(b['min']) or _num(inst.max) != _bf(b['max']):
            raise ExtractError('%s: min/max differ between source text and import' % name)
    for name in sorted(set(bases) | set(subs)):
        t = bases.get(name) or subs[name]
        cls = dtm.TYPESDICT[name]
        real = (getattr(cls._normalized_type, '__name__', None), getattr(cls._time_aggregated_type, '__name__', None),
                cls._time_aggregated_factor)
        mine = (t['_normalized_type'], t['_time_aggregated_type'],
                None if t['_time_aggregated_factor'] is None else float(t['_time_aggregated_factor']))
        if real != mine:
            raise ExtractError('%s: normalized/time-aggregated attributes differ between source text and import: '
                               '%r vs %r' % (name, mine, real))
    for name in sorted(subs):
        s = subs[name]
        inst = dtm.TYPESDICT[name]()
        if list(inst.units) != bases[s['root']]['units']:
            raise ExtractError('subtype %s does not share the units of %s' % (name, s['root']))
        if _num(inst.min) != _bf(s['min']) or _num(inst.max) != _bf(s['max']):
            raise ExtractError('%s: min/max differ between source text and import' % name)


def _bf(b):
    return (b[0], float(b[1])) if b[0] == 'fin' else b


# ------------------------------------------------------------------------------------------------
# Lean output


def ident(s):
    """Lean identifier for a cleaned method / unit name (already [A-Za-z0-9_])."""
    if not re.match(r'^[A-Za-z0-9_]+$', s):
        raise ExtractError('cannot make an identifier from %r' % s)
    return s if not s[0].isdigit() else 'u' + s


def unit_ident(u):
    """Name of a unit inside Lean namespaces (the same cleaning ladybug's `_clean` does, done here only
    to *name* things; the dispatch itself uses the real `_clean`)."""
    return ident(u.replace('/', '_').replace('-', '').replace(' ', '').replace('%', 'pct'))


def lean_bound(b):
    if b[0] == 'neg':
        return '.negInf'
    if b[0] == 'pos':
        return '.posInf'
    return '(.fin %s)' % lean_rat(b[1])


def fname(t, method):
    return '%s.%s' % (t, ident(method[1:]))


def gen_units(bases, subs):
    out = [HEADER % ('units.py', 'ladybug/datatype/*.py'),
           'import Ladybug.Model.Units', '', 'open Units', '', 'namespace Gen.Units', '']
    order = sorted(bases)
    for name in order:
        b = bases[name]
        out.append('namespace %s' % name)
        for m in sorted(b['funcs'], key=lambda k: b['lines'][k]):
            e = b['funcs'][m]
            args = '(pi value : Rat)' if b['pi'] else '(value : Rat)'
            out.append('/-- `%s.%s` (%s line %d): `return %s` -/'
                       % (name, m, b['file'], b['lines'][m], b['texts'][m].replace('-/', '- /')))
            out.append('def %s %s : Rat := %s' % (ident(m[1:]), args, lean_expr(e)))
        out.append('end %s' % name)
        out.append('')
    for name in order:
        b = bases[name]
        pi = ' pi' if b['pi'] else ''

        def fl(lst):
            return '[' + ', '.join('(fun x => x)' if m is None else '(%s%s)' % (fname(name, m), pi)
                                   for m in lst) + ']'
        def arith(lst, b=b):
            return '[' + ', '.join('false' if m is None or b['funcs'][m] == ('value',) else 'true'
                                   for m in lst) + ']'
        note = ''
        if b['si_is_str'] or b['ip_is_str']:
            note = ('  -- NOTE: in the source %s a plain string (parentheses without a comma), shown here as a '
                    'one-element list\n' % ' and '.join(k for k, f in (('_si_units is', b['si_is_str']),
                                                                     ('_ip_units is', b['ip_is_str'])) if f))
        out.append('def %s%s : UType := {\n%s  name := %s, parent := %s,\n  units := %s,\n  siUnits := %s,\n'
                   '  ipUnits := %s,\n  baseIdx := %d,\n  toBase := %s,\n  fromBase := %s,\n'
                   '  min := %s, max := %s,\n  ipTarget := %s, siTarget := %s, strictIp := %s, strictSi := %s,\n'
                   '  toBaseArith := %s, fromBaseArith := %s }'
                   % (name + 'T', ' (pi : Rat)' if b['pi'] else '', note, lean_str(name), lean_str(name),
                      lean_str_list(b['units']),
                      lean_str_list(b['si']), lean_str_list(b['ip']), b['units'].index(b['base']),
                      fl(b['to_base']), fl(b['from_base']), lean_bound(b['min']), lean_bound(b['max']),
                      '[%s]' % ', '.join(map(str, b['to_ip'])), '[%s]' % ', '.join(map(str, b['to_si'])),
                      'true' if b['strict_ip'] else 'false', 'true' if b['strict_si'] else 'false',
                      arith(b['to_base']), arith(b['from_base'])))
        out.append('')
    out.append('/-- Every base type (the classes deriving directly from DataTypeBase; GenericType excluded). -/')
    out.append('def baseTypes (pi : Rat) : List UType := [%s]' % ', '.join(
        '%sT%s' % (n, ' pi' if bases[n]['pi'] else '') for n in order))
    out.append('')
    out.append('/-- The base types whose formulas do not mention PI (exact rational tables). -/')
    out.append('def ratBaseTypes : List UType := [%s]' % ', '.join('%sT' % n for n in order if not bases[n]['pi']))
    out.append('')
    out.append('/-- Subtypes: (name, base type, min, max); they inherit units and formulas. -/')
    out.append('def subTypes : List (String × String × Bound × Bound) := [')
    out.append(',\n'.join('  (%s, %s, %s, %s)' % (lean_str(n), lean_str(subs[n]['root']), lean_bound(subs[n]['min']),
                                                 lean_bound(subs[n]['max'])) for n in sorted(subs)))
    out.append(']')
    out.append('')
    every = dict(bases)
    every.update(subs)
    out.append('/-- `_normalized_type` (own or inherited) of every type that has one: (type, normalized type). -/')
    out.append('def normalizedType : List (String × String) := [%s]' % ', '.join(
        '(%s, %s)' % (lean_str(n), lean_str(every[n]['_normalized_type']))
        for n in sorted(every) if every[n]['_normalized_type']))
    out.append('')
    out.append('/-- `_time_aggregated_type` and `_time_aggregated_factor` (own or inherited): (type, type, factor). -/')
    out.append('def timeAggregated : List (String × String × Rat) := [%s]' % ', '.join(
        '(%s, %s, %s)' % (lean_str(n), lean_str(every[n]['_time_aggregated_type']),
                          lean_rat(every[n]['_time_aggregated_factor']))
        for n in sorted(every) if every[n]['_time_aggregated_type']))
    out.append('')
    out.append('/-- Class ancestry of every type (itself first, its base type last): what `isinstance` sees. -/')
    out.append('def ancestors : List (String × List String) := [\n%s]' % ',\n'.join(
        '  (%s, %s)' % (lean_str(n), lean_str_list(every[n]['ancestors'])) for n in sorted(every)))
    out.append('')
    out.append('/-- `BASETYPES`: the base type names in sorted order (the search order of the two reverse look-ups). -/')
    out.append('def baseNames : List String := %s' % lean_str_list(sorted(bases)))
    out.append('')
    out.append('/-- All types by name (base types first, then subtypes as their base with own name and limits). -/')
    out.append('def allTypes (pi : Rat) : List UType :=\n  baseTypes pi ++ subTypes.filterMap fun (n, p, lo, hi) =>\n'
               '    ((baseTypes pi).find? (·.name = p)).map fun T => { T with name := n, min := lo, max := hi }')
    out.append('')
    out.append('/-- Everything the area-normalisation / time-aggregation methods consult. -/')
    out.append('def reg (pi : Rat) : Reg := { types := allTypes pi, normalized := normalizedType, '
               'timeAgg := timeAggregated, ancestors := ancestors, baseNames := baseNames }')
    out.append('')
    out.append('end Gen.Units')
    out.append('')
    return '\n'.join(out)


# -- proofs


def coeffs(e):
    """(A, B) with e(value) = A*value + B, computed exactly (proposal; Lean proves it)."""
    f0 = Fraction(evaluate(e, Fraction(0), None))
    f1 = Fraction(evaluate(e, Fraction(1), None))
    f2 = Fraction(evaluate(e, Fraction(2), None))
    if f2 - f1 != f1 - f0:
        raise ExtractError('a unit formula is not affine in `value`')
    return f1 - f0, f0


def lean_aff(a, b):
    return '⟨%s, %s⟩' % (lean_rat(a), lean_rat(b))


def gen_relations(bases, subs):
    """Obligations about `_normalized_type` / `_time_aggregated_*` against the SI table (exact equalities):
    an area-normalised unit is the unit divided by the area unit; the time-aggregation factor is 3600 s
    (one hour of the rate) expressed in the first units of both types."""
    every = dict(bases)
    every.update(subs)

    def root(n):
        return n if n in bases else subs[n]['root']
    out = []
    area = bases.get('Area')
    for n in sorted(bases):
        nt = bases[n]['_normalized_type']
        if nt is None or area is None or bases[n]['pi'] or bases[root(nt)]['pi']:
            continue
        nr = root(nt)
        for u in bases[n]['units']:
            for au in area['units']:
                label = '%s-%s' % (u, au) if '/' in u else '%s/%s' % (u, au)
                if label in bases[nr]['units']:
                    out.append('/-- `%s` %s normalised by %s is labelled `%s` (%s): by the SI definitions that unit is '
                               'exactly the quotient. -/' % (n, u, au, label, nr))
                    out.append('theorem C06_normalized_si_%s_%s_%s : (SI.%s.«%s»).a * (SI.Area.«%s»).a = (SI.%s.«%s»).a '
                               '∧ (SI.%s.«%s»).b = 0 ∧ (SI.%s.«%s»).b = 0 := by decide +kernel'
                               % (n, unit_ident(u), unit_ident(au), nr, unit_ident(label), unit_ident(au), n,
                                  unit_ident(u), nr, unit_ident(label), n, unit_ident(u)))
    for n in sorted(every):
        t = every[n]
        if t['_time_aggregated_type'] is None:
            continue
        src, dst = root(n), root(t['_time_aggregated_type'])
        if bases[src]['pi'] or bases[dst]['pi']:
            continue
        out.append('/-- Time aggregation `%s` -> `%s`: one hour of 1 %s is `factor` = %s %s (3600 s of the rate, by the '
                   'SI definitions). -/' % (n, t['_time_aggregated_type'], bases[src]['units'][0],
                                           t['_time_aggregated_factor'], bases[dst]['units'][0]))
        out.append('theorem C06_timefactor_%s : %s * (SI.%s.«%s»).a = (SI.%s.«%s»).a * 3600 '
                   '∧ (Gen.Units.timeAggregated.lookup %s) = some (%s, %s) := by decide +kernel'
                   % (n, lean_rat(t['_time_aggregated_factor']), dst, unit_ident(bases[dst]['units'][0]),
                      src, unit_ident(bases[src]['units'][0]), lean_str(n), lean_str(t['_time_aggregated_type']),
                      lean_rat(t['_time_aggregated_factor'])))
    return out


def gen_proofs(bases, subs=None):
    """-> list of module texts (Gen/UnitsProofs1..k), types distributed by number of formulas."""
    order = sorted((n for n in bases if not bases[n]['pi']), key=lambda n: -len(bases[n]['funcs']))
    bins = [[] for _ in range(N_PROOF_MODULES)]
    load = [0] * N_PROOF_MODULES
    for n in order:
        k = load.index(min(load))
        bins[k].append(n)
        load[k] += len(bases[n]['funcs']) + len(bases[n]['units']) ** 2 // 4
    texts = []
    for k, names in enumerate(bins):
        out = [HEADER % ('units.py', 'ladybug/datatype/*.py'),
               'import Ladybug.Gen.Units', 'import Ladybug.Model.SI', 'import Ladybug.Proofs.C06Lemmas', '',
               'open Units', '', 'namespace Gen.UnitsProofs', '']
        for name in sorted(names):
            b = bases[name]
            cto, cfrom = [], []
            for m in sorted(b['funcs'], key=lambda k2: b['lines'][k2]):
                a, c = coeffs(b['funcs'][m])
                out.append('/-- `%s.%s` is the affine map `%s * x + %s` (for every rational x). -/'
                           % (name, m, a, c))
                out.append('theorem C06_affine_%s_%s (x : Rat) : Gen.Units.%s x = %s * x + %s := by\n'
                           '  simp only [Gen.Units.%s]; ring'
                           % (name, ident(m[1:]), fname(name, m), lean_rat(a), lean_rat(c), fname(name, m)))
            for i, u in enumerate(b['units']):
                if b['to_base'][i] is None:
                    cto.append((Fraction(1), Fraction(0)))
                    cfrom.append((Fraction(1), Fraction(0)))
                else:
                    cto.append(coeffs(b['funcs'][b['to_base'][i]]))
                    cfrom.append(coeffs(b['funcs'][b['from_base'][i]]))
            out.append('')
            out.append('/-- Certificate of `%s`: affine coefficients of every leg and the SI definition of every '
                       'listed unit (hand-written table `Model/SI.lean`, looked up by name). -/' % name)
            out.append('def cert_%s : Cert := {\n  T := Gen.Units.%sT,\n  cTo := [%s],\n  cFrom := [%s],\n  si := [%s] }'
                       % (name, name, ', '.join(lean_aff(*c) for c in cto), ', '.join(lean_aff(*c) for c in cfrom),
                          ', '.join('(%s, SI.%s.«%s»)' % (lean_str(u), name, unit_ident(u)) for u in b['units'])))
            out.append('/-- The legs of `%s` are the affine maps of its certificate. -/' % name)
            hto, hfrom = [], []
            for i, u in enumerate(b['units']):
                if b['to_base'][i] is None:
                    hto.append('Aff.eval_one_zero')
                    hfrom.append('Aff.eval_one_zero')
                else:
                    hto.append('C06_affine_%s_%s' % (name, ident(b['to_base'][i][1:])))
                    hfrom.append('C06_affine_%s_%s' % (name, ident(b['from_base'][i][1:])))

            def conj(hs):
                return ''.join('And.intro %s (' % h for h in hs) + 'True.intro' + ')' * len(hs)
            out.append('theorem C06_legs_%s : cert_%s.LegsOK :=\n  ⟨by decide +kernel,\n   %s,\n   %s⟩'
                       % (name, name, conj(hto), conj(hfrom)))
            out.append('/-- Every ordered unit pair of `%s` agrees with the SI definitions within 0.2 %% (factor and '
                       'offset). -/' % name)
            out.append('theorem C06_si_%s : cert_%s.siOk = true := by decide +kernel' % (name, name))
            out.append('/-- Every ordered unit pair of `%s` converts there and back to within 2e-5 (scale within '
                       '2e-5 of 1, offset exactly 0). -/' % name)
            out.append('theorem C06_roundtrip_%s : cert_%s.rtOk = true := by decide +kernel' % (name, name))
            out.append('/-- `to_ip`/`to_si` of `%s` land in the listed IP/SI units, are idempotent and leave a '
                       'unit that is already IP/SI alone. -/' % name)
            out.append('theorem C06_targets_%s : cert_%s.T.targetsOk = true := by decide +kernel' % (name, name))
            out.append('theorem C06_valid_%s : cert_%s.Valid :=\n  ⟨C06_legs_%s, C06_si_%s, C06_roundtrip_%s, '
                       'C06_targets_%s⟩' % (name, name, name, name, name, name))
            out.append('')
        if k == N_PROOF_MODULES - 1 and subs is not None:
            out += gen_relations(bases, subs)
            out.append('')
        out.append('def certs%d : List Cert := [%s]' % (k + 1, ', '.join('cert_' + n for n in sorted(names))))
        out.append('theorem C06_valid_certs%d : ∀ c ∈ certs%d, c.Valid := by\n  simp only [certs%d, List.mem_cons, '
                   'List.not_mem_nil, or_false]\n  intro c hc\n  rcases hc with %s\n%s'
                   % (k + 1, k + 1, k + 1, ' | '.join('rfl' for _ in names) if names else 'h',
                      '\n'.join('  · exact C06_valid_%s' % n for n in sorted(names)) if names else '  · cases h'))
        out.append('')
        out.append('end Gen.UnitsProofs')
        out.append('')
        texts.append('\n'.join(out))
    return texts


def gen_sym(bases):
    """Gen/UnitsSym.lean: the formulas that mention PI, once more over an arbitrary field `K` with `pi : K`
    (same expression printer, other carrier), each linked to its `Rat` version by `rfl`."""
    out = [HEADER % ('units.py', 'ladybug/datatype/*.py'),
           'import Mathlib.Algebra.Field.Rat', 'import Ladybug.Gen.Units', '',
           'namespace Gen.UnitsSym', '']
    for name in sorted(n for n in bases if bases[n]['pi']):
        b = bases[name]
        out.append('namespace %s' % name)
        for m in sorted(b['funcs'], key=lambda k: b['lines'][k]):
            e = b['funcs'][m]
            out.append('/-- `%s.%s` over any field. -/' % (name, m))
            out.append('def %s {K : Type} [Field K] (pi value : K) : K := %s'
                       % (ident(m[1:]), lean_expr(e, 'K')))
        out.append('end %s' % name)
        for m in sorted(b['funcs'], key=lambda k: b['lines'][k]):
            out.append('/-- The executable `Rat` formula is the field formula at `K = Rat`. -/')
            out.append('theorem C06_sym_%s_%s (pi x : Rat) : Gen.Units.%s pi x = %s.%s pi x := rfl'
                       % (name, ident(m[1:]), fname(name, m), name, ident(m[1:])))
        out.append('')
    out.append('end Gen.UnitsSym')
    out.append('')
    return '\n'.join(out)


def extract(write=True):
    try:
        bases, subs = read_source()
        complete_with_real(bases, subs)
        units_text = gen_units(bases, subs)
        proofs = gen_proofs(bases, subs)
    except ExtractError:
        raise
    except Exception as e:      # an unforeseen source shape is a broken tie, not a crash of the check
        raise ExtractError('unexpected source shape: %s: %s' % (type(e).__name__, e))
    if write:
        write_if_changed('Units', units_text)
        for k, t in enumerate(proofs):
            write_if_changed('UnitsProofs%d' % (k + 1), t)
        write_if_changed('UnitsSym', gen_sym(bases))
    return {'bases': bases, 'subs': subs}


if __name__ == '__main__':
    r = extract()
    print('%d base types, %d subtypes, %d formulas' % (
        len(r['bases']), len(r['subs']), sum(len(b['funcs']) for b in r['bases'].values())))
