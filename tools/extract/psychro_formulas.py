"""Gen/PsychroFormulas.lean: ladybug/psychrometrics.py translated function by function (C09).

Every function of psychrometrics.py that is straight-line code is translated completely; the four functions
with loops / try are hand-modelled (Model/Psychro.lean) and tied by correspondence, but their straight-line
pieces (prefix, loop body, loop/break tests, iteration limits, final expression) are translated as
separate definitions.  Proofs/C09Gen.lean proves `Gen.Psychro.<f> = Psychro.<model of f>` for all of them.
Also: PsychrometricChart.t_x_value / hr_y_value and Temperature._C_to_F / _F_to_C (used by the chart model).
"""
import ast

from .common import ExtractError
from .pyexpr2lean import Translator, emit_file

# translated completely (order: callees first)
WHOLE = [
    'saturated_vapor_pressure', '_d_ln_p_ws', 'humid_ratio_from_db_rh', 'enthalpy_from_db_hr',
    'rel_humid_from_db_hr', 'rel_humid_from_db_enth', 'rel_humid_from_db_dpt', 'rel_humid_from_db_wb',
    'humid_ratio_from_db_wb', 'db_temp_from_enth_hr', 'db_temp_from_rh_hr', 'db_temp_and_hr_from_wb_rh',
]
# hand-modelled (loops / try): only pieces are translated; the model definition is referenced by callers
HAND_MODELLED = {
    'dew_point_from_db_rh': 'Psychro.dewPointFromDbRh',        # try/except + while True (Newton)
    'wet_bulb_from_db_rh': 'Psychro.wetBulbFromDbRh',          # while (bisection)
    'dew_point_from_db_rh_fast': None,                         # try/except
    'wet_bulb_from_db_rh_fast': None,                          # while + integer sign bookkeeping with !=
}
# one-line compositions that call a hand-modelled solver (translated, the solver is an external reference)
COMPOSED = ['wet_bulb_from_db_hr', 'dew_point_from_db_hr', 'dew_point_from_db_enth', 'dew_point_from_db_wb']


def _body(node):
    b = list(node.body)
    if b and isinstance(b[0], ast.Expr) and isinstance(b[0].value, ast.Constant) and isinstance(b[0].value.value, str):
        b = b[1:]
    return b


def _need(cond, what):
    if not cond:
        raise ExtractError('ladybug/psychrometrics.py: %s: source pattern not recognised' % what)


def _is_break_if(s):
    return isinstance(s, ast.If) and len(s.body) == 1 and isinstance(s.body[0], ast.Break) and not s.orelse


def _pieces(t):
    # --- dew_point_from_db_rh: p_ws, p_w | try | while True: 4 assignments, 2 break tests, index += 1 | return min
    fn = 'dew_point_from_db_rh'
    b = _body(t.find(fn))
    _need(len(b) >= 2 and all(isinstance(s, ast.Assign) for s in b[:2]), fn + ' prefix')
    t.block('dew_pw', fn, b[:2], ['db_temp', 'rel_humid'], ['p_w'])
    lp = t.loop(fn, 0)
    _need(isinstance(lp, ast.While) and isinstance(lp.test, ast.Constant) and lp.test.value is True
          and len(lp.body) == 7 and all(isinstance(s, ast.Assign) for s in lp.body[:4])
          and _is_break_if(lp.body[4]) and _is_break_if(lp.body[5]), fn + ' Newton loop')
    t.block('dew_newton_step', fn, lp.body[:4], ['td', 'ln_vp'], ['td'])
    t.test('dew_newton_stop', fn, lp.body[4].test, ['td', 'td_iter'])
    lim = lp.body[5].test
    _need(isinstance(lim, ast.Compare) and isinstance(lim.left, ast.Name) and lim.left.id == 'index'
          and len(lim.ops) == 1 and isinstance(lim.ops[0], ast.Gt), fn + ' iteration limit `index > N`')
    t.nat_const('dew_newton_max_index', fn, lim.comparators[0], 'iteration limit (break when index > N)')
    _need(isinstance(b[-1], ast.Return), fn + ' final return')
    t.expression('dew_clamp', fn, b[-1].value, ['td', 'db_temp'])

    # --- wet_bulb_from_db_rh: 4 assignments | index | while test: 3 statements, guess, break test, index += 1
    fn = 'wet_bulb_from_db_rh'
    b = _body(t.find(fn))
    _need(len(b) >= 4 and all(isinstance(s, ast.Assign) for s in b[:4]), fn + ' prefix')
    t.block('wb_init', fn, b[:4], ['db_temp', 'rel_humid', 'b_press'],
            ['humid_ratio', 'wb_temp_sup', 'wb_temp_inf', 'wb_temp'])
    lp = t.loop(fn, 0)
    _need(isinstance(lp, ast.While) and len(lp.body) == 5 and isinstance(lp.body[0], ast.Assign)
          and isinstance(lp.body[1], ast.If) and isinstance(lp.body[2], ast.Assign)
          and _is_break_if(lp.body[3]), fn + ' bisection loop')
    t.test('wb_continue', fn, lp.test, ['wb_temp_sup', 'wb_temp_inf'])
    t.block('wb_step', fn, lp.body[:3], ['db_temp', 'humid_ratio', 'b_press', 'wb_temp_sup', 'wb_temp_inf', 'wb_temp'],
            ['wb_temp_sup', 'wb_temp_inf', 'wb_temp'])
    lim = lp.body[3].test
    _need(isinstance(lim, ast.Compare) and isinstance(lim.left, ast.Name) and lim.left.id == 'index'
          and len(lim.ops) == 1 and isinstance(lim.ops[0], ast.GtE), fn + ' iteration limit `index >= N`')
    t.nat_const('wb_max_index', fn, lim.comparators[0], 'iteration limit (break when index >= N)')

    # --- dew_point_from_db_rh_fast: es, e | try: return <expr>
    fn = 'dew_point_from_db_rh_fast'
    b = _body(t.find(fn))
    _need(len(b) == 3 and all(isinstance(s, ast.Assign) for s in b[:2]) and isinstance(b[2], ast.Try)
          and len(b[2].body) == 1 and isinstance(b[2].body[0], ast.Return), fn)
    t.block('fast_e', fn, b[:2], ['db_temp', 'rel_humid'], ['e'])
    t.expression('dew_fast_value', fn, b[2].body[0].value, ['e'])

    # --- wet_bulb_from_db_rh_fast: es, e | state | while test: e_wg, eg, e_d | sign bookkeeping
    fn = 'wet_bulb_from_db_rh_fast'
    b = _body(t.find(fn))
    _need(len(b) >= 2 and all(isinstance(s, ast.Assign) for s in b[:2]), fn + ' prefix')
    t.block('wb_fast_e', fn, b[:2], ['db_temp', 'rel_humid'], ['e'])
    lp = t.loop(fn, 0)
    _need(isinstance(lp, ast.While) and len(lp.body) >= 3 and all(isinstance(s, ast.Assign) for s in lp.body[:3]),
          fn + ' loop')
    t.test('wb_fast_continue', fn, lp.test, ['e_d'])
    t.block('wb_fast_ed', fn, lp.body[:3], ['t_w', 'b_press', 'db_temp', 'e'], ['e_d'])


def extract():
    t = Translator('ladybug/psychrometrics.py')
    for name in WHOLE:
        t.function(name)
    for name, lean in HAND_MODELLED.items():
        t.find(name)                                   # must still exist
        if lean:
            t.external(name, lean)
    for name in COMPOSED:
        t.function(name)
    _pieces(t)
    known = set(WHOLE) | set(HAND_MODELLED) | set(COMPOSED)
    new = [n.name for n in t.tree.body if isinstance(n, ast.FunctionDef) and n.name not in known]

    chart = Translator('ladybug/psychchart.py', attr_params={
        'self._base_point.x': 'base_x', 'self.base_point.x': 'base_x',
        'self._base_point.y': 'base_y', 'self.base_point.y': 'base_y',
        'self._x_dim': 'x_dim', 'self._y_dim': 'y_dim', 'self._min_temperature': 'min_temperature'})
    chart.function('t_x_value', cls='PsychrometricChart', extra_params=['base_x', 'x_dim', 'min_temperature'])
    chart.function('hr_y_value', cls='PsychrometricChart', extra_params=['base_y', 'y_dim'])

    temp = Translator('ladybug/datatype/temperature.py')
    temp.function('_C_to_F', cls='Temperature', lean_name='temperature_C_to_F')
    temp.function('_F_to_C', cls='Temperature', lean_name='temperature_F_to_C')

    changed = emit_file('PsychroFormulas', 'Gen.Psychro', 'psychro_formulas.py', [t, chart, temp],
                        imports=('Ladybug.Transc', 'Ladybug.Model.Psychro'))
    return {'translated': t.report + chart.report + temp.report,
            'hand_modelled': sorted(HAND_MODELLED), 'unclassified_new_functions': new, 'changed': changed}


if __name__ == '__main__':
    import json
    print(json.dumps(extract(), indent=1))
