"""Run every extractor (used by setup; each check runs only the extractors it depends on)."""
import importlib

EXTRACTORS = ['dt_tables']


def run_all():
    for name in EXTRACTORS:
        mod = importlib.import_module('tools.extract.' + name)
        mod.extract()


if __name__ == '__main__':
    run_all()
