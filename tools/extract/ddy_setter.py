"""Gen/DDYSetter.lean: the statement order of the `DDY.design_days` setter of ddy.py.

Extracted (C16, round 4): the setter receives any iterable.  What matters for a one-shot iterable (generator,
map, filter, iter(...)) is WHEN the argument is walked: the code first turns a non-list into a list, then walks
that list to type-check the items, then stores it.  The statements of the setter body (the body of its `try`
included) are read in order and translated into a plan:

  if not isinstance(data, list): data = list(data)      -> .materialiseUnlessList
  data = list(data) / data = tuple(data)                 -> .materialise
  for item in data: assert isinstance(item, DesignDay)   -> .checkItems
  self._design_days = data                               -> .storeArg
  self._design_days = list(data) / tuple(data)           -> .storeListOfArg
  for dd in self._design_days: ... (location update)     -> .updateLocations

Anything else raises ExtractError (tie broken: translator).  Model/DDYShapes.lean interprets the plan on an
iterable that may be one-shot; Props/C16.lean proves that the stored days do not depend on the container kind.
"""
import ast
from .common import parse_file, find_class, ExtractError, write_if_changed, HEADER


def _is_name(n, name):
    return isinstance(n, ast.Name) and n.id == name


def _call_of(n, fn, arg):
    return (isinstance(n, ast.Call) and isinstance(n.func, ast.Name) and n.func.id in fn and len(n.args) == 1
            and not n.keywords and _is_name(n.args[0], arg))


def _self_attr(n, attr):
    return isinstance(n, ast.Attribute) and n.attr == attr and _is_name(n.value, 'self')


def _steps(stmts, arg):
    out = []
    for st in stmts:
        if isinstance(st, ast.Expr) and isinstance(st.value, ast.Constant) and isinstance(st.value.value, str):
            continue                                                    # docstring
        if isinstance(st, ast.Try):
            if st.orelse or st.finalbody:
                raise ExtractError('design_days setter: try with else/finally at line %d' % st.lineno)
            for h in st.handlers:
                if not (len(h.body) == 1 and isinstance(h.body[0], ast.Raise)):
                    raise ExtractError('design_days setter: handler that does not re-raise at line %d' % h.lineno)
            out += _steps(st.body, arg)
            continue
        if isinstance(st, ast.If):
            t = st.test
            if (isinstance(t, ast.UnaryOp) and isinstance(t.op, ast.Not) and isinstance(t.operand, ast.Call)
                    and _is_name(t.operand.func, 'isinstance') and len(t.operand.args) == 2
                    and _is_name(t.operand.args[0], arg) and _is_name(t.operand.args[1], 'list')
                    and not st.orelse and len(st.body) == 1 and isinstance(st.body[0], ast.Assign)
                    and len(st.body[0].targets) == 1 and _is_name(st.body[0].targets[0], arg)
                    and _call_of(st.body[0].value, ('list',), arg)):
                out.append('.materialiseUnlessList')
                continue
            raise ExtractError('design_days setter: unsupported if at line %d' % st.lineno)
        if isinstance(st, ast.Assign) and len(st.targets) == 1:
            tg, v = st.targets[0], st.value
            if _is_name(tg, arg) and _call_of(v, ('list', 'tuple'), arg):
                out.append('.materialise')
                continue
            if _self_attr(tg, '_design_days') and _is_name(v, arg):
                out.append('.storeArg')
                continue
            if _self_attr(tg, '_design_days') and _call_of(v, ('list', 'tuple'), arg):
                out.append('.storeListOfArg')
                continue
            raise ExtractError('design_days setter: unsupported assignment at line %d' % st.lineno)
        if isinstance(st, ast.For) and not st.orelse:
            if _is_name(st.iter, arg) and all(isinstance(b, ast.Assert) for b in st.body):
                out.append('.checkItems')
                continue
            if _self_attr(st.iter, '_design_days'):
                out.append('.updateLocations')
                continue
            raise ExtractError('design_days setter: unsupported loop at line %d' % st.lineno)
        raise ExtractError('design_days setter: unsupported statement at line %d' % st.lineno)
    return out


def extract():
    tree, _ = parse_file('ladybug/ddy.py')
    ddy = find_class(tree, 'DDY')
    setter = None
    for n in ddy.body:
        if isinstance(n, ast.FunctionDef) and n.name == 'design_days' and any(
                isinstance(d, ast.Attribute) and d.attr == 'setter' for d in n.decorator_list):
            setter = n
    if setter is None or len(setter.args.args) != 2:
        raise ExtractError('DDY.design_days setter not found')
    arg = setter.args.args[1].arg
    plan = _steps(setter.body, arg)
    if not any(p in ('.storeArg', '.storeListOfArg') for p in plan):
        raise ExtractError('design_days setter: nothing is stored')
    # __init__ must go through the setter (self.design_days = design_days)
    init = [n for n in ddy.body if isinstance(n, ast.FunctionDef) and n.name == '__init__']
    via_setter = bool(init) and any(
        isinstance(s, ast.Assign) and len(s.targets) == 1 and _self_attr(s.targets[0], 'design_days')
        and isinstance(s.value, ast.Name) for s in init[0].body)
    lines = [HEADER % ('ddy_setter.py', 'ladybug/ddy.py'), 'namespace Gen.DDY', '',
             '/-- One statement of the `DDY.design_days` setter, as far as walking its argument is concerned. -/',
             'inductive SetterStep where',
             '  | materialiseUnlessList | materialise | checkItems | storeArg | storeListOfArg | updateLocations',
             '  deriving DecidableEq, Repr', '',
             '/-- The statements of the setter, in source order. -/',
             'def setterPlan : List SetterStep := [' + ', '.join(plan) + ']', '',
             '/-- `DDY.__init__` assigns through the setter (`self.design_days = design_days`). -/',
             'def initUsesSetter : Bool := ' + ('true' if via_setter else 'false'), '',
             'end Gen.DDY', '']
    write_if_changed('DDYSetter', '\n'.join(lines))
    return {'plan': plan, 'init_uses_setter': via_setter}


if __name__ == '__main__':
    print(extract())
