"""Gen/DDYSetter.lean: the statement order of the `DDY.design_days` setter of ddy.py.

Extracted (C16, round 4): the setter receives any iterable.  What matters for a one-shot iterable (generator,
map, filter, iter(...)) is WHEN the argument is walked: the code first turns a non-list into a list, then walks
that list to type-check the items, then stores it.  The statements of the setter body (the body of its `try`
included) are read in order and translated into a plan:

  if not isinstance(data, list): data = list(data)      -> .materialiseUnlessList
  data = list(data) / data = tuple(data)                 -> .materialise
  for item in data: assert isinstance(item, DesignDay)   -> .checkItems
  self._design_days = data                               -> .storeArg
  self._design_days = list(data) / tuple(data)           -> .storeListOfArg
  for dd in self._design_days: ... (location update)     -> .updateLocations

Round 6 (comparison strictness): the test that decides whether a day is moved to the DDY's location is read from
BOTH setters (`design_days` and `location`): it must be the comparison of the whole Location objects
(`dd.location != self._location`, i.e. Location.__eq__ over all nine attributes) -> `.wholeLocation`; a test on
some attributes only, on a text form, on identity ... raises ExtractError.  A statement `self._helper()` (no
arguments) is replaced by the body of that method, so a refactor that moves the loop into a helper is read like
the inline form.  `Location.__key` / `Location.__slots__` of location.py are copied as `locationKey` /
`locationSlots` (Props/C16.lean proves that the key covers every slot).

Anything else raises ExtractError (tie broken: translator).  Model/DDYShapes.lean interprets the plan on an
iterable that may be one-shot; Props/C16.lean proves that the stored days do not depend on the container kind.
"""
import ast
from .common import parse_file, find_class, ExtractError, write_if_changed, HEADER


def _is_name(n, name):
    return isinstance(n, ast.Name) and n.id == name


def _call_of(n, fn, arg):
    return (isinstance(n, ast.Call) and isinstance(n.func, ast.Name) and n.func.id in fn and len(n.args) == 1
            and not n.keywords and _is_name(n.args[0], arg))


def _self_attr(n, attr):
    return isinstance(n, ast.Attribute) and n.attr == attr and _is_name(n.value, 'self')


def _method(cls, name):
    for n in cls.body:
        if isinstance(n, ast.FunctionDef) and n.name == name and not n.decorator_list:
            return n
    return None


def _inline(st, cls, depth):
    """`self._helper()` -> the body of `_helper` (a plain method without arguments), else None."""
    if (cls is not None and depth < 3 and isinstance(st, ast.Expr) and isinstance(st.value, ast.Call)
            and isinstance(st.value.func, ast.Attribute) and _is_name(st.value.func.value, 'self')
            and not st.value.args and not st.value.keywords):
        m = _method(cls, st.value.func.attr)
        if m is not None and len(m.args.args) == 1:
            return m.body
    return None


def _location_guard(loop, arg=None):
    """The loop `for dd in self._design_days: if <test>: dd.location = self._location [; print(...)]`.
    Returns '.wholeLocation' when <test> is `dd.location != self._location` (either way round)."""
    where = 'location update loop at line %d' % loop.lineno
    if not (isinstance(loop.target, ast.Name) and len(loop.body) == 1 and isinstance(loop.body[0], ast.If)
            and not loop.body[0].orelse):
        raise ExtractError(where + ': not a single guarded statement')
    dd = loop.target.id
    cond = loop.body[0]

    def day_loc(n):
        return isinstance(n, ast.Attribute) and n.attr == 'location' and _is_name(n.value, dd)

    def own_loc(n):
        # `arg` (location setter only): the new location itself, after `self._location = arg`
        return _self_attr(n, '_location') or _self_attr(n, 'location') or (arg is not None and _is_name(n, arg))

    t = cond.test
    want = ast.NotEq
    if isinstance(t, ast.UnaryOp) and isinstance(t.op, ast.Not):            # `not a == b`
        t, want = t.operand, ast.Eq
    if not (isinstance(t, ast.Compare) and len(t.ops) == 1 and isinstance(t.ops[0], want)
            and len(t.comparators) == 1
            and ((day_loc(t.left) and own_loc(t.comparators[0])) or (own_loc(t.left) and day_loc(t.comparators[0])))):
        raise ExtractError(where + ': the test is not `dd.location != self._location` (whole Location objects)')
    moved = False
    for b in cond.body:
        if (isinstance(b, ast.Assign) and len(b.targets) == 1 and day_loc(b.targets[0]) and own_loc(b.value)):
            moved = True
        elif isinstance(b, ast.Expr) and isinstance(b.value, ast.Call) and (
                _is_name(b.value.func, 'print') or (isinstance(b.value.func, ast.Attribute) and isinstance(
                    b.value.func.value, ast.Name) and b.value.func.value.id in ('logging', 'logger', 'log', 'warnings'))):
            continue                                                    # a progress note
        else:
            raise ExtractError(where + ': unsupported statement in the guarded block at line %d' % b.lineno)
    if not moved:
        raise ExtractError(where + ': the day is not given the location of the DDY')
    return '.wholeLocation'


GUARDS = []


def _steps(stmts, arg, cls=None, depth=0):
    out = []
    for st in stmts:
        if isinstance(st, ast.Expr) and isinstance(st.value, ast.Constant) and isinstance(st.value.value, str):
            continue                                                    # docstring
        body = _inline(st, cls, depth)
        if body is not None:
            out += _steps(body, arg, cls, depth + 1)
            continue
        if isinstance(st, ast.Try):
            if st.orelse or st.finalbody:
                raise ExtractError('design_days setter: try with else/finally at line %d' % st.lineno)
            for h in st.handlers:
                if not (len(h.body) == 1 and isinstance(h.body[0], ast.Raise)):
                    raise ExtractError('design_days setter: handler that does not re-raise at line %d' % h.lineno)
            out += _steps(st.body, arg, cls, depth)
            continue
        if isinstance(st, ast.If):
            t = st.test
            if (isinstance(t, ast.UnaryOp) and isinstance(t.op, ast.Not) and isinstance(t.operand, ast.Call)
                    and _is_name(t.operand.func, 'isinstance') and len(t.operand.args) == 2
                    and _is_name(t.operand.args[0], arg) and _is_name(t.operand.args[1], 'list')
                    and not st.orelse and len(st.body) == 1 and isinstance(st.body[0], ast.Assign)
                    and len(st.body[0].targets) == 1 and _is_name(st.body[0].targets[0], arg)
                    and _call_of(st.body[0].value, ('list',), arg)):
                out.append('.materialiseUnlessList')
                continue
            raise ExtractError('design_days setter: unsupported if at line %d' % st.lineno)
        if isinstance(st, ast.Assign) and len(st.targets) == 1:
            tg, v = st.targets[0], st.value
            if _is_name(tg, arg) and _call_of(v, ('list', 'tuple'), arg):
                out.append('.materialise')
                continue
            if _self_attr(tg, '_design_days') and _is_name(v, arg):
                out.append('.storeArg')
                continue
            if _self_attr(tg, '_design_days') and _call_of(v, ('list', 'tuple'), arg):
                out.append('.storeListOfArg')
                continue
            raise ExtractError('design_days setter: unsupported assignment at line %d' % st.lineno)
        if isinstance(st, ast.For) and not st.orelse:
            if _is_name(st.iter, arg) and all(isinstance(b, ast.Assert) for b in st.body):
                out.append('.checkItems')
                continue
            if _self_attr(st.iter, '_design_days'):
                GUARDS.append(_location_guard(st))
                out.append('.updateLocations')
                continue
            raise ExtractError('design_days setter: unsupported loop at line %d' % st.lineno)
        raise ExtractError('design_days setter: unsupported statement at line %d' % st.lineno)
    return out


def _location_setter_guard(ddy):
    """`DDY.location` setter: assert isinstance; self._location = data; the update loop (inline or in a helper)."""
    setter = None
    for n in ddy.body:
        if isinstance(n, ast.FunctionDef) and n.name == 'location' and any(
                isinstance(d, ast.Attribute) and d.attr == 'setter' for d in n.decorator_list):
            setter = n
    if setter is None or len(setter.args.args) != 2:
        raise ExtractError('DDY.location setter not found')
    arg = setter.args.args[1].arg
    stmts = []
    for st in setter.body:
        body = _inline(st, ddy, 0)
        stmts += body if body is not None else [st]
    guards, stored = [], False
    for st in stmts:
        if isinstance(st, ast.Expr) and isinstance(st.value, ast.Constant) and isinstance(st.value.value, str):
            continue
        if isinstance(st, ast.Assert) or (isinstance(st, ast.If) and not st.orelse and len(st.body) == 1
                                          and isinstance(st.body[0], ast.Raise)):
            continue                                                    # validation of the argument
        if isinstance(st, ast.Assign) and len(st.targets) == 1 and _self_attr(st.targets[0], '_location') \
                and _is_name(st.value, arg):
            if guards:
                raise ExtractError('DDY.location setter: the days are updated before the location is stored')
            stored = True
            continue
        if isinstance(st, ast.For) and not st.orelse and _self_attr(st.iter, '_design_days'):
            if not stored:
                raise ExtractError('DDY.location setter: the days are updated before the location is stored')
            guards.append(_location_guard(st, arg))
            continue
        raise ExtractError('DDY.location setter: unsupported statement at line %d' % st.lineno)
    if not stored or len(guards) != 1:
        raise ExtractError('DDY.location setter: location stored %s, %d update loops' % (stored, len(guards)))
    return guards[0]


def _location_key():
    """The attributes `Location.__key` lists (what `==` and `hash` compare) and `Location.__slots__`."""
    tree, _ = parse_file('ladybug/location.py')
    loc = find_class(tree, 'Location')
    key = slots = None
    for n in loc.body:
        if isinstance(n, ast.Assign) and len(n.targets) == 1 and _is_name(n.targets[0], '__slots__') \
                and isinstance(n.value, (ast.Tuple, ast.List)):
            slots = [e.value for e in n.value.elts if isinstance(e, ast.Constant)]
            if len(slots) != len(n.value.elts):
                raise ExtractError('Location.__slots__: not a tuple of names')
        if isinstance(n, ast.FunctionDef) and n.name.endswith('__key'):
            rets = [b for b in n.body if isinstance(b, ast.Return)]
            if len(rets) != 1 or not isinstance(rets[0].value, ast.Tuple):
                raise ExtractError('Location.__key: not a single returned tuple')
            key = []
            for e in rets[0].value.elts:
                if not (isinstance(e, ast.Attribute) and _is_name(e.value, 'self')):
                    raise ExtractError('Location.__key: element that is not a plain attribute at line %d' % e.lineno)
                key.append(e.attr)
        if isinstance(n, ast.FunctionDef) and n.name == '__eq__':
            src = ast.dump(n)
            if '__key' not in src or 'isinstance' not in src:
                raise ExtractError('Location.__eq__ does not compare the keys')
    if key is None or slots is None:
        raise ExtractError('Location.__key / __slots__ not found')
    return key, slots


def extract():
    tree, _ = parse_file('ladybug/ddy.py')
    ddy = find_class(tree, 'DDY')
    setter = None
    for n in ddy.body:
        if isinstance(n, ast.FunctionDef) and n.name == 'design_days' and any(
                isinstance(d, ast.Attribute) and d.attr == 'setter' for d in n.decorator_list):
            setter = n
    if setter is None or len(setter.args.args) != 2:
        raise ExtractError('DDY.design_days setter not found')
    arg = setter.args.args[1].arg
    del GUARDS[:]
    plan = _steps(setter.body, arg, ddy)
    if len(GUARDS) != 1:
        raise ExtractError('design_days setter: %d location update loops' % len(GUARDS))
    days_guard = GUARDS[0]
    loc_guard = _location_setter_guard(ddy)
    key, slots = _location_key()
    if not any(p in ('.storeArg', '.storeListOfArg') for p in plan):
        raise ExtractError('design_days setter: nothing is stored')
    # __init__ must go through the setter (self.design_days = design_days)
    init = [n for n in ddy.body if isinstance(n, ast.FunctionDef) and n.name == '__init__']
    via_setter = bool(init) and any(
        isinstance(s, ast.Assign) and len(s.targets) == 1 and _self_attr(s.targets[0], 'design_days')
        and isinstance(s.value, ast.Name) for s in init[0].body)
    lines = [HEADER % ('ddy_setter.py', 'ladybug/ddy.py'), 'namespace Gen.DDY', '',
             '/-- One statement of the `DDY.design_days` setter, as far as walking its argument is concerned. -/',
             'inductive SetterStep where',
             '  | materialiseUnlessList | materialise | checkItems | storeArg | storeListOfArg | updateLocations',
             '  deriving DecidableEq, Repr', '',
             '/-- The statements of the setter, in source order. -/',
             'def setterPlan : List SetterStep := [' + ', '.join(plan) + ']', '',
             '/-- `DDY.__init__` assigns through the setter (`self.design_days = design_days`). -/',
             'def initUsesSetter : Bool := ' + ('true' if via_setter else 'false'), '',
             '/-- What a location-update loop of ddy.py compares: `wholeLocation` = `dd.location != self._location`',
             '    (Location.__eq__ on the whole objects). -/',
             'inductive LocGuard where',
             '  | wholeLocation',
             '  deriving DecidableEq, Repr', '',
             '/-- The test of the update loop of the `design_days` setter / of the `location` setter. -/',
             'def daysSetterGuard : LocGuard := ' + days_guard,
             'def locationSetterGuard : LocGuard := ' + loc_guard, '',
             '/-- The attributes `Location.__key` lists (compared by `==`, hashed), in source order. -/',
             'def locationKey : List String := [' + ', '.join('"%s"' % k for k in key) + ']', '',
             '/-- `Location.__slots__`: everything a Location object holds. -/',
             'def locationSlots : List String := [' + ', '.join('"%s"' % k for k in slots) + ']', '',
             'end Gen.DDY', '']
    write_if_changed('DDYSetter', '\n'.join(lines))
    return {'plan': plan, 'init_uses_setter': via_setter, 'days_guard': days_guard, 'location_guard': loc_guard,
            'location_key': key, 'location_slots': slots}


if __name__ == '__main__':
    print(extract())
