"""Gen/DomeTables.lean: the class constants of ladybug/viewsphere.py that the C20 model is built on.

  * TREGENZA_PATCHES_PER_ROW, REINHART_PATCHES_PER_ROW        (natural numbers)
  * TREGENZA_COEFFICIENTS, REINHART_COEFFICIENTS              (decimal literals, copied exactly as Rat)

The coefficient literals are taken from the source text (not from the float value) so that the Lean
`Rat` is exactly the decimal that is written in viewsphere.py.
"""
import ast
from fractions import Fraction

from .common import (parse_file, find_class, find_assign, const_fold, lean_nat_list, lean_rat,
                     write_if_changed, ExtractError, HEADER)


def _decimal_tuple(node, src, name):
    """Exact Fractions of a tuple of float/int literals, read from the source spelling."""
    if not isinstance(node, (ast.Tuple, ast.List)):
        raise ExtractError('%s is no longer a literal tuple' % name)
    out = []
    for e in node.elts:
        if not (isinstance(e, ast.Constant) and isinstance(e.value, (int, float))
                and not isinstance(e.value, bool)):
            raise ExtractError('%s: unsupported element %s' % (name, ast.dump(e)[:60]))
        text = ast.get_source_segment(src, e)
        try:
            fr = Fraction(text)
        except (ValueError, TypeError):
            raise ExtractError('%s: cannot read literal %r' % (name, text))
        if float(fr) != float(e.value):
            raise ExtractError('%s: literal %r does not denote %r' % (name, text, e.value))
        if fr <= 0:
            raise ExtractError('%s: non-positive coefficient %r' % (name, text))
        out.append(fr)
    return out


def _nat_tuple(node, name):
    vals = const_fold(node)
    if not isinstance(vals, list) or not vals:
        raise ExtractError('%s is no longer a non-empty literal tuple' % name)
    for v in vals:
        if not isinstance(v, int) or isinstance(v, bool) or v < 0:
            raise ExtractError('%s: expected natural numbers, got %r' % (name, v))
    return vals


def extract():
    tree, src = parse_file('ladybug/viewsphere.py')
    cls = find_class(tree, 'ViewSphere')
    t_rows = _nat_tuple(find_assign(cls, 'TREGENZA_PATCHES_PER_ROW'), 'TREGENZA_PATCHES_PER_ROW')
    r_rows = _nat_tuple(find_assign(cls, 'REINHART_PATCHES_PER_ROW'), 'REINHART_PATCHES_PER_ROW')
    t_coef = _decimal_tuple(find_assign(cls, 'TREGENZA_COEFFICIENTS'), src, 'TREGENZA_COEFFICIENTS')
    r_coef = _decimal_tuple(find_assign(cls, 'REINHART_COEFFICIENTS'), src, 'REINHART_COEFFICIENTS')
    text = (HEADER % ('dome_tables.py', 'ladybug/viewsphere.py')) + '\n'.join([
        'namespace Gen.Dome',
        'def tregenzaRows : List Nat := ' + lean_nat_list(t_rows),
        'def reinhartRows : List Nat := ' + lean_nat_list(r_rows),
        'def tregenzaCoefficients : List Rat := [' + ', '.join(lean_rat(x) for x in t_coef) + ']',
        'def reinhartCoefficients : List Rat := [' + ', '.join(lean_rat(x) for x in r_coef) + ']',
        'end Gen.Dome', ''])
    write_if_changed('DomeTables', text)
    return {'tregenza_rows': t_rows, 'reinhart_rows': r_rows,
            'tregenza_coefficients': t_coef, 'reinhart_coefficients': r_coef}


if __name__ == '__main__':
    print(extract())
