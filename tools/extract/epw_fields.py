"""Gen/EpwFields.lean: the table `EPWFields._fields` of ladybug/epw.py.

Per field number 0..34: value type (int / float / str), unit, missing value (text of the literal) and
the `point_in_time` flag of the field's data type.  The flag is derived statically: for
`generic.GenericType(...)` from the call's `point_in_time` argument (default of the constructor),
for `module.Class()` from the `_point_in_time` class attribute along the base-class chain inside
`ladybug/datatype/<module>.py` (default: `DataTypeBase._point_in_time` of datatype/base.py).
Anything that is not of this shape raises ExtractError.  The statically derived flags are also
compared with the live classes by the C01 correspondence (op `flags`).
"""
import ast
from .common import (parse_file, find_class, find_assign, const_fold, lean_str,
                     write_if_changed, ExtractError, HEADER)

TYPE_CODES = {'int': 0, 'float': 1, 'str': 2}


def _class_flag(module, cls_name, seen=None):
    """`_point_in_time` of ladybug/datatype/<module>.py::<cls_name> (walks single inheritance)."""
    tree, _ = parse_file('ladybug/datatype/%s.py' % module)
    seen = seen or set()
    name = cls_name
    while True:
        if (module, name) in seen:
            raise ExtractError('datatype/%s.py: cyclic bases at %s' % (module, name))
        seen.add((module, name))
        node = find_class(tree, name)
        try:
            v = const_fold(find_assign(node, '_point_in_time'))
            if not isinstance(v, bool):
                raise ExtractError('datatype/%s.py %s._point_in_time is not a bool literal' % (module, name))
            return v
        except ExtractError as e:
            if 'not found' not in str(e):
                raise
        if len(node.bases) != 1 or not isinstance(node.bases[0], ast.Name):
            raise ExtractError('datatype/%s.py %s: unsupported bases' % (module, name))
        base = node.bases[0].id
        if base == 'DataTypeBase':
            btree, _ = parse_file('ladybug/datatype/base.py')
            v = const_fold(find_assign(find_class(btree, 'DataTypeBase'), '_point_in_time'))
            if not isinstance(v, bool):
                raise ExtractError('DataTypeBase._point_in_time is not a bool literal')
            return v
        name = base


def _generic_flag(call):
    """point_in_time of a `generic.GenericType(name, unit, ...)` call."""
    tree, _ = parse_file('ladybug/datatype/generic.py')
    init = None
    for n in find_class(tree, 'GenericType').body:
        if isinstance(n, ast.FunctionDef) and n.name == '__init__':
            init = n
    if init is None:
        raise ExtractError('GenericType.__init__ not found')
    names = [a.arg for a in init.args.args][1:]           # without self
    defaults = init.args.defaults
    if 'point_in_time' not in names:
        raise ExtractError('GenericType.__init__ has no point_in_time argument')
    pos = names.index('point_in_time')
    dflt_idx = pos - (len(names) - len(defaults))
    if dflt_idx < 0:
        raise ExtractError('GenericType.__init__: point_in_time has no default')
    value = const_fold(defaults[dflt_idx])
    if len(call.args) > pos:
        value = const_fold(call.args[pos])
    for kw in call.keywords:
        if kw.arg == 'point_in_time':
            value = const_fold(kw.value)
    if not isinstance(value, bool):
        raise ExtractError('GenericType point_in_time is not a bool literal')
    return value


def _literal_text(node):
    v = const_fold(node)
    if isinstance(v, bool) or not isinstance(v, (int,)) and not hasattr(v, 'numerator'):
        raise ExtractError('missing value %r is not a number' % (v,))
    # Python text of the literal as it is written to a file: str(99.9) / str(999)
    if isinstance(node, ast.Constant) and isinstance(node.value, float):
        return repr(node.value)
    return str(v)


def extract():
    tree, _ = parse_file('ladybug/epw.py')
    cls = find_class(tree, 'EPWFields')
    node = find_assign(cls, '_fields')
    if not isinstance(node, ast.Dict):
        raise ExtractError('EPWFields._fields is no longer a dict literal')
    rows = {}
    for k, v in zip(node.keys, node.values):
        num = const_fold(k)
        if not isinstance(num, int) or isinstance(num, bool) or not isinstance(v, ast.Dict):
            raise ExtractError('EPWFields._fields: unsupported entry at line %s' % getattr(k, 'lineno', '?'))
        ent = {}
        for kk, vv in zip(v.keys, v.values):
            ent[const_fold(kk)] = vv
        for need in ('name', 'type'):
            if need not in ent:
                raise ExtractError('EPWFields._fields[%d] has no %r' % (num, need))
        t = ent['type']
        if not (isinstance(t, ast.Name) and t.id in TYPE_CODES):
            raise ExtractError('EPWFields._fields[%d]: value type is not int/float/str' % num)
        call = ent['name']
        if not (isinstance(call, ast.Call) and isinstance(call.func, ast.Attribute)
                and isinstance(call.func.value, ast.Name)):
            raise ExtractError('EPWFields._fields[%d]: name is not module.Class(...)' % num)
        module, cname = call.func.value.id, call.func.attr
        if module == 'generic' and cname == 'GenericType':
            pit = _generic_flag(call)
            tname = 'GenericType'
        else:
            if call.args or call.keywords:
                raise ExtractError('EPWFields._fields[%d]: data type constructed with arguments' % num)
            pit = _class_flag(module, cname)
            tname = cname
        unit = const_fold(ent['unit']) if 'unit' in ent else None
        if unit is not None and not isinstance(unit, str):
            raise ExtractError('EPWFields._fields[%d]: unit is not a string' % num)
        missing = _literal_text(ent['missing']) if 'missing' in ent else None
        rows[num] = {'type': t.id, 'pit': pit, 'unit': unit, 'missing': missing, 'dtype': tname,
                     'module': module}
    if sorted(rows) != list(range(len(rows))):
        raise ExtractError('EPWFields._fields keys are not 0..n-1: %r' % sorted(rows))
    n = len(rows)

    def blist(xs):
        return '[' + ', '.join('true' if x else 'false' for x in xs) + ']'

    def olist(xs):
        return '[' + ', '.join('none' if x is None else 'some ' + lean_str(x) for x in xs) + ']'

    text = (HEADER % ('epw_fields.py', 'ladybug/epw.py (EPWFields._fields) and ladybug/datatype/*.py')) + '\n'.join([
        'namespace Gen.EpwFields',
        '/-- number of entries of `EPWFields._fields` -/',
        'def count : Nat := %d' % n,
        '/-- value type per field number: 0 = int, 1 = float, 2 = str -/',
        'def valueType : List Nat := [' + ', '.join(str(TYPE_CODES[rows[i]['type']]) for i in range(n)) + ']',
        '/-- `point_in_time` of the data type of each field -/',
        'def pointInTime : List Bool := ' + blist([rows[i]['pit'] for i in range(n)]),
        'def unit : List (Option String) := ' + olist([rows[i]['unit'] for i in range(n)]),
        '/-- text of the missing-value literal (`none`: the field has no missing value) -/',
        'def missing : List (Option String) := ' + olist([rows[i]['missing'] for i in range(n)]),
        '/-- class name of the data type -/',
        'def dataType : List String := [' + ', '.join(lean_str(rows[i]['dtype']) for i in range(n)) + ']',
        'end Gen.EpwFields', ''])
    write_if_changed('EpwFields', text)
    return rows


if __name__ == '__main__':
    for k, v in sorted(extract().items()):
        print(k, v)
